----------------------------- MODULE Descriptor -----------------------------
(***************************************************************************)
(* S3: the form compiler as a total function  abstract form -> descriptor. *)
(*                                                                         *)
(* Written from the statement of property C06 and from ufcx.h (struct      *)
(* ufcx_form, struct ufcx_integral, enum ufcx_integral_type), NOT from     *)
(* FFCx's code: nothing here knows about integral_data, argsort, IR, ...   *)
(*                                                                         *)
(* An ABSTRACT FORM F is what the user wrote, reduced to what the          *)
(* descriptor depends on:                                                  *)
(*   F.cell       "triangle" | "prism"                                     *)
(*   F.rank       number of arguments (0 | 1)                              *)
(*   F.integrals  sequence of declared integrals, in the order written;    *)
(*                integral k is  [type, sub, rule]  and carries LABEL k    *)
(*                (its integrand is  label_k * fixed integrand):           *)
(*                  type  an ufcx_integral_type name                       *)
(*                  sub   <<>> = everywhere, else the sequence of          *)
(*                        subdomain ids it is declared over (dx(1),        *)
(*                        dx((0,2)))                                       *)
(*                  rule  quadrature metadata tag                          *)
(*   F.coefs      the coefficients of the form as written, in order; each  *)
(*                "P1" | "P2" (element tag of a coefficient the integrals  *)
(*                depend on) or "dropped" (occurs in the form as written   *)
(*                but the integrals do not depend on it)                   *)
(*   F.cpat       layout of the constants of the form (see Consts)         *)
(*                                                                         *)
(* An OBSERVATION O is the projection of a compiled ufcx_form (read        *)
(* through cffi, kernels called) - see harness/s3.py:                      *)
(*   scalar fields / sequences named as in ufcx.h;                         *)
(*   O.elements   finite_element_hashes mapped to element tags             *)
(*   O.offsets    form_integral_offsets[0..5]                              *)
(*   per listed kernel j (0 <= j < offsets[5]), 1-based sequences:         *)
(*   O.ids[j]     form_integral_ids                                        *)
(*   O.tags[j]    form_integrals[j]->domain as a cell-type name            *)
(*   O.ceh[j]     coordinate_element_hash mapped to an element tag         *)
(*   O.exact[j]   the kernel's result decoded to a label multiset exactly  *)
(*   O.labels[j]  [k |-> how many times label k is in the kernel's result] *)
(*                                                                         *)
(* The second half of the module is the enumeration of the bounded domain  *)
(* (a state machine, so TLC's state counts are the number of abstract      *)
(* forms) and the spec-level sanity theorems checked on all of it.         *)
(***************************************************************************)
EXTENDS Integers, Sequences, FiniteSets, TLC

(* ------------------------------- ufcx.h -------------------------------- *)
\* enum ufcx_integral_type { cell = 0, exterior_facet = 1, interior_facet = 2, vertex = 3, ridge = 4 }
IntegralTypes == <<"cell", "exterior_facet", "interior_facet", "vertex", "ridge">>
NTypes == Len(IntegralTypes)

Everywhere == <<>>
SeqRange(s) == {s[k] : k \in DOMAIN s}
IdsOf(sub) == IF sub = Everywhere THEN {-1} ELSE SeqRange(sub)
\* "an integral over several ids counts for each; everywhere integrals appear under id -1 only"
Contains(sub, id) == id \in IdsOf(sub)

\* cell type of the integration entity: one kernel per entity cell type
EntityTags(cell, type) ==
  CASE type = "vertex"                                   -> {"point"}
    [] type = "ridge" /\ cell = "triangle"               -> {"point"}
    [] type = "ridge" /\ cell = "prism"                  -> {"interval"}
    [] type = "cell"                                     -> {cell}
    [] cell = "triangle"                                 -> {"interval"}
    [] cell = "prism"                                    -> {"triangle", "quadrilateral"}

ArgumentElement == "P1"        \* the fixed test function of the binding
CoordinateElement == "P1"      \* affine geometry (vector P1; tag names the scalar family)

(* ------------------------------ constants ------------------------------ *)
\* Layout of the constants of a form with n labels: sequence of [shape, label]
\* (label = 0: an extra constant).  Order = order of the constants in the form.
Lab(k) == [shape |-> <<>>, label |-> k]
Extra(sh) == [shape |-> sh, label |-> 0]
Labels(a, b) == [k \in 1..(b - a + 1) |-> Lab(a + k - 1)]
Consts(cpat, n) ==
  CASE cpat = "plain"    -> Labels(1, n)
    [] cpat = "vecfirst" -> <<Extra(<<2>>)>> \o Labels(1, n)
    [] cpat = "matmid"   -> <<Lab(1), Extra(<<2, 3>>)>> \o Labels(2, n)
    [] cpat = "both"     -> <<Extra(<<2>>), Lab(1), Extra(<<2, 3>>)>> \o Labels(2, n) \o <<Extra(<<3>>)>>
ConstPatterns == {"plain", "vecfirst", "matmid", "both"}

(* ----------------------- the expected descriptor ----------------------- *)
NumIntegrals(F) == Len(F.integrals)
OfType(F, t) == {k \in 1..NumIntegrals(F) : F.integrals[k].type = t}

\* subdomain ids listed under integral type t
ExpectedIds(F, t) == UNION {IdsOf(F.integrals[k].sub) : k \in OfType(F, t)}

\* [label k |-> multiplicity]: labels of all declared integrals of type t whose subdomain contains id
ExpectedLabels(F, t, id) ==
  [k \in 1..NumIntegrals(F) |->
     IF F.integrals[k].type = t /\ Contains(F.integrals[k].sub, id) THEN 1 ELSE 0]

UsedCoefs(F) == SelectSeq([k \in 1..Len(F.coefs) |-> k], LAMBDA k : F.coefs[k] # "dropped")

Descriptor(F) ==
  LET used == UsedCoefs(F)
      cs == Consts(F.cpat, NumIntegrals(F))
  IN [ rank |-> F.rank,
       num_coefficients |-> Len(used),
       \* position (0-based) in the form as written of each coefficient the kernels take
       original_coefficient_positions |-> [j \in 1..Len(used) |-> used[j] - 1],
       \* unnamed objects are called w<j> / c<j> (j = position in the compiled form's lists)
       coefficient_name_map |-> [j \in 1..Len(used) |-> "w" \o ToString(j - 1)],
       num_constants |-> Len(cs),
       constant_ranks |-> [j \in 1..Len(cs) |-> Len(cs[j].shape)],
       constant_shapes |-> [j \in 1..Len(cs) |-> cs[j].shape],
       constant_name_map |-> [j \in 1..Len(cs) |-> "c" \o ToString(j - 1)],
       \* finite_element_hashes: arguments, then coefficients
       elements |-> [j \in 1..F.rank |-> ArgumentElement] \o [j \in 1..Len(used) |-> F.coefs[used[j]]],
       coordinate_element |-> CoordinateElement,
       ids |-> [t \in 1..NTypes |-> ExpectedIds(F, IntegralTypes[t])],
       labels |-> [t \in 1..NTypes |->
                     [id \in ExpectedIds(F, IntegralTypes[t]) |-> ExpectedLabels(F, IntegralTypes[t], id)]],
       tags |-> [t \in 1..NTypes |-> EntityTags(F.cell, IntegralTypes[t])] ]

(* ------------------- comparison with an observation -------------------- *)
Zero(n) == [k \in 1..n |-> 0]
RECURSIVE SumLabels(_, _, _)
\* sum of O.labels[j] over the kernel positions in J
SumLabels(O, J, n) ==
  IF J = {} THEN Zero(n)
  ELSE LET j == CHOOSE x \in J : TRUE
           r == SumLabels(O, J \ {j}, n)
       IN [k \in 1..n |-> r[k] + O.labels[j][k]]

OffsetsWellFormed(O) ==
  /\ Len(O.offsets) = NTypes + 1
  /\ O.offsets[1] = 0
  /\ \A t \in 1..NTypes : O.offsets[t] <= O.offsets[t + 1]
  /\ Len(O.ids) = O.offsets[NTypes + 1]

\* kernel positions (1-based) of group t
Group(O, t) == (O.offsets[t] + 1)..O.offsets[t + 1]

\* One entry <<field, expected, observed>> per disagreeing field, in a fixed order.
Mismatches(F, O) ==
  LET D == Descriptor(F)
      n == NumIntegrals(F)
      Scalar(name, e, o) == IF e = o THEN <<>> ELSE <<<<name, e, o>>>>
      wf == OffsetsWellFormed(O)
      PerType(t) ==
        LET G == Group(O, t)
            obsIds == {O.ids[j] : j \in G}
            sorted == \A i, j \in G : i < j => O.ids[i] <= O.ids[j]
            tagsOk == \A j \in G : O.tags[j] \in D.tags[t]
            cehOk == \A j \in G : O.ceh[j] = D.coordinate_element
            decOk == \A j \in G : O.exact[j]
            \* the kernels listed under (t, id, entity cell type), applied one after another,
            \* add exactly the labels declared for that id
            bad == {p \in D.ids[t] \X D.tags[t] :
                      SumLabels(O, {j \in G : O.ids[j] = p[1] /\ O.tags[j] = p[2]}, n) # D.labels[t][p[1]]}
        IN  Scalar("ids:" \o IntegralTypes[t], D.ids[t], obsIds)
            \o (IF sorted THEN <<>> ELSE <<<<"ids_nondecreasing:" \o IntegralTypes[t], TRUE, [j \in G |-> O.ids[j]]>>>>)
            \o (IF tagsOk THEN <<>> ELSE <<<<"domain:" \o IntegralTypes[t], D.tags[t], [j \in G |-> O.tags[j]]>>>>)
            \o (IF cehOk THEN <<>> ELSE <<<<"coordinate_element_hash:" \o IntegralTypes[t], D.coordinate_element, [j \in G |-> O.ceh[j]]>>>>)
            \o (IF decOk THEN <<>> ELSE <<<<"kernel_value_decodes:" \o IntegralTypes[t], TRUE, [j \in G |-> O.exact[j]]>>>>)
            \o (IF obsIds # D.ids[t] \/ ~tagsOk \/ ~decOk \/ bad = {} THEN <<>>
                ELSE LET p == CHOOSE q \in bad : TRUE
                     IN <<<<"labels:" \o IntegralTypes[t], <<p, D.labels[t][p[1]]>>,
                            SumLabels(O, {j \in G : O.ids[j] = p[1] /\ O.tags[j] = p[2]}, n)>>>>)
      RECURSIVE AllTypes(_)
      AllTypes(t) == IF t > NTypes THEN <<>> ELSE PerType(t) \o AllTypes(t + 1)
  IN  Scalar("rank", D.rank, O.rank)
      \o Scalar("num_coefficients", D.num_coefficients, O.num_coefficients)
      \o Scalar("original_coefficient_positions", D.original_coefficient_positions, O.original_coefficient_positions)
      \o Scalar("coefficient_name_map", D.coefficient_name_map, O.coefficient_name_map)
      \o Scalar("num_constants", D.num_constants, O.num_constants)
      \o Scalar("constant_ranks", D.constant_ranks, O.constant_ranks)
      \o Scalar("constant_shapes", D.constant_shapes, O.constant_shapes)
      \o Scalar("constant_name_map", D.constant_name_map, O.constant_name_map)
      \o Scalar("finite_element_hashes", D.elements, O.elements)
      \o (IF wf THEN AllTypes(1) ELSE <<<<"form_integral_offsets", "well-formed", O.offsets>>>>)

Conforms(F, O) == Mismatches(F, O) = <<>>

(* --------------------- a canonical conforming listing ------------------ *)
\* (witness that the acceptance predicate is satisfiable for every form of the domain,
\*  and raw material for the spec-level negative controls)
RECURSIVE SortedSeq(_)
SortedSeq(S) == IF S = {} THEN <<>>
                ELSE LET m == CHOOSE x \in S : \A y \in S : x <= y IN <<m>> \o SortedSeq(S \ {m})
TagOrder == <<"point", "interval", "triangle", "quadrilateral", "prism">>
TagSeq(S) == SelectSeq(TagOrder, LAMBDA x : x \in S)

\* kernels of group t: sequence of [id, tag, labels]; fold = everywhere labels added to numbered ids
GroupListing(F, t, fold) ==
  LET ty == IntegralTypes[t]
      ids == SortedSeq(ExpectedIds(F, ty))
      tg == TagSeq(EntityTags(F.cell, ty))
      n == NumIntegrals(F)
      lab(id) == IF fold /\ id # -1
                 THEN [k \in 1..n |-> ExpectedLabels(F, ty, id)[k] + ExpectedLabels(F, ty, -1)[k]]
                 ELSE ExpectedLabels(F, ty, id)
  IN [q \in 1..(Len(ids) * Len(tg)) |->
        LET i == ((q - 1) \div Len(tg)) + 1  j == ((q - 1) % Len(tg)) + 1
        IN [id |-> ids[i], tag |-> tg[j], labels |-> lab(ids[i])]]

RECURSIVE Concat(_, _)
Concat(f, t) == IF t > NTypes THEN <<>> ELSE f[t] \o Concat(f, t + 1)
RECURSIVE Offsets(_, _)
Offsets(f, t) == IF t = 0 THEN <<0>> ELSE LET o == Offsets(f, t - 1) IN Append(o, o[t] + Len(f[t]))

Canon(F, fold) ==
  LET D == Descriptor(F)
      g == [t \in 1..NTypes |-> GroupListing(F, t, fold)]
      all == Concat(g, 1)
  IN [ rank |-> D.rank, num_coefficients |-> D.num_coefficients,
       original_coefficient_positions |-> D.original_coefficient_positions,
       coefficient_name_map |-> D.coefficient_name_map,
       num_constants |-> D.num_constants, constant_ranks |-> D.constant_ranks,
       constant_shapes |-> D.constant_shapes, constant_name_map |-> D.constant_name_map,
       elements |-> D.elements,
       offsets |-> Offsets(g, NTypes),
       ids |-> [j \in DOMAIN all |-> all[j].id],
       tags |-> [j \in DOMAIN all |-> all[j].tag],
       ceh |-> [j \in DOMAIN all |-> D.coordinate_element],
       exact |-> [j \in DOMAIN all |-> TRUE],
       labels |-> [j \in DOMAIN all |-> all[j].labels] ]

\* the offsets defect class: the last listed kernel is lost (offsets too small)
Min(a, b) == IF a < b THEN a ELSE b
DropLast(O) ==
  LET n == Len(O.ids) IN
  [O EXCEPT !.offsets = [t \in DOMAIN O.offsets |-> Min(O.offsets[t], n - 1)],
            !.ids = SubSeq(O.ids, 1, n - 1), !.tags = SubSeq(O.tags, 1, n - 1),
            !.ceh = SubSeq(O.ceh, 1, n - 1), !.exact = SubSeq(O.exact, 1, n - 1),
            !.labels = SubSeq(O.labels, 1, n - 1)]

(* ------------------------ the bounded domain --------------------------- *)
CONSTANTS MaxLen,      \* number of declared integrals per form (<= 3)
          What         \* "shapes": integral lists;  "dressings": rank/coefficients/constants

VARIABLES form, phase
evars == <<form, phase>>

Cells == {"triangle", "prism"}
\* dS on prisms is not supported by FFCx (fails before code generation): outside the domain
TypesOf(cell) == IF cell = "triangle" THEN {"cell", "exterior_facet", "interior_facet", "vertex"}
                 ELSE {"cell", "exterior_facet", "vertex"}
Subs == {<<>>, <<0>>, <<1>>, <<2>>, <<0, 1>>, <<1, 2>>, <<0, 2>>}
Rules == {"default", "deg1", "deg3"}

Overlap(I, J) == I.type = J.type /\ IdsOf(I.sub) \cap IdsOf(J.sub) # {}
\* quadrature metadata only matters where two integrals meet under one (type, id):
\* "repeated ids with different quadrature metadata"
RuleRelevant(ints) ==
  \A k \in DOMAIN ints : ints[k].rule # "default" =>
      \E j \in DOMAIN ints : j # k /\ Overlap(ints[k], ints[j])

CoefKinds == {"P1", "P2", "dropped"}
CoefLists == {<<>>} \cup {<<a>> : a \in CoefKinds} \cup {<<a, b>> : a \in CoefKinds, b \in CoefKinds}
\* a dropped coefficient is realised through a Gateaux derivative in direction of the test function
DressingOK(r, cf) ==
  LET nd == Cardinality({k \in DOMAIN cf : cf[k] = "dropped"}) IN nd <= 1 /\ (nd = 1 => r = 1)

PlainForm(cell) == [cell |-> cell, rank |-> 0, integrals |-> <<>>, coefs |-> <<>>, cpat |-> "plain"]

EInit ==
  IF What = "shapes"
  THEN /\ phase = "shape" /\ form \in {PlainForm(c) : c \in Cells}
  ELSE /\ phase = "final"
       /\ form \in {[cell |-> c, rank |-> r, integrals |-> <<[type |-> "cell", sub |-> <<>>, rule |-> "default"]>>,
                     coefs |-> cf, cpat |-> cp] :
                    c \in {"triangle"}, r \in {0, 1}, cf \in CoefLists, cp \in ConstPatterns}
       /\ DressingOK(form.rank, form.coefs)

AddIntegral ==
  /\ phase = "shape" /\ Len(form.integrals) < MaxLen
  /\ \E t \in TypesOf(form.cell), s \in Subs :
        form' = [form EXCEPT !.integrals = Append(@, [type |-> t, sub |-> s, rule |-> "default"])]
  /\ phase' = phase

AssignRules ==
  /\ phase = "shape" /\ Len(form.integrals) >= 1
  /\ \E rl \in [DOMAIN form.integrals -> Rules] :
        LET ints == [k \in DOMAIN form.integrals |-> [form.integrals[k] EXCEPT !.rule = rl[k]]]
        IN RuleRelevant(ints) /\ form' = [form EXCEPT !.integrals = ints]
  /\ phase' = "final"

ENext == AddIntegral \/ AssignRules
ESpec == EInit /\ [][ENext]_evars

\* every state with phase = "final" is one abstract form of the domain
Emit == phase = "final" => PrintT(<<"FORM", form>>)

(* ------------- spec-level theorems, checked on the whole domain -------- *)
\* the acceptance predicate is satisfiable: the canonical listing conforms
CanonConforms == phase = "final" => Conforms(form, Canon(form, FALSE))
\* folding 'everywhere' integrals into numbered ids is rejected wherever it is visible
FoldRejected ==
  (phase = "final" /\ \E t \in 1..NTypes : {-1} \subseteq ExpectedIds(form, IntegralTypes[t])
                                          /\ ExpectedIds(form, IntegralTypes[t]) # {-1})
     => ~Conforms(form, Canon(form, TRUE))
\* losing the last listed kernel is rejected
ShortRejected == (phase = "final") => ~Conforms(form, DropLast(Canon(form, FALSE)))
\* each declared integral is counted exactly once per id it is declared over
CountedOncePerId ==
  phase = "final" =>
    \A k \in DOMAIN form.integrals :
       Cardinality({p \in (1..NTypes) \X (-1..2) :
                      p[2] \in ExpectedIds(form, IntegralTypes[p[1]])
                      /\ ExpectedLabels(form, IntegralTypes[p[1]], p[2])[k] = 1})
         = Cardinality(IdsOf(form.integrals[k].sub))
=============================================================================
