----------------------------- MODULE TableSpace -----------------------------
(***************************************************************************)
(* Engine S7 "TableOpt", part 1: the value algebra, the table operators    *)
(* and the bounded space of TABLE DESCRIPTIONS.                            *)
(*                                                                         *)
(* ffcx/ir/elementtables.py::build_optimized_tables turns a raw table      *)
(*      T[perm][entity][point][dof]                                        *)
(* into a UniqueTableReferenceT (clamp -> classify -> reduce -> dedupe);   *)
(* codegeneration/access.py::table_access and symbols.py::element_table    *)
(* index the reduced table.  This module is constant-level (no CONSTANTS,  *)
(* no VARIABLES) so that                                                   *)
(*   TableOpt.tla        (the design model, a state machine),              *)
(*   TableOptConform.tla (the judge of records from the real code)         *)
(* share ONE definition of every operator.                                 *)
(*                                                                         *)
(* VALUES.  TLC integers are 32 bit.  A table entry is a pair <<m, k>>     *)
(* meaning  m/4 + k*1e-10  (m, k small integers).  Every closeness test is *)
(* integer arithmetic.  np.isclose(a, b, rtol, atol) is                    *)
(*      |a - b| <= atol + rtol*|b|                                         *)
(* A tolerance pair is [a, r] with a = atol/1e-10 and r = rtol*(1/4)/1e-10 *)
(* (the tolerance gained per quarter of |b|): default (1e-9, 1e-6) is      *)
(* [10, 2500].  Two entries with different m are at least 1/4 - 2e-5 apart *)
(* (|k| <= KMax), never close.  The part rtol*k*1e-10 of rtol*|b| is below *)
(* 0.1 unit and is covered by Margin: a comparison whose two sides are     *)
(* within Margin units of each other is a KNIFE EDGE (the float rounding   *)
(* of the real code could decide it) and a description containing one is   *)
(* outside the model (EdgeFree).                                           *)
(***************************************************************************)
EXTENDS Integers, Sequences, FiniteSets, TLC

Abs(x) == IF x < 0 THEN -x ELSE x
Max2(a, b) == IF a > b THEN a ELSE b
SetMin(S) == CHOOSE x \in S : \A y \in S : x <= y

Zero == <<0, 0>>
One == <<4, 0>>
MinusOne == <<-4, 0>>
KMax == 100000
MMax == 8
InRange(v) == Abs(v[1]) <= MMax /\ Abs(v[2]) <= KMax

DefaultTol == [a |-> 10, r |-> 2500]        \* np.allclose defaults used by elementtables.py: atol 1e-9, rtol 1e-6
LargeTol   == [a |-> 10000, r |-> 2500]     \* options table_atol = 1e-6
ZeroTol    == [a |-> 0, r |-> 0]            \* options table_atol = table_rtol = 0: only exact -1, 0, 1 are clamped
TolNamed(n) == CASE n = "default" -> DefaultTol [] n = "large" -> LargeTol [] n = "zero" -> ZeroTol

TolAt(b, tol) == tol.a + tol.r * Abs(b[1])
Close(a, b, tol) == a[1] = b[1] /\ Abs(a[2] - b[2]) <= TolAt(b, tol)
Margin == 1
Edge(a, b, tol) == /\ tol.a + tol.r > 0                  \* with zero tolerances the test is exact equality of equal floats
                   /\ a[1] = b[1]
                   /\ Abs(Abs(a[2] - b[2]) - TolAt(b, tol)) <= Margin
\* "within n tolerances" (n reductions / substitutions chained); + n absorbs the ignored part of rtol*|b|
Within(a, b, n, tol) == a[1] = b[1] /\ Abs(a[2] - b[2]) <= n * TolAt(b, tol) + n

---------------------------------------------------------------------------
(* tables: nested sequences T[p][e][q][d], 1-based *)
NP(T) == Len(T)
NE(T) == Len(T[1])
NQ(T) == Len(T[1][1])
ND(T) == Len(T[1][1][1])
Shape(T) == <<NP(T), NE(T), NQ(T), ND(T)>>
\* TLC evaluates [x \in S |-> e] lazily and re-evaluates e at every application; f @@ <<>> makes it a stored value
Force(f) == f @@ <<>>
Tab(P, E, Q, D, f(_, _, _, _)) ==
  Force([p \in 1..P |-> Force([e \in 1..E |-> Force([q \in 1..Q |-> Force([d \in 1..D |-> f(p, e, q, d)])])])])
Idx(T) == (1..NP(T)) \X (1..NE(T)) \X (1..NQ(T)) \X (1..ND(T))
At(T, i) == T[i[1]][i[2]][i[3]][i[4]]
IsTable(T) == /\ NP(T) >= 1 /\ NE(T) >= 1 /\ NQ(T) >= 1 /\ ND(T) >= 1
              /\ \A p \in 1..NP(T) : Len(T[p]) = NE(T) /\ \A e \in 1..NE(T) : Len(T[p][e]) = NQ(T)
                    /\ \A q \in 1..NQ(T) : Len(T[p][e][q]) = ND(T)
              /\ \A i \in Idx(T) : Len(At(T, i)) = 2 /\ InRange(At(T, i))

TableTypes == {"zeros", "ones", "quadrature", "fixed", "piecewise", "uniform", "varying"}
PiecewiseTypes == {"piecewise", "fixed", "ones", "zeros"}     \* elementtables.piecewise_ttypes
UniformTypes == {"fixed", "ones", "zeros", "uniform"}         \* elementtables.uniform_ttypes

---------------------------------------------------------------------------
(* The pipeline, operator by operator, THE WAY THE CODE DOES IT.           *)
(* `bug` is "none" for the design; other values switch on one deliberate   *)
(* deviation (design-level negative controls of TableOpt.tla).             *)

\* 1. clamp_table_small_numbers(T, rtol, atol): for n in (-1, 0, 1): T[isclose(T, n)] = n
ClampV(v, tol) ==
  IF Close(v, MinusOne, tol) THEN MinusOne
  ELSE IF Close(v, Zero, tol) THEN Zero
  ELSE IF Close(v, One, tol) THEN One ELSE v
ClampT(T, tol) == Tab(NP(T), NE(T), NQ(T), ND(T), LAMBDA p, e, q, d : ClampV(T[p][e][q][d], tol))

\* 2. analyse_table_type and its helpers
IsZeros(T, tol) == \A i \in Idx(T) : Close(At(T, i), Zero, tol)             \* whole table
IsOnes(T, tol) == \A i \in Idx(T) : Close(At(T, i), One, tol)               \* whole table
IdV(q, d) == IF q = d THEN One ELSE Zero
IsQuadrature(T, tol) ==                                                      \* permutation slice 0 only
  /\ NQ(T) = ND(T)
  /\ \A e \in 1..NE(T), q \in 1..NQ(T), d \in 1..ND(T) : Close(T[1][e][q][d], IdV(q, d), tol)
\* np.allclose(T[p, :, 0, :], T[p, :, i, :]): a = point 0, b = point i
ConstPtsOn(T, p, ents, tol) ==
  \A e \in ents, q \in 2..NQ(T), d \in 1..ND(T) : Close(T[p][e][1][d], T[p][e][q][d], tol)
ConstPts(T, p, tol) == ConstPtsOn(T, p, 1..NE(T), tol)
\* np.allclose(T[p, 0, :, :], T[p, i, :, :])
ConstEnt(T, p, tol) ==
  \A e \in 2..NE(T), q \in 1..NQ(T), d \in 1..ND(T) : Close(T[p][1][q][d], T[p][e][q][d], tol)
SliceClose(T, p, tol) ==
  \A e \in 1..NE(T), q \in 1..NQ(T), d \in 1..ND(T) : Close(T[1][e][q][d], T[p][e][q][d], tol)
IsPermuted(T, tol) == \E p \in 2..NP(T) : ~SliceClose(T, p, tol)
IsPiecewiseCode(T, tol, bug) ==                                              \* permutation slice 0 only
  ConstPtsOn(T, 1, IF bug = "pw_entity0" THEN {1} ELSE 1..NE(T), tol)
IsUniformCode(T, tol) == ConstEnt(T, 1, tol)                                 \* permutation slice 0 only
Classify(T, tol, bug) ==
  IF IsZeros(T, tol) THEN "zeros"
  ELSE IF IsOnes(T, tol) THEN "ones"
  ELSE IF IsQuadrature(T, tol) THEN "quadrature"
  ELSE LET pw == IsPiecewiseCode(T, tol, bug)
           un == IsUniformCode(T, tol)
       IN IF pw /\ un THEN "fixed" ELSE IF pw THEN "piecewise" ELSE IF un THEN "uniform" ELSE "varying"

\* 3. reductions
RedPts(T) == Force([p \in 1..NP(T) |-> Force([e \in 1..NE(T) |-> <<T[p][e][1]>>])])
RedEnt(T) == Force([p \in 1..NP(T) |-> <<T[p][1]>>])
RedPerm(T) == <<T[1]>>
TypeReduce(T, t) ==
  LET a == IF t \in PiecewiseTypes THEN RedPts(T) ELSE T
  IN IF t \in UniformTypes THEN RedEnt(a) ELSE a

\* 4. dedupe: equal_tables(new, existing) = same shape and np.allclose(new, existing) (default tolerances)
AllClose(A, B, tol) == \A i \in Idx(A) : Close(At(A, i), At(B, i), tol)
EqualTables(A, B, tol) == Shape(A) = Shape(B) /\ AllClose(A, B, tol)
Bc(n, i) == IF n = 1 THEN 1 ELSE i                                           \* numpy broadcasting of an axis of extent 1
Broadcastable(A, B) == \A k \in 1..4 : Shape(A)[k] = Shape(B)[k] \/ Shape(A)[k] = 1 \/ Shape(B)[k] = 1
EqualAnyShape(A, B, tol) ==                                                  \* np.allclose without the shape test
  /\ Broadcastable(A, B)
  /\ \A p \in 1..Max2(NP(A), NP(B)), e \in 1..Max2(NE(A), NE(B)), q \in 1..Max2(NQ(A), NQ(B)), d \in 1..Max2(ND(A), ND(B)) :
        Close(A[Bc(NP(A), p)][Bc(NE(A), e)][Bc(NQ(A), q)][Bc(ND(A), d)],
              B[Bc(NP(B), p)][Bc(NE(B), e)][Bc(NQ(B), q)][Bc(ND(B), d)], tol)
\* the register is a sequence of [name, tbl] in dict (= insertion) order; the FIRST match wins
FirstHit(reg, T, tol, bug) ==
  LET H == {j \in 1..Len(reg) : IF bug = "dedupe_any_shape" THEN EqualAnyShape(T, reg[j].tbl, tol)
                                 ELSE EqualTables(T, reg[j].tbl, tol)}
  IN IF H = {} THEN 0 ELSE SetMin(H)

\* one table through the whole pipeline (ctol: configured clamp tolerances, ktol: the defaults used everywhere else)
Process(raw, name, ctol, ktol, reg, bug) ==
  LET C == ClampT(raw, IF bug = "clamp_default" THEN ktol ELSE ctol)
      t == Classify(C, ktol, bug)
      R1 == TypeReduce(C, t)
      ip == IsPermuted(IF bug = "perm_first" THEN C ELSE R1, ktol)
      R == IF ip THEN R1 ELSE RedPerm(R1)
      h == FirstHit(reg, R, ktol, bug)
  IN [clamped |-> C, ttype |-> t, isperm |-> ip, red |-> R, hit |-> h,
      name |-> IF h = 0 THEN name ELSE reg[h].name,
      final |-> IF h = 0 THEN R ELSE reg[h].tbl]
RegAfter(reg, res) == IF res.hit = 0 THEN Append(reg, [name |-> res.name, tbl |-> res.red]) ELSE reg

\* 5. the index the generators form (table_access / element_table): 1-based request (p, e, q, d)
Slot(res, p, e, q, d, bug) ==
  <<IF res.isperm THEN p ELSE 1,
    IF res.ttype \in UniformTypes /\ bug # "no_uniform_slot" THEN 1 ELSE e,
    IF res.ttype \in PiecewiseTypes THEN 1 ELSE q,
    d>>
InShape(T, s) == s[1] \in 1..NP(T) /\ s[2] \in 1..NE(T) /\ s[3] \in 1..NQ(T) /\ s[4] \in 1..ND(T)
\* integral.py drops "zeros" factors (the factor IS 0.0) and omits "ones" factors (the factor IS 1)
ReadEff(res, p, e, q, d) ==
  IF res.ttype = "zeros" THEN Zero
  ELSE IF res.ttype = "ones" THEN One
  ELSE At(res.final, Slot(res, p, e, q, d, "none"))

---------------------------------------------------------------------------
(* What the classes MEAN (declarative, every permutation slice) and the    *)
(* assumption under which looking at slice 0 only is enough.               *)
Special(T, tol) == IsZeros(T, tol) \/ IsOnes(T, tol) \/ IsQuadrature(T, tol)
Means(t, T, tol) ==
  CASE t = "zeros" -> IsZeros(T, tol)
    [] t = "ones" -> ~IsZeros(T, tol) /\ IsOnes(T, tol)
    [] t = "quadrature" -> ~IsZeros(T, tol) /\ ~IsOnes(T, tol) /\ IsQuadrature(T, tol)
    [] t = "fixed" -> ~Special(T, tol) /\ \A p \in 1..NP(T) : ConstPts(T, p, tol) /\ ConstEnt(T, p, tol)
    [] t = "piecewise" -> ~Special(T, tol) /\ ~ConstEnt(T, 1, tol) /\ \A p \in 1..NP(T) : ConstPts(T, p, tol)
    [] t = "uniform" -> ~Special(T, tol) /\ ~ConstPts(T, 1, tol) /\ \A p \in 1..NP(T) : ConstEnt(T, p, tol)
    [] t = "varying" -> ~Special(T, tol) /\ ~ConstPts(T, 1, tol) /\ ~ConstEnt(T, 1, tol)
\* Tables of real elements: slice p is the SAME functions tabulated at permuted points, so a table that is
\* constant over points / entities in slice 0 is so in every slice.  The code relies on this (slice 0 only).
Coherent(T, tol) ==
  \A p \in 2..NP(T) : /\ (ConstPts(T, 1, tol) => ConstPts(T, p, tol))
                      /\ (ConstEnt(T, 1, tol) => ConstEnt(T, p, tol))
Admissible(T, tol) == Special(T, tol) \/ Coherent(T, tol)
\* how many tolerance-sized substitutions lie between the clamped value and the value the kernel reads
Budget(res, C) ==
  (IF res.ttype \in PiecewiseTypes /\ NQ(C) > 1 THEN 1 ELSE 0) + (IF res.ttype \in UniformTypes /\ NE(C) > 1 THEN 1 ELSE 0)
  + (IF ~res.isperm /\ NP(C) > 1 THEN 1 ELSE 0) + (IF res.hit # 0 THEN 1 ELSE 0)
  + (IF res.ttype \in {"zeros", "ones"} THEN 1 ELSE 0)

\* no comparison made anywhere in the pipeline (or in Means / Coherent) sits on a knife edge
EdgeFreeClamp(raw, ctol) ==
  \A i \in Idx(raw) : ~Edge(At(raw, i), MinusOne, ctol) /\ ~Edge(At(raw, i), Zero, ctol) /\ ~Edge(At(raw, i), One, ctol)
EdgeFreeClass(C, tol) ==
  /\ \A i \in Idx(C) : ~Edge(At(C, i), Zero, tol) /\ ~Edge(At(C, i), One, tol)
  /\ \A p \in 1..NP(C), e \in 1..NE(C), q \in 1..NQ(C), d \in 1..ND(C) :
       /\ ~Edge(C[p][e][1][d], C[p][e][q][d], tol)
       /\ ~Edge(C[p][1][q][d], C[p][e][q][d], tol)
       /\ ~Edge(C[1][e][q][d], C[p][e][q][d], tol)
EdgeFreeDedupe(R, reg, tol) ==
  \A j \in 1..Len(reg) : Shape(R) = Shape(reg[j].tbl) => \A i \in Idx(R) : ~Edge(At(R, i), At(reg[j].tbl, i), tol)

---------------------------------------------------------------------------
(* TABLE DESCRIPTIONS: structured generators of raw tables.                *)
(* A primary table = base pattern + one perturbation; a second table (the  *)
(* coefficient factor of f*v forms) is derived from the primary one.       *)
(* Indices below are 0-based (as in the code).                             *)
Axes == {"perm", "ent", "pt", "dof"}
BaseKinds == {"zeros", "ones", "nearzeros", "nearones", "identity", "pattern"}
PertClasses == {"none", "in", "out", "mid", "far", "ramp"}
PertExts == {"entry", "pts", "entpts"}
Seconds == {"none", "equal", "within", "different", "straddle", "zeros", "const"}

\* sizes of a perturbation relative to the tolerance at the (quarter) value m it is added to
\*   default tolerance at m: 10 + 2500|m|;  large clamp tolerance at 0, +-1: 10000 + 2500|m|
PertK(cls, m) ==
  CASE cls = "in" -> 3 + 1000 * Abs(m)            \* 0.3-0.4 tolerance: inside, and two of them are still inside
    [] cls = "out" -> 25 + 6000 * Abs(m)           \* 2.4 tolerances: outside the default (inside "large" at 0)
    [] cls = "mid" -> 300 + 3675 * Abs(m)          \* outside the default, inside the "large" clamp tolerance at 0, +-1
    [] cls = "far" -> 30000 + 6000 * Abs(m)        \* outside everything
    [] cls = "ramp" -> 8 + 2000 * Abs(m)           \* 0.8 tolerance per step (tolerance chaining)
    [] OTHER -> 0
StraddleK(m) == 6 + 1500 * Abs(m)                 \* +-0.6 tolerance: each within, 1.2 apart

Ix(S, a, v) == IF a \in S THEN v ELSE 0
BaseVal(b, Q, p, e, q, d) ==
  CASE b.kind = "zeros" -> Zero
    [] b.kind = "ones" -> One
    [] b.kind = "nearzeros" -> <<0, ((p + 2 * e + q + d) % 3) - 1>>
    [] b.kind = "nearones" -> <<4, 1000 * (((p + 2 * e + q + d) % 3) - 1)>>
    [] b.kind = "identity" ->
         IF (q + Ix(b.S, "perm", p) + Ix(b.S, "ent", e)) % Q = d THEN One ELSE Zero
    [] b.kind = "pattern" ->
         <<b.m0 + ((Ix(b.S, "perm", p) + Ix(b.S, "ent", 2 * e) + Ix(b.S, "pt", 3 * q) + Ix(b.S, "dof", d)) % 5), 0>>

\* pert = [cls, pp, pe, pq, pd (0-based position), ext]
PertApplies(pt, p, e, q, d) ==
  /\ pt.cls # "none" /\ p = pt.pp /\ d = pt.pd
  /\ (pt.ext = "entpts" \/ (e = pt.pe /\ (pt.ext = "pts" \/ q = pt.pq)))
PertAmount(pt, m, e, q) ==
  IF pt.cls = "ramp"
  THEN PertK("ramp", m) * (1 + (IF pt.ext = "entpts" THEN (IF e >= 1 THEN 1 ELSE 0) ELSE (IF q >= 1 THEN 1 ELSE 0)))
  ELSE PertK(pt.cls, m)
PrimaryVal(b, pt, Q, p, e, q, d) ==
  LET v == BaseVal(b, Q, p, e, q, d)
  IN IF PertApplies(pt, p, e, q, d) THEN <<v[1], v[2] + PertAmount(pt, v[1], e, q)>> ELSE v
PrimaryTab(sh, b, pt) ==
  Tab(sh[1], sh[2], sh[3], sh[4], LAMBDA p, e, q, d : PrimaryVal(b, pt, sh[3], p - 1, e - 1, q - 1, d - 1))
\* the second table: relation to the primary one (T1); "within"/"different" move the entry (perm 0, last entity,
\* last point, dof 0)
SecondTab(sh, T1, second) ==
  CASE second = "equal" -> T1
    [] second \in {"within", "different"} ->
         Tab(sh[1], sh[2], sh[3], sh[4], LAMBDA p, e, q, d :
               IF p = 1 /\ e = sh[2] /\ q = sh[3] /\ d = 1
               THEN <<T1[p][e][q][d][1], T1[p][e][q][d][2] + PertK(IF second = "within" THEN "in" ELSE "out", T1[p][e][q][d][1])>>
               ELSE T1[p][e][q][d])
    [] second = "straddle" ->
         Tab(sh[1], sh[2], sh[3], sh[4], LAMBDA p, e, q, d :
               <<T1[p][e][q][d][1], T1[p][e][q][d][2] + (IF q % 2 = 1 THEN 1 ELSE -1) * StraddleK(T1[p][e][q][d][1])>>)
    [] second = "zeros" -> Tab(sh[1], sh[2], sh[3], sh[4], LAMBDA p, e, q, d : Zero)
    [] second = "const" -> Tab(sh[1], sh[2], sh[3], sh[4], LAMBDA p, e, q, d : <<2, 0>>)

BaseOK(b, sh) ==
  /\ b.kind \in BaseKinds /\ b.S \subseteq Axes /\ b.m0 \in {-4, 0, 3}
  /\ (b.kind \in {"zeros", "ones", "nearzeros", "nearones"} => b.S = {} /\ b.m0 = 0)
  /\ (b.kind = "identity" => b.S \subseteq {"perm", "ent"} /\ b.m0 = 0 /\ sh[3] = sh[4])
PertOK(pt, sh) ==
  /\ pt.cls \in PertClasses /\ pt.ext \in PertExts
  /\ pt.pp \in {0, sh[1] - 1} /\ pt.pe \in {0, sh[2] - 1} /\ pt.pq \in {0, sh[3] - 1} /\ pt.pd \in {0, sh[4] - 1}
  /\ (pt.cls = "none" => pt.pp = 0 /\ pt.pe = 0 /\ pt.pq = 0 /\ pt.pd = 0 /\ pt.ext = "entry")
  /\ (pt.cls = "ramp" => pt.ext # "entry")
  /\ (pt.ext = "entpts" => pt.pe = 0 /\ pt.pq = 0)                    \* canonical form: unused coordinates are 0
  /\ (pt.ext = "pts" => pt.pq = 0)

---------------------------------------------------------------------------
(* Conformance descriptions: where the table is used.                      *)
Kinds == {"cell", "exterior_facet", "vertex", "interior_facet", "expr_cell", "expr_facet"}
CellNames == {"triangle", "tetrahedron"}
Forms == {"v", "fv", "uv", "f"}          \* v*dM, f*v*dM, u*v*dM, f*dM  (expressions: v, f*v, f)
ScopeKinds(scope) ==
  CASE scope = "cell" -> {"cell", "expr_cell"}
    [] scope = "facet" -> {"exterior_facet", "vertex"}
    [] scope = "perm" -> {"interior_facet", "expr_facet"}
NPermOf(kind, cell) == IF kind \in {"interior_facet", "expr_facet"} THEN (IF cell = "triangle" THEN 2 ELSE 6) ELSE 1
NEntOf(kind, cell) == IF kind \in {"cell", "expr_cell"} THEN 1 ELSE (IF cell = "triangle" THEN 3 ELSE 4)
NDofOf(cell) == IF cell = "triangle" THEN 3 ELSE 4        \* degree-1 Lagrange variants (not the coordinate element)
NSides(kind) == IF kind = "interior_facet" THEN 2 ELSE 1
ShapeOf(c) == <<NPermOf(c.kind, c.cell), NEntOf(c.kind, c.cell), c.nq, NDofOf(c.cell)>>

\* physical cells with integer facet scales: triangle (0,0),(3,0),(0,4); tetrahedron 0, e1, e2, 2 e3
Verts(cell) == IF cell = "triangle" THEN <<<<0, 0, 0>>, <<3, 0, 0>>, <<0, 4, 0>>>>
               ELSE <<<<0, 0, 0>>, <<1, 0, 0>>, <<0, 1, 0>>, <<0, 0, 2>>>>
FacetScale(cell) == IF cell = "triangle" THEN <<5, 4, 3>> ELSE <<3, 2, 2, 1>>     \* |facet| / |reference facet|
CellScale(cell) == IF cell = "triangle" THEN 12 ELSE 2                           \* |det J|
Sub(a, b) == <<a[1] - b[1], a[2] - b[2], a[3] - b[3]>>
Dot(a, b) == a[1] * b[1] + a[2] * b[2] + a[3] * b[3]
Cross(a, b) == <<a[2] * b[3] - a[3] * b[2], a[3] * b[1] - a[1] * b[3], a[1] * b[2] - a[2] * b[1]>>
FacetVerts(cell, f) == SelectSeq([i \in 1..Len(Verts(cell)) |-> i], LAMBDA i : i # f)   \* facet f is opposite vertex f
ASSUME \A f \in 1..3 : LET fv == FacetVerts("triangle", f)
                           a == Sub(Verts("triangle")[fv[2]], Verts("triangle")[fv[1]])
                       IN Dot(a, a) = FacetScale("triangle")[f] * FacetScale("triangle")[f]
ASSUME \A f \in 1..4 : LET fv == FacetVerts("tetrahedron", f)
                           V == Verts("tetrahedron")
                           c == Cross(Sub(V[fv[2]], V[fv[1]]), Sub(V[fv[3]], V[fv[1]]))
                       IN Dot(c, c) = FacetScale("tetrahedron")[f] * FacetScale("tetrahedron")[f]
ASSUME LET V == Verts("tetrahedron") IN Abs(Dot(Sub(V[2], V[1]), Cross(Sub(V[3], V[1]), Sub(V[4], V[1])))) = CellScale("tetrahedron")
ASSUME LET V == Verts("triangle") IN Abs(Cross(Sub(V[2], V[1]), Sub(V[3], V[1]))[3]) = CellScale("triangle")
\* scale of the '+' side's entity e0 (0-based); expressions and vertex integrals are not scaled
ScaleOf(kind, cell, e0) ==
  CASE kind = "cell" -> CellScale(cell)
    [] kind \in {"exterior_facet", "interior_facet"} -> FacetScale(cell)[e0 + 1]
    [] OTHER -> 1

\* c = [id, kind, cell, form, sa, sb, nq, base, pert, second, atol]
\*   sa: side of the test function v, sb: side of f (fv, f) or of the trial function u (uv)
DescOK(c) ==
  /\ c.kind \in Kinds /\ c.cell \in CellNames /\ c.form \in Forms /\ c.second \in Seconds
  /\ c.atol \in {"default", "large", "zero"} /\ c.sa \in {0, 1} /\ c.sb \in {0, 1}
  /\ (c.kind # "interior_facet" => c.sa = 0 /\ c.sb = 0)
  /\ (c.form = "v" => c.sb = 0) /\ (c.form = "f" => c.sa = 0)
  /\ (c.kind \in {"expr_cell", "expr_facet"} => c.form # "uv")        \* expressions take one argument
  /\ c.nq \in {1, 2, NDofOf(c.cell)} /\ (c.kind = "vertex" => c.nq = 1)
  /\ (c.second # "none" <=> c.form = "fv")
  /\ BaseOK(c.base, ShapeOf(c)) /\ PertOK(c.pert, ShapeOf(c))

\* which raw table each ROLE gets: "A" = the argument element, "B" = the coefficient element
HasRole(c, role) == IF role = "A" THEN c.form \in {"v", "fv", "uv"} ELSE c.form \in {"fv", "f"}
Primary(c) == PrimaryTab(ShapeOf(c), c.base, c.pert)
RawOf(c, role) ==
  IF role = "A" \/ c.form = "f" THEN Primary(c) ELSE SecondTab(ShapeOf(c), Primary(c), c.second)

\* the pipeline over the modified terminals in the order the code met them (roles: sequence of "A" / "B")
RECURSIVE RunSeq(_, _, _, _)
RunSeq(c, roles, i, acc) ==          \* acc = [reg, out, edgefree]
  IF i > Len(roles) THEN acc
  ELSE LET res == Process(RawOf(c, roles[i]), roles[i], TolNamed(c.atol), DefaultTol, acc.reg, "none")
       IN RunSeq(c, roles, i + 1, [reg |-> RegAfter(acc.reg, res), out |-> Append(acc.out, res),
                                   edgefree |-> acc.edgefree /\ EdgeFreeDedupe(res.red, acc.reg, DefaultTol)])
Run(c, roles) == RunSeq(c, roles, 1, [reg |-> <<>>, out |-> <<>>, edgefree |-> TRUE])

\* semantic validity of a description for a given processing order: inside the model's exact range
RolesOf(c) == CASE c.form = "fv" -> <<"A", "B">> [] c.form = "f" -> <<"B">> [] OTHER -> <<"A">>
SemOKr(c, roles, r) ==          \* r = Run(c, roles)
  LET ctol == TolNamed(c.atol)
  IN /\ \A role \in {"A", "B"} : HasRole(c, role) =>
            LET raw == RawOf(c, role)
                C == ClampT(raw, ctol)
            IN /\ \A i \in Idx(raw) : InRange(At(raw, i))
               /\ EdgeFreeClamp(raw, ctol) /\ EdgeFreeClass(C, DefaultTol)
               /\ Admissible(C, DefaultTol)
     /\ r.edgefree
     \* a coefficient whose table is all ones and has several dofs makes the generators fail (KeyError: the
     \* table is referenced but, being "ones", never declared); no real element has such a table
     /\ \A i \in 1..Len(roles) : ~(roles[i] = "B" /\ r.out[i].ttype = "ones")
SemOK(c, roles) == SemOKr(c, roles, Run(c, roles))
SemValid(c) == SemOK(c, RolesOf(c)) /\ (c.form = "fv" => SemOK(c, <<"B", "A">>))
=============================================================================
