----------------------------- MODULE JitCache -----------------------------
(***************************************************************************)
(* S1: the FFCx JIT cache protocol (ffcx/codegeneration/jit.py + cffi).    *)
(*                                                                         *)
(* N operating-system processes share one cache directory.  Each request   *)
(* (compile_forms / compile_expressions with cache_dir set) is for one     *)
(* module key (= module name = hash of forms + options + compile flags).   *)
(* One action per file-system operation, in the order the code performs    *)
(* them; see DESIGN.md appendix A for the action <-> source-line table.    *)
(*                                                                         *)
(* Files per key k in the cache directory:                                 *)
(*   <k>.c         exclusive-create lock, later the C source               *)
(*   <k>.c.cached  ready marker, written after the build                   *)
(*   <k>.c.failed  the lock, renamed after a failed build                  *)
(*   <k>.o, <k>.so compiler / linker output                                *)
(*                                                                         *)
(* The module has two layers.  The *file-system layer* (FsXxx operators)   *)
(* says what each operation does to the directory and to the observer      *)
(* variables; the *protocol layer* (the actions proper) adds the control   *)
(* points of jit.py.  JitObserver.tla re-uses the first layer alone to     *)
(* judge traces recorded from the implementation, whatever protocol it     *)
(* follows; JitCacheTrace.tla re-uses the actions to check that the        *)
(* implementation follows this protocol.                                   *)
(***************************************************************************)
EXTENDS Integers, FiniteSets, Sequences, TLC

CONSTANTS
  Proc,           \* process slots
  Key,            \* module keys
  MaxPolls,       \* the `timeout` option: number of polls a waiter performs
  MaxReq,         \* bound on the number of requests issued (model only)
  MaxKills,       \* bound on SIGKILLs (model only)
  MaxFails,       \* bound on injected build failures (model only)
  FixedHandlers,  \* TRUE: root-logger handlers restored on the failure path too
  FixedMarker,    \* TRUE: the ready marker is written under a temporary name and renamed into place
                  \*       (CheckMarker, then WriteMarker = os.replace); FALSE: open(ready, "x") + write
  Timely          \* TRUE: a waiter's clock only advances while the builder makes progress
                  \*       ("within the timeout"): used for the no-timeout property

VARIABLES
  fs,        \* [Key -> [c, cached, failed, obj, so, gen, markgen]]  the directory
  pc,        \* [Proc -> control point]
  key,       \* [Proc -> Key]         key of the current / last request
  polls,     \* [Proc -> 0..MaxPolls] polls performed by a waiter
  loaded,    \* [Proc -> Nat]         build generation loaded (0 = none)
  hand,      \* [Proc -> "orig"|"tmp"] logging.getLogger().handlers
  out,       \* [Proc -> "orig"|"tmp"] sys.stdout
  cwd,       \* [Proc -> "orig"|"tmp"] os.getcwd()
  fault,     \* [Proc -> "none"|"codegen"|"cc"|"link"|"marker"] failure this request will meet
             \* ("marker": writing the content of the ready marker raises, e.g. ENOSPC;
             \*  "echo": cffi_verbose is set and printing the build log raises, e.g. BrokenPipeError)
  sawCached, \* [Proc -> BOOLEAN]     the marker was present when the request started
  built,     \* [Proc -> BOOLEAN]     this request ran the C compiler
  prog,      \* [Proc -> BOOLEAN]     (Timely) builder progress seen since the last sleep
  compilers, \* [Key -> SUBSET Proc]  who ever ran the C compiler for the key
  reqs, kills, fails,   \* bounded counters (model only)
  last       \* <<action, process, its control point before>> of the step that produced this state
             \* (history variable; hidden by VIEW in exhaustive runs)

vars == <<fs, pc, key, polls, loaded, hand, out, cwd, fault, sawCached, built, prog,
          compilers, reqs, kills, fails, last>>
view == <<fs, pc, key, polls, loaded, hand, out, cwd, fault, sawCached, built, prog,
          compilers, reqs, kills, fails>>

BuilderPc == {"gen", "ccsrc", "ccobj", "link", "linking", "mark", "publish", "bload", "frename"}
WaiterPc  == {"poll", "sleep", "wload"}
EndPc     == {"ret", "raise_fail", "raise_timeout"}      \* about to leave compile_forms
DonePc    == {"idle", "returned", "raised_fail", "raised_timeout", "dead"}
AllPc     == BuilderPc \cup WaiterPc \cup EndPc \cup DonePc \cup {"trylock"}
FaultKind == {"none", "codegen", "cc", "link", "marker", "echo"}

\* owner: the process whose exclusive create made the present <k>.c ("none" if there is no <k>.c)
File0 == [c |-> "absent", owner |-> "none", cached |-> FALSE, failed |-> FALSE, obj |-> FALSE,
          so |-> "absent", gen |-> 0, markgen |-> 0]

---------------------------------------------------------------------------
(* File-system layer: effect of one operation on key k's files.            *)

FsOpenX(k) ==        \* open(<k>.c, "x"): TRUE iff it succeeded
  fs[k].c = "absent"
FsAfterOpenX(k, p) == [fs EXCEPT ![k].c = IF @ = "absent" THEN "lock" ELSE @,
                                   ![k].owner = IF fs[k].c = "absent" THEN p ELSE @]
FsAfterCcSource(k) == [fs EXCEPT ![k].c = "src"]                 \* cffi: rename <k>.c.~pid over <k>.c
FsAfterCcObject(k) == [fs EXCEPT ![k].obj = TRUE]
FsAfterLinkBegin(k) == [fs EXCEPT ![k].so = "partial", ![k].gen = @ + 1]
FsAfterLinkEnd(k) == [fs EXCEPT ![k].so = "complete"]
FsAfterMarker(k) == [fs EXCEPT ![k].cached = TRUE, ![k].markgen = fs[k].gen]
FsAfterFailRename(k) == [fs EXCEPT ![k].c = "absent", ![k].owner = "none", ![k].failed = TRUE]

---------------------------------------------------------------------------
Init ==
  /\ fs = [k \in Key |-> File0]
  /\ pc = [p \in Proc |-> "idle"] /\ key \in [Proc -> Key]
  /\ polls = [p \in Proc |-> 0] /\ loaded = [p \in Proc |-> 0]
  /\ hand = [p \in Proc |-> "orig"] /\ out = [p \in Proc |-> "orig"] /\ cwd = [p \in Proc |-> "orig"]
  /\ fault = [p \in Proc |-> "none"]
  /\ sawCached = [p \in Proc |-> FALSE] /\ built = [p \in Proc |-> FALSE]
  /\ prog = [p \in Proc |-> FALSE]
  /\ compilers = [k \in Key |-> {}]
  /\ reqs = 0 /\ kills = 0 /\ fails = 0
  /\ last = <<"Init", "none", "none">>

Step(name, p) == last' = <<name, p, pc[p]>>

\* every builder step counts as progress for the waiters of the same key (Timely only)
Progress(p) == prog' = [q \in Proc |-> IF q # p /\ key[q] = key[p] THEN TRUE ELSE prog[q]]

(* compile_forms(..., cache_dir=shared) is called: a new or a later request *)
Request(p, k, f) ==
  /\ pc[p] \in DonePc \ {"dead"} /\ reqs < MaxReq
  /\ f \in FaultKind /\ (f # "none" => fails < MaxFails)
  /\ reqs' = reqs + 1 /\ fails' = IF f = "none" THEN fails ELSE fails + 1
  /\ pc' = [pc EXCEPT ![p] = "trylock"] /\ key' = [key EXCEPT ![p] = k]
  /\ polls' = [polls EXCEPT ![p] = 0] /\ loaded' = [loaded EXCEPT ![p] = 0]
  /\ fault' = [fault EXCEPT ![p] = f]
  /\ sawCached' = [sawCached EXCEPT ![p] = fs[k].cached]
  /\ built' = [built EXCEPT ![p] = FALSE] /\ prog' = [prog EXCEPT ![p] = FALSE]
  \* "left as it was found": the baseline is whatever the call finds
  /\ hand' = [hand EXCEPT ![p] = "orig"] /\ out' = [out EXCEPT ![p] = "orig"] /\ cwd' = [cwd EXCEPT ![p] = "orig"]
  /\ Step("Request", p)
  /\ UNCHANGED <<fs, compilers, kills>>

(* jit.py get_cached_module: open(c_filename, "x") *)
TryLock(p) ==
  /\ pc[p] = "trylock"
  /\ fs' = FsAfterOpenX(key[p], p)
  /\ pc' = [pc EXCEPT ![p] = IF FsOpenX(key[p]) THEN "gen" ELSE "poll"]
  /\ Step("TryLock", p)
  /\ UNCHANGED <<key, polls, loaded, hand, out, cwd, fault, sawCached, built, prog, compilers, reqs, kills, fails>>

(* ffcx.compiler.compile_ufl_objects; may raise.  Grain of atomicity = what is observable  *)
(* at the next intercepted call: on success the code goes on to swap the root logger's    *)
(* handlers and to redirect stdout before it reaches cffi, so those belong to this step.  *)
Codegen(p) ==
  /\ pc[p] = "gen"
  /\ IF fault[p] = "codegen"
       THEN pc' = [pc EXCEPT ![p] = "frename"] /\ UNCHANGED <<hand, out>>
       ELSE /\ pc' = [pc EXCEPT ![p] = "ccsrc"]
            /\ hand' = [hand EXCEPT ![p] = "tmp"] /\ out' = [out EXCEPT ![p] = "tmp"]
  /\ Progress(p) /\ Step("Codegen", p)
  /\ UNCHANGED <<fs, key, polls, loaded, cwd, fault, sawCached, built, compilers, reqs, kills, fails>>

(* ffibuilder.compile: cffi writes the source over the lock (rename), then chdir(cache_dir) *)
CcSource(p) ==
  /\ pc[p] = "ccsrc"
  /\ fs' = FsAfterCcSource(key[p])
  /\ cwd' = [cwd EXCEPT ![p] = "tmp"]
  /\ pc' = [pc EXCEPT ![p] = "ccobj"]
  /\ Progress(p) /\ Step("CcSource", p)
  /\ UNCHANGED <<key, polls, loaded, hand, out, fault, sawCached, built, compilers, reqs, kills, fails>>

\* leaving ffibuilder.compile by an exception: the context managers restore stdout and cwd;
\* the handlers only if the restore is in a `finally` (FixedHandlers)
LeaveCompileByException(p) ==
  /\ out' = [out EXCEPT ![p] = "orig"] /\ cwd' = [cwd EXCEPT ![p] = "orig"]
  /\ hand' = IF FixedHandlers THEN [hand EXCEPT ![p] = "orig"] ELSE hand

(* cc -c : may fail *)
CcObject(p) ==
  /\ pc[p] = "ccobj"
  /\ built' = [built EXCEPT ![p] = TRUE]
  /\ compilers' = [compilers EXCEPT ![key[p]] = @ \cup {p}]
  /\ IF fault[p] = "cc"
       THEN /\ fs' = fs /\ pc' = [pc EXCEPT ![p] = "frename"] /\ LeaveCompileByException(p)
       ELSE /\ fs' = FsAfterCcObject(key[p]) /\ pc' = [pc EXCEPT ![p] = "link"]
            /\ UNCHANGED <<hand, out, cwd>>
  /\ Progress(p) /\ Step("CcObject", p)
  /\ UNCHANGED <<key, polls, loaded, fault, sawCached, reqs, kills, fails>>

(* cc -shared starts writing the shared object *)
LinkBegin(p) ==
  /\ pc[p] = "link"
  /\ fs' = FsAfterLinkBegin(key[p])
  /\ pc' = [pc EXCEPT ![p] = "linking"]
  /\ Progress(p) /\ Step("LinkBegin", p)
  /\ UNCHANGED <<key, polls, loaded, hand, out, cwd, fault, sawCached, built, compilers, reqs, kills, fails>>

(* cc -shared finishes (or fails, leaving whatever it wrote); ffibuilder.compile returns *)
LinkEnd(p) ==
  /\ pc[p] = "linking"
  /\ IF fault[p] = "link"
       THEN /\ fs' = fs /\ pc' = [pc EXCEPT ![p] = "frename"] /\ LeaveCompileByException(p)
       ELSE IF fault[p] = "echo"
         THEN \* the build is complete; `print(s)` (cffi_verbose) raises before the marker is looked at: the `finally`
              \* restores the handlers, stdout and cwd are back already, the caller renames the lock
              /\ fs' = FsAfterLinkEnd(key[p]) /\ pc' = [pc EXCEPT ![p] = "frename"]
              /\ out' = [out EXCEPT ![p] = "orig"] /\ cwd' = [cwd EXCEPT ![p] = "orig"]
              /\ hand' = IF FixedHandlers THEN [hand EXCEPT ![p] = "orig"] ELSE hand
         ELSE /\ fs' = FsAfterLinkEnd(key[p]) /\ pc' = [pc EXCEPT ![p] = "mark"]
              /\ out' = [out EXCEPT ![p] = "orig"] /\ cwd' = [cwd EXCEPT ![p] = "orig"]
              /\ hand' = hand
  /\ Progress(p) /\ Step("LinkEnd", p)
  /\ UNCHANGED <<key, polls, loaded, fault, sawCached, built, compilers, reqs, kills, fails>>

(* Publishing the ready marker.                                                            *)
(* FixedMarker = FALSE (the code as it was): open(ready_name, "x") - an error if the marker *)
(*   exists already - then fd.write(s).  If the write raises, the marker stays behind although *)
(*   the build is reported as failed.                                                       *)
(* FixedMarker = TRUE: ready_name.exists() is checked (CheckMarker), the content is written  *)
(*   under a temporary name (not observable: no protocol file is touched; this is where the  *)
(*   "marker" fault strikes) and os.replace(tmp, ready_name) publishes it (WriteMarker).     *)
(* On success the code goes on to restore the root logger's handlers before the next        *)
(* intercepted call (the import).                                                           *)
CheckMarker(p) ==
  /\ FixedMarker /\ pc[p] = "mark"
  /\ IF fs[key[p]].cached \/ fault[p] = "marker"
       THEN /\ pc' = [pc EXCEPT ![p] = "frename"]
            /\ hand' = IF FixedHandlers THEN [hand EXCEPT ![p] = "orig"] ELSE hand
       ELSE pc' = [pc EXCEPT ![p] = "publish"] /\ hand' = hand
  /\ Progress(p) /\ Step("CheckMarker", p)
  /\ UNCHANGED <<fs, key, polls, loaded, out, cwd, fault, sawCached, built, compilers, reqs, kills, fails>>

WriteMarker(p) ==
  /\ pc[p] = IF FixedMarker THEN "publish" ELSE "mark"
  /\ IF ~FixedMarker /\ fs[key[p]].cached
       THEN /\ fs' = fs /\ pc' = [pc EXCEPT ![p] = "frename"]
            /\ hand' = IF FixedHandlers THEN [hand EXCEPT ![p] = "orig"] ELSE hand
       ELSE IF ~FixedMarker /\ fault[p] = "marker"
         THEN \* the marker exists now, fd.write raises: a marker is left for a build reported as failed
              /\ fs' = FsAfterMarker(key[p]) /\ pc' = [pc EXCEPT ![p] = "frename"]
              /\ hand' = IF FixedHandlers THEN [hand EXCEPT ![p] = "orig"] ELSE hand
         ELSE /\ fs' = FsAfterMarker(key[p]) /\ pc' = [pc EXCEPT ![p] = "bload"]
              /\ hand' = [hand EXCEPT ![p] = "orig"]
  /\ Progress(p) /\ Step("WriteMarker", p)
  /\ UNCHANGED <<key, polls, loaded, out, cwd, fault, sawCached, built, compilers, reqs, kills, fails>>

(* _load_objects: import the extension module that is in the directory now *)
LoadBuilder(p) ==
  /\ pc[p] = "bload"
  /\ loaded' = [loaded EXCEPT ![p] = fs[key[p]].gen] /\ pc' = [pc EXCEPT ![p] = "ret"]
  /\ Progress(p) /\ Step("LoadBuilder", p)
  /\ UNCHANGED <<fs, key, polls, hand, out, cwd, fault, sawCached, built, compilers, reqs, kills, fails>>

(* except: os.replace(<k>.c, <k>.c.failed); raise *)
FailRename(p) ==
  /\ pc[p] = "frename"
  /\ fs' = FsAfterFailRename(key[p]) /\ pc' = [pc EXCEPT ![p] = "raise_fail"]
  /\ Progress(p) /\ Step("FailRename", p)
  /\ UNCHANGED <<key, polls, loaded, hand, out, cwd, fault, sawCached, built, compilers, reqs, kills, fails>>

(* waiter: os.path.exists(ready_name) *)
Poll(p) ==
  /\ pc[p] = "poll"
  /\ pc' = [pc EXCEPT ![p] = IF fs[key[p]].cached THEN "wload" ELSE "sleep"]
  /\ Step("Poll", p)
  /\ UNCHANGED <<fs, key, polls, loaded, hand, out, cwd, fault, sawCached, built, prog, compilers, reqs, kills, fails>>

BuilderAlive(k) == \E q \in Proc : key[q] = k /\ pc[q] \in BuilderPc

(* waiter: time.sleep(1); the loop ends after MaxPolls iterations with TimeoutError *)
Sleep(p) ==
  /\ pc[p] = "sleep"
  /\ Timely => (prog[p] \/ ~BuilderAlive(key[p]))
  /\ polls' = [polls EXCEPT ![p] = @ + 1]
  /\ pc' = [pc EXCEPT ![p] = IF polls[p] + 1 >= MaxPolls THEN "raise_timeout" ELSE "poll"]
  /\ prog' = [prog EXCEPT ![p] = FALSE]
  /\ Step("Sleep", p)
  /\ UNCHANGED <<fs, key, loaded, hand, out, cwd, fault, sawCached, built, compilers, reqs, kills, fails>>

(* waiter: import the extension module *)
LoadWaiter(p) ==
  /\ pc[p] = "wload"
  /\ loaded' = [loaded EXCEPT ![p] = fs[key[p]].gen] /\ pc' = [pc EXCEPT ![p] = "ret"]
  /\ Step("LoadWaiter", p)
  /\ UNCHANGED <<fs, key, polls, hand, out, cwd, fault, sawCached, built, prog, compilers, reqs, kills, fails>>

(* compile_forms returns / raises to its caller *)
Return(p) ==
  /\ pc[p] \in EndPc
  /\ pc' = [pc EXCEPT ![p] = CASE pc[p] = "ret" -> "returned"
                                [] pc[p] = "raise_fail" -> "raised_fail"
                                [] pc[p] = "raise_timeout" -> "raised_timeout"]
  /\ Step("Return", p)
  /\ UNCHANGED <<fs, key, polls, loaded, hand, out, cwd, fault, sawCached, built, prog, compilers, reqs, kills, fails>>

(* SIGKILL at any point inside a request *)
Kill(p) ==
  /\ pc[p] \in BuilderPc \cup WaiterPc \cup EndPc \cup {"trylock"} /\ kills < MaxKills
  /\ kills' = kills + 1 /\ pc' = [pc EXCEPT ![p] = "dead"]
  /\ Step("Kill", p)
  /\ UNCHANGED <<fs, key, polls, loaded, hand, out, cwd, fault, sawCached, built, prog, compilers, reqs, fails>>

ProcStep(p) ==
  \/ TryLock(p) \/ Codegen(p) \/ CcSource(p) \/ CcObject(p) \/ LinkBegin(p) \/ LinkEnd(p)
  \/ CheckMarker(p) \/ WriteMarker(p) \/ LoadBuilder(p) \/ FailRename(p)
  \/ Poll(p) \/ Sleep(p) \/ LoadWaiter(p) \/ Return(p)

Next == \E p \in Proc :
          \/ \E k \in Key, f \in FaultKind : Request(p, k, f)
          \/ ProcStep(p)
          \/ Kill(p)

Spec == Init /\ [][Next]_vars
FairSpec == Spec /\ \A p \in Proc : WF_vars(ProcStep(p))

---------------------------------------------------------------------------
(* Properties.  C14 = MutualExclusion .. NoTimeoutWhenTimely; C15 = the rest. *)

TypeOK ==
  /\ \A k \in Key : /\ fs[k].c \in {"absent", "lock", "src"} /\ fs[k].so \in {"absent", "partial", "complete"}
                    /\ fs[k].cached \in BOOLEAN /\ fs[k].failed \in BOOLEAN /\ fs[k].obj \in BOOLEAN
                    /\ fs[k].gen \in Nat /\ fs[k].markgen \in Nat
  /\ \A p \in Proc : pc[p] \in AllPc /\ polls[p] \in 0..MaxPolls /\ fault[p] \in FaultKind

Building(p) == pc[p] \in BuilderPc \ {"frename"}

\* "exactly one of them compiles": at most one process is inside the build of a key at a time ...
MutualExclusion == \A k \in Key : Cardinality({p \in Proc : key[p] = k /\ pc[p] \in BuilderPc}) <= 1
\* ... it holds the lock while it does ...
HolderHasLock == \A p \in Proc : Building(p) => (fs[key[p]].c # "absent" /\ fs[key[p]].owner = p)
\* ... and, absent failures and kills, nobody else ever ran the compiler for the key
OneBuild == (fails = 0 /\ kills = 0) => \A k \in Key : Cardinality(compilers[k]) <= 1

\* "none ever loads a module that is not completely built"
MarkerImpliesComplete == \A k \in Key : fs[k].cached => fs[k].so = "complete" /\ fs[k].markgen = fs[k].gen
LoadPointComplete == \A p \in Proc : pc[p] \in {"wload", "bload"} => fs[key[p]].so = "complete"
NoPartialLoad == [][\A p \in Proc : (loaded'[p] # loaded[p] /\ loaded'[p] # 0) =>
                       (fs[key[p]].so = "complete" /\ loaded'[p] = fs[key[p]].gen)]_vars
\* every process that returned holds the one finished build of its key
SameObjects == \A p, q \in Proc : (loaded[p] # 0 /\ loaded[q] # 0 /\ key[p] = key[q]) => loaded[p] = loaded[q]
ReturnedLoaded == \A p \in Proc : pc[p] \in {"ret", "returned"} => (loaded[p] # 0 /\ loaded[p] = fs[key[p]].markgen)

\* "a later request finds and reuses the cached module without recompiling"
Reuse == \A p \in Proc : sawCached[p] => (~built[p] /\ pc[p] \notin BuilderPc /\ pc[p] \notin {"raise_fail", "raised_fail", "raise_timeout", "raised_timeout"})

\* "within the timeout": polls are bounded, and (Timely) nobody times out absent failures
NoHang == \A p \in Proc : pc[p] \in WaiterPc => polls[p] < MaxPolls
NoTimeoutWhenTimely == (Timely /\ fails = 0 /\ kills = 0) => \A p \in Proc : pc[p] \notin {"raise_timeout", "raised_timeout"}

\* C15: a failed build releases the lock ...
FailureReleasesLock == \A p \in Proc : pc[p] \in {"raise_fail", "raised_fail"} => (fs[key[p]].owner # p /\ fs[key[p]].failed)
\* ... so the next request builds afresh instead of waiting
NextBuildsAfresh == [][\A p \in Proc : (pc[p] = "trylock" /\ fs[key[p]].c = "absent") => pc'[p] \in {"trylock", "gen", "dead"}]_vars
\* ... and a request that met no fault itself never ends in a build failure ("never poisons later requests")
UnfaultedNeverFails == \A p \in Proc : pc[p] \in {"raise_fail", "raised_fail"} => fault[p] # "none"
\* ... and process-global state is as it was found when the call ends (by return or by raise)
GlobalStateRestored == \A p \in Proc : pc[p] \in EndPc \cup (DonePc \ {"dead"}) =>
                          (hand[p] = "orig" /\ out[p] = "orig" /\ cwd[p] = "orig")

\* reachability targets used to *generate* fault schedules (TLC is asked to refute them)
NeverKilledAt(x) == ~(last[1] = "Kill" /\ last[3] = x)
NeverFails(f) == ~(last[1] = "FailRename" /\ fault[last[2]] = f)
NeverMarkerClash == ~(last[1] = "WriteMarker" /\ pc[last[2]] = "frename")

\* liveness (FairSpec, no state constraint): every request ends
AllEnd == \A p \in Proc : [](pc[p] = "trylock" => <>(pc[p] \in DonePc))
=============================================================================
