------------------------------ MODULE CGrammar ------------------------------
(***************************************************************************)
(* The fragment of the C grammar that LNodes text can land in, written as  *)
(* a precedence-climbing parser over a token sequence.                     *)
(*                                                                         *)
(* Source: ISO C11 6.5 (expressions), 6.7 (declarations), 6.8 (statements)*)
(* - transcribed from the standard, NOT from lnodes.PRECEDENCE.            *)
(*                                                                         *)
(*   primary        identifier | constant | ( expression )                 *)
(*   postfix        primary { [ expression ] | ( argument-list ) | ++ | --}*)
(*   unary          postfix | (++|--) unary | (+|-|!|~|*|&) cast           *)
(*   multiplicative * / %            level 10   left                       *)
(*   additive       + -              level  9   left                       *)
(*   shift          << >>            level  8   left                       *)
(*   relational     < <= > >=        level  7   left                       *)
(*   equality       == !=            level  6   left                       *)
(*   AND & 5, XOR ^ 4, OR | 3, logical AND && 2, logical OR || 1   left    *)
(*   conditional    logical-OR ? expression : conditional         right    *)
(*   assignment     unary assignment-operator assignment          right    *)
(*                                                                         *)
(* Tokens are records [t |-> type, v |-> text] produced by maximal munch   *)
(* (harness/ctoken.py): t \in {"id","kw","int","flt","op","bad"}.          *)
(* Trees are uniform records [k |-> kind, s |-> string, a |-> children].  *)
(* A parse returns [n |-> tree, p |-> position of the next token]; a       *)
(* syntax error is the tree kind "error" (it compares unequal to every    *)
(* LNodes tree), never a TLC failure.                                      *)
(***************************************************************************)
EXTENDS Naturals, Sequences, TLC

N(k, s, a) == [k |-> k, s |-> s, a |-> a]
Leaf(k, s) == N(k, s, <<>>)
Res(n, p) == [n |-> n, p |-> p]
Err(msg, p) == Res(Leaf("error", msg), p)
IsErr(r) == r.n.k = "error"

EOF == [t |-> "eof", v |-> ""]
Tok(toks, p) == IF p \in 1..Len(toks) THEN toks[p] ELSE EOF
IsOp(toks, p, s) == Tok(toks, p).t = "op" /\ Tok(toks, p).v = s
IsKw(toks, p, s) == Tok(toks, p).t = "kw" /\ Tok(toks, p).v = s

\* C11 6.5.5 - 6.5.14: binary operator levels (larger binds tighter); all associate to the left
CBinLevel ==
  ("*" :> 10) @@ ("/" :> 10) @@ ("%" :> 10) @@ ("+" :> 9) @@ ("-" :> 9) @@ ("<<" :> 8) @@ (">>" :> 8) @@
  ("<" :> 7) @@ ("<=" :> 7) @@ (">" :> 7) @@ (">=" :> 7) @@ ("==" :> 6) @@ ("!=" :> 6) @@
  ("&" :> 5) @@ ("^" :> 4) @@ ("|" :> 3) @@ ("&&" :> 2) @@ ("||" :> 1)

\* C11 6.5.16
CAssignOps == {"=", "*=", "/=", "%=", "+=", "-=", "<<=", ">>=", "&=", "^=", "|="}

\* declaration specifiers that can start a declaration in emitted kernels (6.7.1 - 6.7.3)
CSpecWords == {"static", "const", "double", "float", "int", "bool", "_Bool", "_Complex", "long", "unsigned",
               "signed", "short", "char", "volatile", "extern", "register", "restrict"}

\* what may stand left of an assignment / under ++ -- (6.5.16, 6.5.3.1: a modifiable lvalue)
IsLvalue(n) == n.k \in {"sym", "idx", "deref"}

RECURSIVE CExpr(_, _), CCond(_, _), CBin(_, _, _), CClimb(_, _, _, _), CUnary(_, _), CPostTail(_, _, _),
          CPrimary(_, _), CArgs(_, _, _), CInit(_, _), CItemsK(_, _, _, _, _), CItemsAll(_, _, _, _, _)

\* assignment-expression (the comma operator is not part of the fragment)
CExpr(toks, p) ==
  LET c == CCond(toks, p) IN
  IF IsErr(c) THEN c
  ELSE IF Tok(toks, c.p).t = "op" /\ Tok(toks, c.p).v \in CAssignOps
       THEN IF ~IsLvalue(c.n) THEN Err("assignment to a non-lvalue", c.p)
            ELSE LET r == CExpr(toks, c.p + 1) IN
                 IF IsErr(r) THEN r ELSE Res(N("assign", Tok(toks, c.p).v, <<c.n, r.n>>), r.p)
       ELSE c

\* conditional-expression:  logical-OR-expression ? expression : conditional-expression
CCond(toks, p) ==
  LET c == CBin(toks, p, 1) IN
  IF IsErr(c) \/ ~IsOp(toks, c.p, "?") THEN c
  ELSE LET t == CExpr(toks, c.p + 1) IN
       IF IsErr(t) THEN t
       ELSE IF ~IsOp(toks, t.p, ":") THEN Err("expected ':'", t.p)
       ELSE LET f == CCond(toks, t.p + 1) IN
            IF IsErr(f) THEN f ELSE Res(N("cond", "", <<c.n, t.n, f.n>>), f.p)

\* precedence climbing over the binary levels
CBin(toks, p, minl) ==
  LET u == CUnary(toks, p) IN IF IsErr(u) THEN u ELSE CClimb(toks, u.n, u.p, minl)

CClimb(toks, lhs, p, minl) ==
  LET tk == Tok(toks, p) IN
  IF tk.t = "op" /\ tk.v \in DOMAIN CBinLevel /\ CBinLevel[tk.v] >= minl
  THEN LET r == CBin(toks, p + 1, CBinLevel[tk.v] + 1) IN      \* left-associative: rhs binds tighter
       IF IsErr(r) THEN r ELSE CClimb(toks, N("bin", tk.v, <<lhs, r.n>>), r.p, minl)
  ELSE Res(lhs, p)

\* unary-expression; the operand of a unary operator is a cast-expression (= unary here)
CUnary(toks, p) ==
  LET tk == Tok(toks, p) IN
  IF tk.t = "op" /\ tk.v \in {"-", "!", "+", "~", "*", "&"}
  THEN LET r == CUnary(toks, p + 1) IN
       IF IsErr(r) THEN r
       ELSE Res(N(CASE tk.v = "-" -> "neg" [] tk.v = "!" -> "not" [] tk.v = "+" -> "pos"
                    [] tk.v = "~" -> "compl" [] tk.v = "*" -> "deref" [] OTHER -> "addr", tk.v, <<r.n>>), r.p)
  ELSE IF tk.t = "op" /\ tk.v \in {"++", "--"}
  THEN LET r == CUnary(toks, p + 1) IN
       IF IsErr(r) THEN r
       ELSE IF ~IsLvalue(r.n) THEN Err("operand of " \o tk.v \o " is not an lvalue", p)
       ELSE Res(N(IF tk.v = "++" THEN "preinc" ELSE "predec", tk.v, <<r.n>>), r.p)
  ELSE LET q == CPrimary(toks, p) IN IF IsErr(q) THEN q ELSE CPostTail(toks, q.n, q.p)

\* postfix-expression tail: subscripts chain on the array name, calls need a function name
CPostTail(toks, lhs, p) ==
  IF IsOp(toks, p, "[")
  THEN LET e == CExpr(toks, p + 1) IN
       IF IsErr(e) THEN e
       ELSE IF ~IsOp(toks, e.p, "]") THEN Err("expected ']'", e.p)
       ELSE CPostTail(toks, CASE lhs.k = "sym" -> N("idx", lhs.s, <<e.n>>)
                              [] lhs.k = "idx" -> N("idx", lhs.s, Append(lhs.a, e.n))
                              [] OTHER -> N("subscript", "", <<lhs, e.n>>), e.p + 1)
  ELSE IF IsOp(toks, p, "(")
  THEN IF lhs.k # "sym" THEN Err("call of a non-identifier", p)
       ELSE IF IsOp(toks, p + 1, ")") THEN CPostTail(toks, N("call", lhs.s, <<>>), p + 2)
       ELSE LET as == CArgs(toks, p + 1, <<>>) IN
            IF IsErr(as) THEN as ELSE CPostTail(toks, N("call", lhs.s, as.n.a), as.p)
  ELSE IF IsOp(toks, p, "++") \/ IsOp(toks, p, "--")
  THEN IF ~IsLvalue(lhs) THEN Err("operand of postfix " \o Tok(toks, p).v \o " is not an lvalue", p)
       ELSE CPostTail(toks, N(IF IsOp(toks, p, "++") THEN "postinc" ELSE "postdec", Tok(toks, p).v, <<lhs>>), p + 1)
  ELSE Res(lhs, p)

\* argument-expression-list up to and including ')' (see CItems below; no trailing comma)
CArgs(toks, p, acc) ==
  LET it == CItemsAll(toks, p, 0, ")", FALSE) IN
  IF IsErr(it) THEN it
  ELSE IF IsOp(toks, it.p - 1, ",") THEN Err("expected an argument after ','", it.p)
  ELSE Res(N("args", "", it.n.a), it.p + 1)

CPrimary(toks, p) ==
  LET tk == Tok(toks, p) IN
  CASE tk.t = "id"  -> Res(Leaf("sym", tk.v), p + 1)
    [] tk.t = "int" -> Res(Leaf("int", tk.v), p + 1)
    [] tk.t = "flt" -> Res(Leaf("flt", tk.v), p + 1)
    [] tk.t = "op" /\ tk.v = "(" ->
         LET e == CExpr(toks, p + 1) IN
         IF IsErr(e) THEN e
         ELSE IF ~IsOp(toks, e.p, ")") THEN Err("expected ')'", e.p) ELSE Res(e.n, e.p + 1)
    [] OTHER -> Err("unexpected token " \o tk.t \o " '" \o tk.v \o "'", p)

---------------------------------------------------------------------------
\* statements and declarations

RECURSIVE CStmt(_, _), CStmts(_, _, _), CStmtsK(_, _, _), CStmtsAll(_, _, _), CSpecs(_, _, _), CDims(_, _, _)

CSpecs(toks, p, acc) ==
  IF Tok(toks, p).t = "kw" /\ Tok(toks, p).v \in CSpecWords
  THEN CSpecs(toks, p + 1, Append(acc, Leaf("kw", Tok(toks, p).v)))
  ELSE Res(N("type", "", acc), p)

CDims(toks, p, acc) ==
  IF IsOp(toks, p, "[")
  THEN LET e == CCond(toks, p + 1) IN
       IF IsErr(e) THEN e
       ELSE IF ~IsOp(toks, e.p, "]") THEN Err("expected ']' in declarator", e.p)
       ELSE CDims(toks, e.p + 1, Append(acc, e.n))
  ELSE Res(N("dims", "", acc), p)

\* initializer: assignment-expression | { initializer-list [,] }
CInit(toks, p) ==
  IF IsOp(toks, p, "{")
  THEN LET it == CItemsAll(toks, p + 1, 0, "}", TRUE) IN
       IF IsErr(it) THEN it ELSE Res(N("list", "", it.n.a), it.p + 1)
  ELSE CExpr(toks, p)

\* Comma-separated items up to (not including) `closer`.  Long lists (tables with thousands of entries) are
\* parsed by doubling - CItemsK reads at most 2^k items - so the evaluation depth is logarithmic in the length.
\* Each item is followed by ',' (consumed) or by the closer.
CItemsK(toks, p, k, closer, init) ==
  IF IsOp(toks, p, closer) \/ p > Len(toks) THEN Res(N("items", "", <<>>), p)
  ELSE IF k = 0
  THEN LET e == IF init THEN CInit(toks, p) ELSE CExpr(toks, p) IN
       IF IsErr(e) THEN e
       ELSE IF IsOp(toks, e.p, ",") THEN Res(N("items", "", <<e.n>>), e.p + 1)
       ELSE IF IsOp(toks, e.p, closer) THEN Res(N("items", "", <<e.n>>), e.p)
       ELSE Err("expected ',' or '" \o closer \o "'", e.p)
  ELSE LET l == CItemsK(toks, p, k - 1, closer, init) IN
       IF IsErr(l) THEN l
       ELSE LET r == CItemsK(toks, l.p, k - 1, closer, init) IN
            IF IsErr(r) THEN r ELSE Res(N("items", "", l.n.a \o r.n.a), r.p)

CItemsAll(toks, p, k, closer, init) ==
  LET l == CItemsK(toks, p, k, closer, init) IN
  IF IsErr(l) THEN l
  ELSE IF IsOp(toks, l.p, closer) THEN l
  ELSE IF l.p > Len(toks) THEN Err("missing '" \o closer \o "'", l.p)
  ELSE LET r == CItemsAll(toks, l.p, k + 1, closer, init) IN
       IF IsErr(r) THEN r ELSE Res(N("items", "", l.n.a \o r.n.a), r.p)

\* declaration: specifiers declarator [= initializer] (one declarator; no trailing ';' consumed)
CDecl(toks, p) ==
  LET sp == CSpecs(toks, p, <<>>) IN
  IF Tok(toks, sp.p).t # "id" THEN Err("expected a declarator name", sp.p)
  ELSE LET nm == Leaf("sym", Tok(toks, sp.p).v)
           ds == CDims(toks, sp.p + 1, <<>>) IN
       IF IsErr(ds) THEN ds
       ELSE IF IsOp(toks, ds.p, "=")
            THEN LET i == CInit(toks, ds.p + 1) IN
                 IF IsErr(i) THEN i ELSE Res(N("decl", "", <<sp.n, nm, ds.n, i.n>>), i.p)
            ELSE Res(N("decl", "", <<sp.n, nm, ds.n, Leaf("noinit", "")>>), ds.p)

\* `for (int i = b; i < e; ++i) body` is the range loop  for(i, b, e, body);  any other for-statement
\* stays a generic "cfor" node (which equals no LNodes tree)
RangeLoop(init, cond, step, body) ==
  IF /\ init.k = "decl" /\ init.a[1] = N("type", "", <<Leaf("kw", "int")>>) /\ init.a[3].a = <<>>
     /\ init.a[4].k # "noinit" /\ init.a[4].k # "list"
     /\ cond.k = "bin" /\ cond.s = "<" /\ cond.a[1] = init.a[2]
     /\ step.k = "preinc" /\ step.a[1] = init.a[2]
     /\ body.k = "block"
  THEN N("for", "", <<init.a[2], init.a[4], cond.a[2], body>>)
  ELSE N("cfor", "", <<init, cond, step, body>>)

CStmt(toks, p) ==
  LET tk == Tok(toks, p) IN
  IF tk.t = "op" /\ tk.v = "{" THEN
       LET b == CStmts(toks, p + 1, <<>>) IN
       IF IsErr(b) THEN b
       ELSE IF ~IsOp(toks, b.p, "}") THEN Err("expected '}'", b.p) ELSE Res(N("block", "", b.n.a), b.p + 1)
  ELSE IF tk.t = "op" /\ tk.v = ";" THEN Res(Leaf("empty", ""), p + 1)
  ELSE IF tk.t = "kw" /\ tk.v = "for" THEN
       IF ~IsOp(toks, p + 1, "(") THEN Err("expected '(' after for", p + 1)
       ELSE LET i == IF Tok(toks, p + 2).t = "kw" THEN CDecl(toks, p + 2) ELSE CExpr(toks, p + 2) IN
            IF IsErr(i) THEN i ELSE IF ~IsOp(toks, i.p, ";") THEN Err("expected ';' in for", i.p)
            ELSE LET c == CExpr(toks, i.p + 1) IN
                 IF IsErr(c) THEN c ELSE IF ~IsOp(toks, c.p, ";") THEN Err("expected second ';' in for", c.p)
                 ELSE LET s == CExpr(toks, c.p + 1) IN
                      IF IsErr(s) THEN s ELSE IF ~IsOp(toks, s.p, ")") THEN Err("expected ')' in for", s.p)
                      ELSE LET b == CStmt(toks, s.p + 1) IN
                           IF IsErr(b) THEN b ELSE Res(RangeLoop(i.n, c.n, s.n, b.n), b.p)
  ELSE IF tk.t = "kw" /\ tk.v \in CSpecWords THEN
       LET d == CDecl(toks, p) IN
       IF IsErr(d) THEN d ELSE IF ~IsOp(toks, d.p, ";") THEN Err("expected ';' after declaration", d.p)
       ELSE Res(d.n, d.p + 1)
  ELSE LET e == CExpr(toks, p) IN
       IF IsErr(e) THEN e ELSE IF ~IsOp(toks, e.p, ";") THEN Err("expected ';'", e.p) ELSE Res(e.n, e.p + 1)

\* statements up to '}' or the end of input; by doubling, as for CItems (loop bodies with thousands of statements)
CStmtsK(toks, p, k) ==
  IF p > Len(toks) \/ IsOp(toks, p, "}") THEN Res(N("stmts", "", <<>>), p)
  ELSE IF k = 0 THEN LET s == CStmt(toks, p) IN IF IsErr(s) THEN s ELSE Res(N("stmts", "", <<s.n>>), s.p)
  ELSE LET l == CStmtsK(toks, p, k - 1) IN
       IF IsErr(l) THEN l
       ELSE LET r == CStmtsK(toks, l.p, k - 1) IN
            IF IsErr(r) THEN r ELSE Res(N("stmts", "", l.n.a \o r.n.a), r.p)

CStmtsAll(toks, p, k) ==
  LET l == CStmtsK(toks, p, k) IN
  IF IsErr(l) THEN l
  ELSE IF l.p > Len(toks) \/ IsOp(toks, l.p, "}") THEN l
  ELSE LET r == CStmtsAll(toks, l.p, k + 1) IN
       IF IsErr(r) THEN r ELSE Res(N("stmts", "", l.n.a \o r.n.a), r.p)

CStmts(toks, p, acc) == CStmtsAll(toks, p, 0)

---------------------------------------------------------------------------
\* entry points: the whole token sequence must be consumed

ParseCExpr(toks) ==
  LET r == CExpr(toks, 1) IN
  IF IsErr(r) THEN r.n ELSE IF r.p # Len(toks) + 1 THEN Leaf("error", "trailing tokens after expression") ELSE r.n

ParseCStmts(toks) ==
  LET r == CStmts(toks, 1, <<>>) IN
  IF IsErr(r) THEN r.n ELSE IF r.p # Len(toks) + 1 THEN Leaf("error", "unbalanced '}'") ELSE r.n
=============================================================================
