---------------------------- MODULE FacetPerm -----------------------------
(* C03: which quadrature-permutation codes make the two sides of an         *)
(* interior facet see the same physical points.                             *)
(*                                                                          *)
(* A job gives two degree-1 cells by the integer coordinates of their local *)
(* vertices (any local numbering) and the local index of the shared facet   *)
(* on each side.  A code N acts on reference-facet points as ufcx.h says:   *)
(* rotations = N div 2 first, then reflections = N mod 2 (Fem!PermPoint).   *)
(* Valid(job) = the code pairs (N+, N-) for which, for every point xi of a  *)
(* lattice on the reference facet,                                          *)
(*     x+( F_{f+}( perm(N+, xi) ) ) = x-( F_{f-}( perm(N-, xi) ) )          *)
(* with x+/- the cell's own geometry map (P1 / Q1 interpolation of its      *)
(* vertices) and F_f the reference facet -> cell map (RefCell).             *)
(* Design facts checked for every job: Valid is non-empty, and it is the    *)
(* graph of a bijection on codes (each N+ has exactly one partner).         *)
EXTENDS RefCell, Json, IOUtils, TLC, FiniteSets

Jobs == JsonDeserialize(IOEnv.PERM_FILE)

RECURSIVE RotTri(_, _)
RotTri(xi, n) == IF n = 0 THEN xi ELSE RotTri(<<xi[2], RSub(RSub(One, xi[1]), xi[2])>>, n - 1)
RECURSIVE RotQuad(_, _)
RotQuad(xi, n) == IF n = 0 THEN xi ELSE RotQuad(<<xi[2], RSub(One, xi[1])>>, n - 1)
PermPoint(fcell, code, xi) ==
  CASE fcell = "vertex"   -> xi
    [] fcell = "interval" -> IF code % 2 = 1 THEN <<RSub(One, xi[1])>> ELSE xi
    [] fcell = "triangle" -> LET r == RotTri(xi, code \div 2) IN IF code % 2 = 1 THEN <<r[2], r[1]>> ELSE r
    [] fcell = "quadrilateral" -> LET r == RotQuad(xi, code \div 2) IN IF code % 2 = 1 THEN <<r[2], r[1]>> ELSE r

FacetCellOf(cell) == CASE cell = "interval" -> "vertex" [] cell \in {"triangle", "quadrilateral"} -> "interval"
                       [] cell = "tetrahedron" -> "triangle" [] cell = "hexahedron" -> "quadrilateral"
NCodes(fcell) == CASE fcell = "vertex" -> 1 [] fcell = "interval" -> 2 [] fcell = "triangle" -> 6 [] fcell = "quadrilateral" -> 8

\* degree-1 nodal basis of the cell at reference point X (vertex order of RefVerts)
Phi(cell, X) ==
  LET om(a) == RSub(One, a)
  IN CASE cell = "interval" -> <<om(X[1]), X[1]>>
       [] cell = "triangle" -> <<RSub(om(X[1]), X[2]), X[1], X[2]>>
       [] cell = "tetrahedron" -> <<RSub(RSub(om(X[1]), X[2]), X[3]), X[1], X[2], X[3]>>
       [] cell = "quadrilateral" -> <<RMul(om(X[1]), om(X[2])), RMul(X[1], om(X[2])), RMul(om(X[1]), X[2]), RMul(X[1], X[2])>>
       [] cell = "hexahedron" ->
            [v \in 1..8 |-> LET b0 == (v - 1) % 2  b1 == ((v - 1) \div 2) % 2  b2 == (v - 1) \div 4
                            IN RMul(RMul(IF b0 = 1 THEN X[1] ELSE om(X[1]), IF b1 = 1 THEN X[2] ELSE om(X[2])),
                                    IF b2 = 1 THEN X[3] ELSE om(X[3]))]

Phys(cell, xs, X) ==
  LET ph == Phi(cell, X)
  IN [c \in 1..Len(xs[1]) |-> LET F(v) == RMul(<<xs[v][c], 1>>, ph[v]) IN RSumTo(F, Len(xs))]

Lattice(fcell) ==
  CASE fcell = "vertex" -> { <<>> }
    [] fcell = "interval" -> { <<Norm(k, 4)>> : k \in 0..4 }
    [] fcell = "triangle" -> { <<Norm(p[1], 4), Norm(p[2], 4)>> : p \in { q \in (0..4) \X (0..4) : q[1] + q[2] <= 4 } }
    [] fcell = "quadrilateral" -> { <<Norm(i, 3), Norm(j, 3)>> : i \in 0..3, j \in 0..3 }

Valid(job) ==
  LET cell == job.cell  fc == FacetCellOf(cell)  n == NCodes(fc)
      Pt(side, code, xi) == Phys(cell, job.x[side], FacetPoint(cell, job.f[side] + 1, PermPoint(fc, code, xi)))
  IN { <<a, b>> \in (0..(n - 1)) \X (0..(n - 1)) : \A xi \in Lattice(fc) : Pt(1, a, xi) = Pt(2, b, xi) }

Bijection(V, n) == /\ \A a \in 0..(n - 1) : Cardinality({p \in V : p[1] = a}) = 1
                   /\ \A b \in 0..(n - 1) : Cardinality({p \in V : p[2] = b}) = 1

VARIABLES j, done
Init == j \in 1..Len(Jobs) /\ done = FALSE
Next == /\ ~done /\ done' = TRUE /\ j' = j
        /\ LET V == Valid(Jobs[j])  n == NCodes(FacetCellOf(Jobs[j].cell))
           IN PrintT(<<"VALID", j, V, V # {} /\ Bijection(V, n)>>)
Spec == Init /\ [][Next]_<<j, done>>
=============================================================================
