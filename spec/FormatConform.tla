---------------------------- MODULE FormatConform ---------------------------
(***************************************************************************)
(* Conformance of the REAL formatters (decides C16).                       *)
(*                                                                         *)
(* IOEnv.S6_CASES names a JSON file: a sequence of cases                   *)
(*   [id, lang ("C"|"Py"), st (scalar type), mode ("expr"|"stmts"),        *)
(*    toks (maximal-munch tokens of the text the real formatter emitted),  *)
(*    tree (the real LNodes object exported by harness/astexport.py and    *)
(*          projected to [k, s, a, d])]                                    *)
(* One TLC state per case.  The case is accepted iff parsing the tokens    *)
(* with CGrammar / PyGrammar gives a tree that Match-es the meaning of the *)
(* exported tree (Format!CanonC / CanonPy).  Verdicts are printed:         *)
(*   <<"VIOL", id, diff>>   diff = first difference (Format!Diff) or the   *)
(*                          parser's error message                         *)
(* Number tokens carry the id of the literal leaf they were read back to   *)
(* within one ulp (harness, exact rational arithmetic - TLC's 32-bit       *)
(* integers cannot hold a 53-bit significand), "~text" otherwise.          *)
(***************************************************************************)
EXTENDS Format

Cases == JsonDeserialize(IOEnv.S6_CASES)

VARIABLE ci
JInit == ci \in 1..Len(Cases)
JNext == UNCHANGED ci
JSpec == JInit /\ [][JNext]_ci

Parsed(c) ==
  CASE c.lang = "C" /\ c.mode = "expr"   -> ParseCExpr(c.toks)
    [] c.lang = "C" /\ c.mode = "stmts"  -> ParseCStmts(c.toks)
    [] c.lang = "Py" /\ c.mode = "expr"  -> ParsePyExpr(c.toks)
    [] c.lang = "Py" /\ c.mode = "stmts" -> ParsePyStmts(c.toks)

Expected(c) ==
  CASE c.lang = "C" /\ c.mode = "expr"   -> CanonC(c.tree, c.st)
    [] c.lang = "C" /\ c.mode = "stmts"  -> N("stmts", "", CanonCStmt(c.tree, c.st))
    [] c.lang = "Py" /\ c.mode = "expr"  -> CanonPy(c.tree, c.st)
    [] c.lang = "Py" /\ c.mode = "stmts" -> N("stmts", "", CanonPyStmt(c.tree, c.st))

Judge ==
  LET c == Cases[ci]
      p == Parsed(c)
      e == Expected(c) IN
  Match(p, e) \/ PrintT(<<"VIOL", c.id, IF p.k = "error" THEN <<"syntax", p.s>> ELSE Diff(p, e, <<>>)>>)
=============================================================================
