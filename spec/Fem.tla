------------------------------- MODULE Fem --------------------------------
(***************************************************************************)
(* S5: what a generated kernel must compute - exact finite-element         *)
(* reference semantics, independent of FFCx and of UFL's reference-space    *)
(* lowering.  Everything is rational (complex: pairs of rationals).        *)
(*                                                                         *)
(* Input (json, FEM_FILE):                                                 *)
(*  progs[p]  the *program*: cell, dims, function spaces (sub-element      *)
(*            layout: offset, block size, nodes, pull-back), rank, which   *)
(*            spaces the arguments / coefficients live in;                 *)
(*  confs[f]  program + integration entity and permutation codes + parts;  *)
(*            a part = integrand tree (physical-space UFL, lowered by UFL  *)
(*            only as far as algebra and derivatives) + one quadrature     *)
(*            rule (rational points on the reference entity, weights) +    *)
(*            rational tabulations of the *raw* basix elements at the      *)
(*            mapped points (basix is trusted; how FFCx uses it is not);   *)
(*  cases[c]  conf + integer data: coordinate dofs, coefficient dofs,      *)
(*            constants.                                                   *)
(* Output: <<"T", c, entries>> with the exact tensor entry (re, im) and a  *)
(* magnitude bound Sum |w| |detJ| |factors| that the rounding-error        *)
(* tolerance of the comparison is proportional to.                         *)
(*                                                                         *)
(* Semantics, from first principles:                                       *)
(*   x(X) = Sum_k x_k phi_k(X)      J = dx/dX      K = J^-1 (pseudo-inv.)  *)
(*   cell:   A_ij += Sum_q w_q |det J(X_q)| I(i, j; X_q)                   *)
(*   facet:  X_q = F_f(perm(xi_q)),  scale = pdet(J(X_q) dF_f)             *)
(*   vertex: X_q = the vertex, scale 1                                     *)
(*   ridge:  X_q = V_a + perm(s_q) (V_b - V_a) on edge (a, b) of a 3D cell, *)
(*           scale = |J(X_q) (V_b - V_a)|;  2D cell: the vertex, scale 1    *)
(*   identity pull-back  v = vhat;  grad v = K^T grad vhat                 *)
(*   covariant Piola     v = K^T vhat;  contravariant  v = J vhat / detJ   *)
(*   interior facet: macro dof i <-> (side, local dof), layout [+, -];     *)
(*   a restricted argument vanishes on the other side's dofs.              *)
(***************************************************************************)
EXTENDS RefCell, Json, IOUtils, TLC, FiniteSets

D == JsonDeserialize(IOEnv.FEM_FILE)
NCases == Len(D.cases)

R(p) == <<p[1], p[2]>>                   \* json pair -> rational
RSeq(s) == [k \in 1..Len(s) |-> R(s[k])]

---------------------------------------------------------------------------
(* quadrature permutation codes (ufcx.h): rotations = N div 2, reflections = N mod 2 *)
RECURSIVE RotTri(_, _)
RotTri(xi, n) == IF n = 0 THEN xi ELSE RotTri(<<xi[2], RSub(RSub(One, xi[1]), xi[2])>>, n - 1)
RECURSIVE RotQuad(_, _)
RotQuad(xi, n) == IF n = 0 THEN xi ELSE RotQuad(<<xi[2], RSub(One, xi[1])>>, n - 1)
PermPoint(fcell, code, xi) ==
  CASE fcell = "vertex"   -> xi
    [] fcell = "interval" -> IF code % 2 = 1 THEN <<RSub(One, xi[1])>> ELSE xi
    [] fcell = "triangle" -> LET r == RotTri(xi, code \div 2) IN IF code % 2 = 1 THEN <<r[2], r[1]>> ELSE r
    [] fcell = "quadrilateral" -> LET r == RotQuad(xi, code \div 2) IN IF code % 2 = 1 THEN <<r[2], r[1]>> ELSE r

FacetCell(cell, f) ==
  CASE cell = "interval" -> "vertex"
    [] cell \in {"triangle", "quadrilateral"} -> "interval"
    [] cell = "tetrahedron" -> "triangle"
    [] cell = "hexahedron" -> "quadrilateral"
    [] cell = "prism" -> IF Len(Facets(cell)[f]) = 3 THEN "triangle" ELSE "quadrilateral"

---------------------------------------------------------------------------
(* function spaces *)
DofSub(sp, i) == CHOOSE s \in 1..Len(sp.subs) :
                    sp.subs[s].off <= i /\ i < sp.subs[s].off + sp.subs[s].bs * sp.subs[s].nn

\* index into a tabulation by reference-derivative multi-index
D1(k) == 1 + k
D2(td, k, l) == LET a == IF k <= l THEN k ELSE l
                    b == IF k <= l THEN l ELSE k
                IN 1 + td + ((a - 1) * td - ((a - 1) * (a - 2)) \div 2) + (b - a) + 1

---------------------------------------------------------------------------
\* Magnitudes live on one coarse grid: rounded *up* to a multiple of 1/256 (integers from 4096 on) after every
\* operation - a bound stays a bound, and its numerators stay far away from 32 bits.
Up(x) == IF x[1] = 0 THEN Zero
         ELSE IF x[2] = 1 THEN x
         ELSE LET ip == x[1] \div x[2]
              IN IF ip >= 4096 \/ x[1] >= 8000000 THEN <<ip + 1, 1>> ELSE Norm(((x[1] * 256) \div x[2]) + 1, 256)
RMax(a, b) == IF RLt(a, b) THEN b ELSE a
MAdd(a, b) == LET ua == Up(a)  ub == Up(b)
              IN IF ua[1] \div ua[2] >= 1000000 \/ ub[1] \div ub[2] >= 1000000 THEN <<1000000, 1>> ELSE Up(RAdd(ua, ub))
MMul(a, b) == LET ua == Up(a)  ub == Up(b)
                  ia == ua[1] \div ua[2]  ib == ub[1] \div ub[2]
              IN IF ua[1] = 0 \/ ub[1] = 0 THEN Zero
                 ELSE IF ia >= 128 \/ ib >= 128
                      THEN (IF (ia + 1) > 1000000 \div (ib + 1) THEN <<1000000, 1>> ELSE <<(ia + 1) * (ib + 1), 1>>)
                      ELSE Up(RMul(ua, ub))

---------------------------------------------------------------------------
(* One part of one case *)
PartTensor(P, C, cs, part, pk) ==
  LET cell == P.cell  td == P.tdim  gd == P.gdim
      itype == P.itype
      nsides == IF itype = "interior_facet" THEN 2 ELSE 1
      \* where the rule's points live: on the cell, on a facet, or at a vertex
      ptype == IF itype = "expression" THEN P.etype
               ELSE IF itype = "cell" THEN "cell" ELSE IF itype = "vertex" THEN "vertex"
               ELSE IF itype = "ridge" THEN "ridge" ELSE "facet"
      NQ == Len(part.wts)
      XS == P.spaces[P.coord]                              \* coordinate element: blocked scalar space
      nxn == XS.subs[1].nn
      xtab == part.tabs[XS.subs[1].tab]                    \* [side][deriv][q][node][1]
      \* reference-cell point of quadrature point q on side s, recomputed here
      Xq(s, q) ==
        IF ptype = "cell" THEN RSeq(part.pts[q])
        ELSE IF ptype = "vertex" THEN RefVerts(cell)[C.ent[s] + 1]
        ELSE IF ptype = "ridge"
             THEN RidgePoint(cell, C.ent[s] + 1, PermPoint(RidgeCell(cell), C.perm[s], RSeq(part.pts[q])))
        ELSE FacetPoint(cell, C.ent[s] + 1,
                        PermPoint(FacetCell(cell, C.ent[s] + 1), C.perm[s], RSeq(part.pts[q])))
      \* ridges: the harness also hands over the ridge's vertices as basix numbers them (C.rverts, 0-based)
      RidgeAgree == ptype = "ridge" =>
                      /\ C.ent[1] + 1 \in 1..Len(Ridges(cell))
                      /\ Ridges(cell)[C.ent[1] + 1] = [k \in 1..Len(C.rverts) |-> C.rverts[k] + 1]
      PointsAgree == /\ RidgeAgree
                     /\ \A s \in 1..nsides, q \in 1..NQ : Xq(s, q) = RSeq(part.xq[s][q])
      \* geometry
      XD(s, n, c) == <<cs.x[s][n][c], 1>>
      Jac == [s \in 1..nsides |-> [q \in 1..NQ |-> [c \in 1..gd |-> [k \in 1..td |->
                LET F(n) == RMul(XD(s, n, c), R(xtab[s][D1(k)][q][n][1])) IN RSumTo(F, nxn)]]]]
      Xphys == [s \in 1..nsides |-> [q \in 1..NQ |-> [c \in 1..gd |->
                LET F(n) == RMul(XD(s, n, c), R(xtab[s][1][q][n][1])) IN RSumTo(F, nxn)]]]
      Gram(J) == MatMul(MatT(J), J)
      DetJ == [s \in 1..nsides |-> [q \in 1..NQ |->
                IF td = 0 THEN One
                ELSE IF td = gd THEN Det(Jac[s][q]) ELSE RSqrt(Det(Gram(Jac[s][q])))]]
      Kinv == [s \in 1..nsides |-> [q \in 1..NQ |->
                IF td = 0 THEN <<>>
                ELSE IF td = gd THEN Inverse(Jac[s][q])
                ELSE MatMul(Inverse(Gram(Jac[s][q])), MatT(Jac[s][q]))]]       \* td x gd
      \* Second derivatives of the geometry (non-affine cells): dJ_cab = d J_ca / d X_b = sum_n x_nc d2 phi_n / dX_a dX_b,
      \* dK_bkd = d K_kd / d X_b = -(K dJ_b K)_kd,  TrK_b = tr(K dJ_b) = (d det J / d X_b) / det J.
      \* Present only when the harness tabulated second derivatives (square Jacobians).
      HasD2 == td >= 1 /\ td = gd /\ Len(xtab[1]) > 1 + td
      dJ == [s \in 1..nsides |-> [q \in 1..NQ |-> [c \in 1..gd |-> [a \in 1..td |-> [b \in 1..td |->
               IF ~HasD2 THEN Zero
               ELSE LET F(n) == RMul(XD(s, n, c), R(xtab[s][D2(td, a, b)][q][n][1])) IN RSumTo(F, nxn)]]]]]
      dJM == [s \in 1..nsides |-> [q \in 1..NQ |->
               IF ~HasD2 THEN Zero
               ELSE LET F(n) == LET G(ab) == RAbs(R(xtab[s][1 + td + ab][q][n][1])) IN RSumTo(G, (td * (td + 1)) \div 2)
                        H(c) == LET F2(n) == RMul(RAbs(XD(s, n, c)), F(n)) IN RSumTo(F2, nxn)
                    IN Up(RSumTo(H, gd))]]                 \* one bound for every |dJ_cab|
      dK == [s \in 1..nsides |-> [q \in 1..NQ |-> [b \in 1..td |-> [k \in 1..td |-> [d \in 1..gd |->
               IF ~HasD2 THEN Zero
               ELSE LET F(c) == LET G(a) == RMul(RMul(Kinv[s][q][k][c], dJ[s][q][c][a][b]), Kinv[s][q][a][d]) IN RSumTo(G, td)
                    IN RNeg(RSumTo(F, gd))]]]]]
      TrK == [s \in 1..nsides |-> [q \in 1..NQ |-> [b \in 1..td |->
               IF ~HasD2 THEN Zero
               ELSE LET F(k) == LET G(m) == RMul(Kinv[s][q][k][m], dJ[s][q][m][k][b]) IN RSumTo(G, gd) IN RSumTo(F, td)]]]
      \* Magnitudes for the rounding-error bound (never used for the value).  The kernel computes
      \* J, det J and K in floating point with cancellation, so the error of a quantity that is exactly
      \* zero is proportional to the magnitudes that went into it, not to its value:
      \*   JacM_ck = sum_n |x_nc| |d_k phi_n|   (>= |J_ck|)
      \*   PJ      = prod_k max(1, sum_c JacM_ck) (>= |det J|, and >= every cofactor)
      \*   KbM     = PJ / |det J|                 (>= |K_kd|; squared on manifolds: K = (J^T J)^-1 J^T)
      \*   Amp     = max_q PJ / |det J| >= 1      scales the tolerance (relative error of 1 / det J)
      JacM == [s \in 1..nsides |-> [q \in 1..NQ |-> [c \in 1..gd |-> [k \in 1..td |->
                LET F(n) == RAbs(RMul(XD(s, n, c), R(xtab[s][D1(k)][q][n][1]))) IN Up(RSumTo(F, nxn))]]]]
      PJ == [s \in 1..nsides |-> [q \in 1..NQ |->
               LET RECURSIVE PK(_)
                   PK(k) == IF k = 0 THEN One
                            ELSE MMul(PK(k - 1), RMax(One, LET F(c) == JacM[s][q][c][k] IN RSumTo(F, gd)))
               IN PK(td)]]
      KbM == [s \in 1..nsides |-> [q \in 1..NQ |->
               IF td = 0 THEN One
               ELSE LET r == Up(RDiv(PJ[s][q], RAbs(DetJ[s][q]))) IN IF td = gd THEN r ELSE MMul(r, r)]]
      Amp == LET RECURSIVE MQ(_, _)
                 MQ(s, q) == IF s = 0 THEN One
                             ELSE IF q = 0 THEN MQ(s - 1, NQ)
                             ELSE RMax(MQ(s, q - 1), Up(RDiv(PJ[s][q], RAbs(DetJ[s][q]))))
             IN IF td = 0 THEN One ELSE MQ(nsides, NQ)
      \* integration scale factor
      FacetJ(s, q) == LET ax == FacetAxes(cell, C.ent[s] + 1)      \* (td-1) vectors of length td
                      IN [c \in 1..gd |-> [a \in 1..(td - 1) |->
                            LET F(k) == RMul(Jac[s][q][c][k], ax[a][k]) IN RSumTo(F, td)]]
      \* ridge of a 3D cell: physical tangent J (V_b - V_a), a gd-vector
      RidgeJ(q) == LET ax == RidgeAxis(cell, C.ent[1] + 1)
                   IN [c \in 1..gd |-> LET F(k) == RMul(Jac[1][q][c][k], ax[k]) IN RSumTo(F, td)]
      IsRidge == itype = "ridge"
      Scale(q) ==
        IF itype = "expression" THEN One
        ELSE IF itype = "cell" THEN RAbs(DetJ[1][q])
        ELSE IF IsRidge THEN (IF td = 2 THEN One ELSE RSqrt(Dot(RidgeJ(q), RidgeJ(q))))
        ELSE IF itype = "vertex" \/ td = 1 THEN One
        ELSE RSqrt(Det(Gram(FacetJ(1, q))))
      ScaleOk(q) == IF itype = "expression" THEN (td = gd \/ RIsSquare(Det(Gram(Jac[1][q]))))
                    ELSE IF itype = "cell" THEN (td = gd \/ RIsSquare(Det(Gram(Jac[1][q]))))
                    ELSE IF IsRidge THEN (td = 2 \/ RIsSquare(Dot(RidgeJ(q), RidgeJ(q))))
                    ELSE IF itype = "vertex" \/ td = 1 THEN TRUE
                    ELSE RIsSquare(Det(Gram(FacetJ(1, q))))
      \* physical outward unit normal on side s
      NormalRaw(s, q) == LET nh == RefNormal(cell, C.ent[s] + 1)
                         IN [c \in 1..gd |-> LET F(a) == RMul(Kinv[s][q][a][c], nh[a]) IN RSumTo(F, td)]
      Normal(s, q) == LET r == NormalRaw(s, q)  l2 == Dot(r, r)
                      IN [c \in 1..gd |-> RDiv(r[c], RSqrt(l2))]
      NormalOk(s, q) == RIsSquare(Dot(NormalRaw(s, q), NormalRaw(s, q)))
      NormalF == [s \in 1..nsides |-> [q \in 1..NQ |-> Normal(s, q)]]
      \* ------------------------------------------------------------------
      \* value of (derivative dv of component comp of) basis function i of space sp at (s, q)
      \* `ab` = TRUE evaluates the same expression with every factor replaced by its absolute value:
      \* the magnitude the rounding error of the kernel's evaluation is proportional to
      Basis(spn, s, q, i, comp, dv, ab) ==
        LET sp == P.spaces[spn]
            sd == DofSub(sp, i)  sub == sp.subs[sd]
            loc == i - sub.off  node == (loc \div sub.bs) + 1  blk == loc % sub.bs
            cm == sp.cmap[comp + 1]                         \* <<sub, block, raw value component>>
            tb == part.tabs[sub.tab][s]
            A(x) == IF ab THEN Up(RAbs(x)) ELSE x
            Mu(x, y) == IF ab THEN MMul(x, y) ELSE RMul(x, y)
            Ad(x, y) == IF ab THEN MAdd(x, y) ELSE RAdd(x, y)
            DivDet(x) == IF ab THEN MMul(x, Up(RInv(RAbs(DetJ[s][q])))) ELSE RDiv(x, DetJ[s][q])
            \* abs-mode: the magnitude of an entry plus a floor proportional to the magnitudes it was computed from
            \* (an entry that is exactly zero by cancellation still carries the rounding error of its parts)
            Fl(x) == RDiv(x, <<1024, 1>>)
            K == IF ab THEN [k \in 1..td |-> [d \in 1..gd |-> MAdd(RAbs(Kinv[s][q][k][d]), Fl(KbM[s][q]))]] ELSE Kinv[s][q]
            J == IF ab THEN JacM[s][q] ELSE Jac[s][q]
            \* reference value / derivatives of raw component vc (1-based) of this node
            Ref0(vc) == A(R(tb[1][q][node][vc]))
            RefG(vc, d) == LET F(k) == Mu(A(K[k][d]), A(R(tb[D1(k)][q][node][vc]))) IN RSumTo(F, td)
            \* abs-mode stand-ins for the geometry second derivatives (uniform bounds)
            DJ(c, a, b) == IF ab THEN MAdd(RAbs(dJ[s][q][c][a][b]), Fl(dJM[s][q])) ELSE dJ[s][q][c][a][b]
            DK(b, k, d) == IF ab THEN MAdd(RAbs(dK[s][q][b][k][d]),
                                           Fl(MMul(MMul(RInt(td * gd), MMul(KbM[s][q], KbM[s][q])), dJM[s][q])))
                           ELSE dK[s][q][b][k][d]
            TR(b) == IF ab THEN MAdd(RAbs(TrK[s][q][b]), Fl(MMul(RInt(td * gd), MMul(KbM[s][q], dJM[s][q])))) ELSE TrK[s][q][b]
            \* d2 v / dx_d1 dx_d2 = sum_b K_b,d2 sum_k ( dK_b,k,d1 d_k v + K_k,d1 d_b d_k v )
            RefH(vc, d1, d2) == LET F(b) == LET G(k) == Ad(Mu(DK(b, k, d1), A(R(tb[D1(k)][q][node][vc]))),
                                                          Mu(A(K[k][d1]), A(R(tb[D2(td, k, b)][q][node][vc]))))
                                            IN Mu(A(K[b][d2]), RSumTo(G, td))
                                IN RSumTo(F, td)
            RefAny(vc) == IF Len(dv) = 0 THEN Ref0(vc)
                          ELSE IF Len(dv) = 1 THEN RefG(vc, dv[1] + 1)
                          ELSE RefH(vc, dv[1] + 1, dv[2] + 1)
            cc == cm[3] + 1
            \* Piola maps, value and first derivative (the map itself varies over a non-affine cell):
            \*   covariant      v_c = sum_a K_ac V_a
            \*   contravariant  v_c = sum_a J_ca V_a / det J
            \*   d v_c / dx_d = sum_b K_bd d/dX_b ( ... )
            Cov0 == LET F(a) == Mu(A(K[a][cc]), Ref0(a)) IN RSumTo(F, td)
            Cov1(d) == LET T1 == LET F(a) == Mu(A(K[a][cc]), RefG(a, d)) IN RSumTo(F, td)
                           T2 == LET F(b) == LET G(a) == Mu(DK(b, a, cc), Ref0(a)) IN Mu(A(K[b][d]), RSumTo(G, td))
                                 IN RSumTo(F, td)
                       IN Ad(T1, T2)
            Con0 == LET F(a) == Mu(A(J[cc][a]), Ref0(a)) IN DivDet(RSumTo(F, td))
            Con1(d) == LET T1 == LET F(a) == Mu(A(J[cc][a]), RefG(a, d)) IN RSumTo(F, td)
                           T2 == LET F(b) == LET G(a) == Mu(DJ(cc, a, b), Ref0(a)) IN Mu(A(K[b][d]), RSumTo(G, td))
                                 IN RSumTo(F, td)
                           T3 == LET V == LET F(a) == Mu(A(J[cc][a]), Ref0(a)) IN RSumTo(F, td)
                                     F2(b) == Mu(A(K[b][d]), TR(b))
                                 IN Mu(V, RSumTo(F2, td))
                       IN DivDet(IF ab THEN Ad(Ad(T1, T2), T3) ELSE RSub(RAdd(T1, T2), T3))
        IN IF cm[1] # sd THEN Zero
           ELSE IF sub.map = "identity" THEN (IF cm[2] # blk THEN Zero ELSE RefAny(cm[3] + 1))
           ELSE IF sub.map = "covariantPiola" THEN (IF Len(dv) = 0 THEN Cov0 ELSE Cov1(dv[1] + 1))
           ELSE (IF Len(dv) = 0 THEN Con0 ELSE Con1(dv[1] + 1))       \* contravariantPiola
      Side(r) == IF r = "-" THEN 2 ELSE 1
      \* ------------------------------------------------------------------
      \* geometric cell / facet quantities of degree-1 cells, from the vertex coordinates alone
      nvert == Len(RefVerts(cell))
      Dist2(s, a, b) == LET F(c) == LET df == RSub(XD(s, a, c), XD(s, b, c)) IN RMul(df, df) IN RSumTo(F, gd)
      VPairs == {p \in (1..nvert) \X (1..nvert) : p[1] < p[2]}
      EPairs == {<<Edges(cell)[e][1], Edges(cell)[e][2]>> : e \in 1..Len(Edges(cell))}
      MaxD2(s, S) == CHOOSE m \in {Dist2(s, p[1], p[2]) : p \in S} : \A p \in S : RLe(Dist2(s, p[1], p[2]), m)
      MinD2(s, S) == CHOOSE m \in {Dist2(s, p[1], p[2]) : p \in S} : \A p \in S : RLe(m, Dist2(s, p[1], p[2]))
      RefVol == CASE cell = "triangle" -> <<1, 2>> [] cell = "tetrahedron" -> <<1, 6>> [] OTHER -> One
      FacetVerts(s) == Facets(cell)[C.ent[s] + 1]
      Geo2(g, s) ==        \* the square of the quantity where it is a square root, else the quantity itself
        CASE g = "diameter" -> MaxD2(s, VPairs)
          [] g = "maxedge" -> MaxD2(s, EPairs)
          [] g = "minedge" -> MinD2(s, EPairs)
          [] g = "facetarea" -> IF td = 2 THEN Dist2(s, FacetVerts(s)[1], FacetVerts(s)[2]) ELSE One
          [] g = "circumradius" ->
               IF td = 1 THEN RDiv(Dist2(s, 1, 2), <<4, 1>>)
               ELSE \* triangle: R = a b c / (4 area), area = |det J| / 2  =>  R^2 = a2 b2 c2 / (4 detJ^2)
                    RDiv(RMul(RMul(Dist2(s, 1, 2), Dist2(s, 1, 3)), Dist2(s, 2, 3)),
                         RMul(<<4, 1>>, RMul(DetJ[s][1], DetJ[s][1])))
          [] OTHER -> One
      GeoIsRoot(g) == g \in {"diameter", "maxedge", "minedge", "facetarea", "circumradius"}
      Geo(g, s) == IF g = "volume" THEN RMul(RAbs(DetJ[s][1]), RefVol)
                   ELSE IF GeoIsRoot(g) THEN RSqrt(Geo2(g, s)) ELSE One
      GeoOk == \A k \in 1..Len(part.geos) :
                 LET g == part.geos[k][1]  s == Side(part.geos[k][2])
                 IN /\ (g = "circumradius" => td \in {1, 2} /\ cell \in {"interval", "triangle"})
                    /\ (g = "facetarea" => td \in {1, 2} /\ ~IsRidge)
                    /\ (GeoIsRoot(g) => RIsSquare(Geo2(g, s)))
      \* argument leaves: value for macro dof i (0-based over [+ side dofs, - side dofs])
      ArgDim(n) == P.spaces[P.args[n + 1]].dim
      ArgLeaf(lf, q, i, ab) ==
        LET dim == ArgDim(lf.n)
            s == IF nsides = 2 THEN (i \div dim) + 1 ELSE 1
        IN IF nsides = 2 /\ s # Side(lf.r) THEN Zero
           ELSE Basis(P.args[lf.n + 1], s, q, i % dim, lf.c, lf.d, ab)
      AL == [a \in 1..Len(part.aleaves) |-> [q \in 1..NQ |->
               [i \in 0..(nsides * ArgDim(part.aleaves[a].n) - 1) |-> ArgLeaf(part.aleaves[a], q, i, FALSE)]]]
      \* magnitude of an argument leaf at q: the maximum over the dofs (one bound per case is enough, see Mag)
      ALM == [a \in 1..Len(part.aleaves) |-> [q \in 1..NQ |->
               LET n == nsides * ArgDim(part.aleaves[a].n)
                   RECURSIVE MX(_)
                   MX(i) == IF i < 0 THEN Zero ELSE RMax(MX(i - 1), ArgLeaf(part.aleaves[a], q, i, TRUE))
               IN Up(MX(n - 1))]]
      \* coefficient leaves: complex value at q
      CoefLeaf(lf, q) ==
        LET spn == P.coefs[lf.k + 1]  dim == P.spaces[spn].dim  s == Side(lf.r)
            wv == cs.w[lf.k + 1][s]
            RECURSIVE Acc(_)
            Acc(i) == IF i = 0 THEN <<CZero, Zero>>
                      ELSE LET wi == wv[i]  h == Acc(i - 1)
                           IN IF wi[1] = 0 /\ wi[2] = 0 THEN h
                              ELSE LET b == Basis(spn, s, q, i - 1, lf.c, lf.d, FALSE)
                                       bm == Basis(spn, s, q, i - 1, lf.c, lf.d, TRUE)
                                       z == <<RInt(wi[1]), RInt(wi[2])>>
                                   IN <<CAdd(h[1], CScale(b, z)), MAdd(h[2], MMul(bm, CMag(z)))>>
        IN Acc(dim)
      CL == [a \in 1..Len(part.cleaves) |-> [q \in 1..NQ |-> CoefLeaf(part.cleaves[a], q)]]
      \* ------------------------------------------------------------------
      \* integrand tree: complex value at (q, i, j)
      RECURSIVE Ev(_, _, _, _)
      RECURSIVE Cond(_, _, _, _)
      Cond(t, q, i, j) ==
        IF t.t = "and" THEN Cond(t.a, q, i, j) /\ Cond(t.b, q, i, j)
        ELSE IF t.t = "or" THEN Cond(t.a, q, i, j) \/ Cond(t.b, q, i, j)
        ELSE IF t.t = "not" THEN ~Cond(t.a, q, i, j)
        ELSE LET l == Ev(t.a, q, i, j)[1]  r == Ev(t.b, q, i, j)[1]
             IN CASE t.t = "lt" -> RLt(l, r) [] t.t = "le" -> RLe(l, r) [] t.t = "gt" -> RLt(r, l)
                  [] t.t = "ge" -> RLe(r, l) [] t.t = "eq" -> l = r [] t.t = "ne" -> l # r
      Ev(t, q, i, j) ==
        CASE t.t = "num" -> <<R(t.re), R(t.im)>>
          [] t.t = "sum" -> LET RECURSIVE SA(_)
                                SA(k) == IF k = 0 THEN CZero ELSE CAdd(SA(k - 1), Ev(t.a[k], q, i, j))
                            IN SA(Len(t.a))
          [] t.t = "prod" -> LET RECURSIVE PA(_)
                                 PA(k) == IF k = 0 THEN COne
                                          ELSE LET h == PA(k - 1)
                                               IN IF CIsZero(h) THEN h ELSE CMul(h, Ev(t.a[k], q, i, j))
                             IN PA(Len(t.a))
          [] t.t = "div" -> CDiv(Ev(t.a, q, i, j), Ev(t.b, q, i, j))
          [] t.t = "pow" -> CPow(Ev(t.a, q, i, j), t.e)
          [] t.t = "abs" -> CReal(RSqrt(CAbs2(Ev(t.a, q, i, j))))
          [] t.t = "sqrt" -> CReal(RSqrt(Ev(t.a, q, i, j)[1]))
          [] t.t = "conj" -> CConj(Ev(t.a, q, i, j))
          [] t.t = "real" -> CReal(Ev(t.a, q, i, j)[1])
          [] t.t = "imag" -> CReal(Ev(t.a, q, i, j)[2])
          [] t.t = "cond" -> IF Cond(t.c, q, i, j) THEN Ev(t.a, q, i, j) ELSE Ev(t.b, q, i, j)
          [] t.t = "max" -> LET a == Ev(t.a, q, i, j)  b == Ev(t.b, q, i, j) IN IF RLt(a[1], b[1]) THEN b ELSE a
          [] t.t = "min" -> LET a == Ev(t.a, q, i, j)  b == Ev(t.b, q, i, j) IN IF RLt(b[1], a[1]) THEN b ELSE a
          \* transcendental function of an argument-free sub-expression: value supplied per point (libm on the
          \* exact rational argument, see harness/s5.py function_tables; its rounding is part of the tolerance)
          [] t.t = "ftab" -> <<R(cs.ftab[pk][t.id][q][1]), R(cs.ftab[pk][t.id][q][2])>>
          [] t.t = "al" -> CReal(AL[t.id][q][IF part.aleaves[t.id].n = 0 THEN i ELSE j])
          [] t.t = "cl" -> CL[t.id][q][1]
          [] t.t = "const" -> <<RInt(cs.c[t.k + 1][t.c + 1][1]), RInt(cs.c[t.k + 1][t.c + 1][2])>>
          [] t.t = "x" -> CReal(Xphys[Side(t.r)][q][t.c + 1])
          [] t.t = "n" -> CReal(NormalF[Side(t.r)][q][t.c + 1])
          [] t.t = "geo" -> CReal(Geo(t.g, Side(t.r)))
          [] t.t = "detJ" -> CReal(DetJ[Side(t.r)][q])
          [] t.t = "J" -> CReal(Jac[Side(t.r)][q][t.c + 1][t.k + 1])
          [] t.t = "K" -> CReal(Kinv[Side(t.r)][q][t.c + 1][t.k + 1])
      \* magnitude bound of the integrand at q, uniform in (i, j): every factor replaced by (a bound of) its
      \* absolute value, argument leaves by their maximum over the dofs.  The comparison tolerance of the whole
      \* case is proportional to Mag = sum_q |w_q| PJ EvM(q).
      RECURSIVE EvM(_, _)
      EvM(t, q) ==
        CASE t.t = "num" -> Up(CMag(<<R(t.re), R(t.im)>>))
          [] t.t = "sum" -> LET RECURSIVE SA(_)
                                SA(k) == IF k = 0 THEN Zero ELSE MAdd(SA(k - 1), EvM(t.a[k], q))
                            IN SA(Len(t.a))
          [] t.t = "prod" -> LET RECURSIVE PA(_)
                                 PA(k) == IF k = 0 THEN One ELSE MMul(PA(k - 1), EvM(t.a[k], q))
                             IN PA(Len(t.a))
          [] t.t = "div" -> Up(RDiv(EvM(t.a, q), CMag(Ev(t.b, q, 0, 0))))
          [] t.t = "pow" -> IF t.e >= 0 THEN Up(RPow(EvM(t.a, q), t.e)) ELSE Up(CMag(CPow(Ev(t.a, q, 0, 0), t.e)))
          [] t.t \in {"abs", "conj", "real", "imag"} -> EvM(t.a, q)
          [] t.t = "sqrt" -> MAdd(One, EvM(t.a, q))
          [] t.t \in {"cond", "max", "min"} -> RMax(EvM(t.a, q), EvM(t.b, q))
          [] t.t = "ftab" -> MAdd(One, Up(CMag(<<R(cs.ftab[pk][t.id][q][1]), R(cs.ftab[pk][t.id][q][2])>>)))
          [] t.t = "al" -> ALM[t.id][q]
          [] t.t = "cl" -> CL[t.id][q][2]
          [] t.t = "const" -> Up(CMag(<<RInt(cs.c[t.k + 1][t.c + 1][1]), RInt(cs.c[t.k + 1][t.c + 1][2])>>))
          [] t.t = "x" -> LET s == Side(t.r)
                              F(n) == RAbs(RMul(XD(s, n, t.c + 1), R(xtab[s][1][q][n][1])))
                          IN Up(RSumTo(F, nxn))
          [] t.t = "n" -> One
          [] t.t = "geo" -> MAdd(One, Geo(t.g, Side(t.r)))
          [] t.t = "detJ" -> PJ[Side(t.r)][q]
          [] t.t = "J" -> JacM[Side(t.r)][q][t.c + 1][t.k + 1]
          [] t.t = "K" -> KbM[Side(t.r)][q]
      \* a comparison evaluated exactly on its threshold is decided by rounding in the kernel:
      \* such cases are outside what "up to floating-point rounding" can settle (skipped, counted)
      RECURSIVE Knife(_, _)
      Knife(t, q) ==
        CASE t.t \in {"lt", "le", "gt", "ge", "eq", "ne"} ->
               (Ev(t.a, q, 0, 0) = Ev(t.b, q, 0, 0)) \/ Knife(t.a, q) \/ Knife(t.b, q)
          [] t.t \in {"and", "or"} -> Knife(t.a, q) \/ Knife(t.b, q)
          [] t.t = "not" -> Knife(t.a, q)
          [] t.t = "cond" -> Knife(t.c, q) \/ Knife(t.a, q) \/ Knife(t.b, q)
          [] t.t \in {"sum", "prod"} -> \E k \in 1..Len(t.a) : Knife(t.a[k], q)
          [] t.t \in {"div", "max", "min"} -> Knife(t.a, q) \/ Knife(t.b, q)
          [] t.t = "abs" -> LET a == Ev(t.a, q, 0, 0)
                            IN (a[2][1] # 0 /\ ~RIsSquare(CAbs2(a))) \/ Knife(t.a, q)      \* |z| irrational
          [] t.t = "sqrt" -> LET a == Ev(t.a, q, 0, 0)
                             IN a[2][1] # 0 \/ a[1][1] < 0 \/ ~RIsSquare(a[1]) \/ Knife(t.a, q)
          [] t.t \in {"pow", "conj", "real", "imag"} -> Knife(t.a, q)
          [] OTHER -> FALSE
      \* which square roots must be rational for this case to be inside the model
      NeedsNormal == part.uses_normal
      \* ridge integrals: codimension 2 (2D and 3D cells, square Jacobian), no facet normal, one side
      RidgeOk == IsRidge => td \in {2, 3} /\ td = gd /\ ~NeedsNormal /\ C.perm[1] \in (IF td = 3 THEN {0, 1} ELSE {0})
      InRange == /\ RidgeOk
                 /\ \A q \in 1..NQ : ScaleOk(q)
                 /\ NeedsNormal => \A s \in 1..nsides, q \in 1..NQ : NormalOk(s, q)
                 /\ \A s \in 1..nsides, q \in 1..NQ : DetJ[s][q][1] # 0
                 /\ part.has_cond => \A q \in 1..NQ : ~Knife(part.tree, q)
                 /\ GeoOk
      WQ == [q \in 1..NQ |-> RMul(R(part.wts[q]), Scale(q))]
      WQM == [q \in 1..NQ |-> Up(RMul(RAbs(R(part.wts[q])),
                IF itype = "expression" THEN One
                ELSE IF itype = "cell" THEN PJ[1][q]
                \* |J t| <= sum_k sum_c JacM_ck <= td PJ for a reference tangent t with entries in {-1, 0, 1}
                ELSE IF IsRidge THEN (IF td = 2 THEN One ELSE RMul(RInt(td), PJ[1][q]))
                ELSE IF itype = "vertex" \/ td = 1 THEN One ELSE RMul(RInt(td), PJ[1][q])))]
      n0 == IF P.rank >= 1 THEN nsides * ArgDim(0) ELSE 1
      n1 == IF P.rank >= 2 /\ ~P.diagonal THEN nsides * ArgDim(1) ELSE 1
      Entry(i, j) ==
        LET jj == IF P.rank >= 2 /\ P.diagonal THEN i ELSE j
            RECURSIVE QA(_)
            QA(q) == IF q = 0 THEN CZero ELSE CAdd(QA(q - 1), CScale(WQ[q], Ev(part.tree, q, i, jj)))
        IN QA(NQ)
      Mag == LET RECURSIVE QM(_)
                 QM(q) == IF q = 0 THEN Zero ELSE MAdd(QM(q - 1), MMul(WQM[q], EvM(part.tree, q)))
             IN QM(NQ)
      MagExpr == LET RECURSIVE QX(_)
                     QX(q) == IF q = 0 THEN Zero ELSE RMax(QX(q - 1), EvM(part.tree, q))
                 IN QX(NQ)
  IN IF ~PointsAgree THEN <<"points-disagree">>
     ELSE IF ~InRange THEN <<"out-of-range">>
     ELSE IF itype = "expression"
          THEN \* no quadrature sum: A[point][component][dof]; this part is one component, indexed [dof][point]
               <<"ok", [i \in 0..(n0 - 1) |-> [qq \in 0..(NQ - 1) |-> Ev(part.tree, qq + 1, i, 0)]], Amp, MagExpr>>
     ELSE <<"ok", [i \in 0..(n0 - 1) |-> [j \in 0..(n1 - 1) |-> Entry(i, j)]], Amp, Mag>>

CaseTensor(c) ==
  LET cs == D.cases[c]  C == D.confs[cs.conf]  P == D.progs[C.prog]
      parts == [k \in 1..Len(C.parts) |-> PartTensor(P, C, cs, C.parts[k], k)]
      bad == {k \in 1..Len(parts) : parts[k][1] # "ok"}
  IN IF bad # {} THEN <<parts[CHOOSE k \in bad : TRUE][1]>>
     ELSE LET RECURSIVE AE(_)
              AE(k) == IF k = 0 THEN One ELSE RMax(AE(k - 1), parts[k][3])
              RECURSIVE MS(_)
              MS(k) == IF k = 0 THEN Zero ELSE MAdd(MS(k - 1), parts[k][4])
              RECURSIVE MXs(_)
              MXs(k) == IF k = 0 THEN Zero ELSE RMax(MXs(k - 1), parts[k][4])
          IN IF P.itype = "expression"
             THEN <<"ok-expr", [k \in 1..Len(parts) |-> parts[k][2]], AE(Len(parts)), MXs(Len(parts))>>
             ELSE LET t1 == parts[1][2]
                      RECURSIVE Acc(_, _, _)
                      Acc(k, i, j) == IF k = 0 THEN CZero ELSE CAdd(Acc(k - 1, i, j), parts[k][2][i][j])
                  IN <<"ok", [i \in DOMAIN t1 |-> [j \in DOMAIN t1[i] |-> Acc(Len(parts), i, j)]],
                       AE(Len(parts)), MS(Len(parts))>>

---------------------------------------------------------------------------
VARIABLES cid, done
Init == cid \in 1..NCases /\ done = FALSE
Next == /\ ~done /\ done' = TRUE /\ cid' = cid
        /\ PrintT(<<"T", cid, CaseTensor(cid)>>)
Spec == Init /\ [][Next]_<<cid, done>>
=============================================================================
