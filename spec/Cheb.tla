------------------------------- MODULE Cheb -------------------------------
(* C11, exactness clause: the closed-form value of                          *)
(*     I(cell; a) = Int_cell  prod_d T_{a_d}(2 x_d - 1) dx                   *)
(* over the reference cell, T_n the Chebyshev polynomials.  These products  *)
(* are well conditioned (a rule that is exact only to degree q-1 misses the *)
(* degree-q members by 0.05..0.2, measured), unlike monomials.              *)
(*   hypercube: prod_d c(a_d),  c(n) = 0 (n odd), 1 / (1 - n^2) (n even)     *)
(*   simplex:   expand T_n(2x-1) = sum_m t[n][m] x^m  and use                *)
(*              Int x^i y^j z^l = i! j! l! / (i + j + l + dim)!              *)
(* TLC evaluates it for the exponent vectors in CHEB_FILE as long as the    *)
(* integers fit 32 bits (small degrees); the harness evaluates the *same*   *)
(* formulas in unbounded integers for all degrees and must agree with TLC   *)
(* wherever TLC has a value (cross-check = machinery assertion).            *)
EXTENDS Rational, Json, IOUtils, TLC

Jobs == JsonDeserialize(IOEnv.CHEB_FILE)      \* [ [cell |-> , a |-> <<..>>], ... ]

RECURSIVE Fact(_)
Fact(n) == IF n <= 1 THEN 1 ELSE n * Fact(n - 1)
RECURSIVE Binom(_, _)
Binom(n, k) == IF k = 0 \/ k = n THEN 1 ELSE Binom(n - 1, k - 1) + Binom(n - 1, k)
RECURSIVE Pow(_, _)
Pow(b, e) == IF e = 0 THEN 1 ELSE b * Pow(b, e - 1)

\* coefficients (index 0..n) of T_n(s) in powers of s
RECURSIVE ChebS(_)
ChebS(n) ==
  IF n = 0 THEN [m \in 0..0 |-> 1]
  ELSE IF n = 1 THEN [m \in 0..1 |-> IF m = 1 THEN 1 ELSE 0]
  ELSE LET p == ChebS(n - 1)  pp == ChebS(n - 2)
       IN [m \in 0..n |-> (IF m >= 1 THEN 2 * p[m - 1] ELSE 0) - (IF m <= n - 2 THEN pp[m] ELSE 0)]

\* coefficients of T_n(2x - 1) in powers of x:  s^k = sum_m C(k,m) 2^m (-1)^(k-m) x^m
ChebX(n) ==
  LET cs == ChebS(n)
  IN [m \in 0..n |->
        LET RECURSIVE Acc(_)
            Acc(k) == IF k < m THEN 0
                      ELSE Acc(k - 1) + cs[k] * Binom(k, m) * Pow(2, m) * (IF (k - m) % 2 = 0 THEN 1 ELSE -1)
        IN Acc(n)]

Cube1(n) == IF n % 2 = 1 THEN Zero ELSE Norm(1, 1 - n * n)

SimplexMono(e) ==      \* e: sequence of exponents; Int over the reference simplex of prod x_d^e_d
  LET d == Len(e)
      RECURSIVE Num(_)
      Num(k) == IF k = 0 THEN One ELSE RMul(Num(k - 1), RInt(Fact(e[k])))
      RECURSIVE Tot(_)
      Tot(k) == IF k = 0 THEN 0 ELSE Tot(k - 1) + e[k]
      \* (tot + d)! built as a product of rationals so that cancellation happens early
      RECURSIVE Den(_, _)
      Den(acc, k) == IF k = 0 THEN acc ELSE Den(RDiv(acc, RInt(k)), k - 1)
  IN Den(Num(d), Tot(d) + d)

Value(job) ==
  LET a == job.a  d == Len(a)
  IN IF job.cell \in {"interval", "quadrilateral", "hexahedron"}
     THEN LET RECURSIVE P(_)
              P(k) == IF k = 0 THEN One ELSE RMul(P(k - 1), Cube1(a[k]))
          IN P(d)
     ELSE LET cx == [k \in 1..d |-> ChebX(a[k])]
              RECURSIVE S(_, _)       \* S(k, e): sum over monomial exponents of directions k..d, e = exponents chosen so far
              S(k, e) == IF k > d THEN SimplexMono(e)
                         ELSE LET RECURSIVE A(_)
                                  A(m) == IF m < 0 THEN Zero
                                          ELSE RAdd(A(m - 1), RMul(RInt(cx[k][m]), S(k + 1, Append(e, m))))
                              IN A(a[k])
          IN S(1, <<>>)

VARIABLES j, done
Init == j \in 1..Len(Jobs) /\ done = FALSE
Next == ~done /\ done' = TRUE /\ j' = j /\ PrintT(<<"CHEB", j, Value(Jobs[j])>>)
Spec == Init /\ [][Next]_<<j, done>>
=============================================================================
