----------------------------- MODULE RuleCheck -----------------------------
(* The exact rational quadrature rules the harness feeds to Fem.tla as the   *)
(* oracle's own rule (harness/ratrules.py, and the low-degree basix rules it *)
(* reconstructs as rationals) are themselves checked here: a rule of degree  *)
(* d must integrate every monomial of total degree <= d (simplices) / of     *)
(* degree <= d in each variable (hypercubes) exactly over the reference      *)
(* cell.  A rule that fails is a machinery failure, never a verdict.         *)
EXTENDS Rational, Json, IOUtils, TLC, FiniteSets

Jobs == JsonDeserialize(IOEnv.RULE_FILE)     \* [ [cell, deg, pts, wts], ... ]

RECURSIVE Fact(_)
Fact(n) == IF n <= 1 THEN 1 ELSE n * Fact(n - 1)

Simplex(cell) == cell \in {"interval", "triangle", "tetrahedron"}
Dim(cell) == CASE cell = "interval" -> 1 [] cell \in {"triangle", "quadrilateral"} -> 2 [] OTHER -> 3

Exponents(cell, deg) ==
  LET d == Dim(cell)
      all == [1..d -> 0..deg]
  IN IF Simplex(cell) THEN {e \in all : (LET RECURSIVE S(_) S(k) == IF k = 0 THEN 0 ELSE S(k - 1) + e[k] IN S(d)) <= deg}
     ELSE all

Exact(cell, e) ==
  LET d == Dim(cell)
  IN IF Simplex(cell)
     THEN LET RECURSIVE Num(_)
              Num(k) == IF k = 0 THEN One ELSE RMul(Num(k - 1), RInt(Fact(e[k])))
              RECURSIVE Tot(_)
              Tot(k) == IF k = 0 THEN 0 ELSE Tot(k - 1) + e[k]
              RECURSIVE Den(_, _)
              Den(acc, k) == IF k = 0 THEN acc ELSE Den(RDiv(acc, RInt(k)), k - 1)
          IN Den(Num(d), Tot(d) + d)
     ELSE LET RECURSIVE P(_)
              P(k) == IF k = 0 THEN One ELSE RMul(P(k - 1), <<1, e[k] + 1>>)
          IN P(d)

Quad(job, e) ==
  LET d == Dim(job.cell)
      Term(q) == LET RECURSIVE M(_)
                     M(k) == IF k = 0 THEN One ELSE RMul(M(k - 1), RPow(<<job.pts[q][k][1], job.pts[q][k][2]>>, e[k]))
                 IN RMul(<<job.wts[q][1], job.wts[q][2]>>, M(d))
  IN RSumTo(Term, Len(job.wts))

Good(job) == \A e \in Exponents(job.cell, job.deg) : Quad(job, e) = Exact(job.cell, e)

VARIABLES j, done
Init == j \in 1..Len(Jobs) /\ done = FALSE
Next == ~done /\ done' = TRUE /\ j' = j /\ PrintT(<<"RULE", j, Good(Jobs[j])>>)
Spec == Init /\ [][Next]_<<j, done>>
=============================================================================
