---------------------------- MODULE OptionsJudge ----------------------------
(***************************************************************************)
(* Binding of Options.tla to real `python -m ffcx` runs.                   *)
(*                                                                         *)
(* Input: CASE_FILE (json) = [ {id, cfg, obs}, ... ] written by            *)
(* harness/s3.py.  cfg[o] = [cli, pwd, user] as in Options!Assignments;    *)
(* the harness wrote the two json files / built the command line from it   *)
(* and ran a fresh compiler process.  obs.generated: the run succeeded;    *)
(* obs.banner[o]: the option value recorded in the banner of the generated *)
(* file; obs.behaviour[o]: the value the generated code exhibits           *)
(* (scalar type of the kernel signature, tensor-factor loops, rank of the  *)
(* bilinear form, file suffix, exact/clamped tensor of the compiled and    *)
(* called kernel - see Options!Witness), "n/a" where there is no witness.  *)
(*   <<"OK", id>>   |   <<"VIOL", id, option, witness, expected, observed>>*)
(***************************************************************************)
EXTENDS Options, Json, IOUtils

Cases == JsonDeserialize(IOEnv.CASE_FILE)

VARIABLE i
JInit == i = 1 /\ cfg = Cases[1].cfg
JNext == i < Len(Cases) /\ i' = i + 1 /\ cfg' = Cases[i + 1].cfg
JSpec == JInit /\ [][JNext]_<<i, cfg>>

OptSeq == <<"scalar_type", "sum_factorization", "table_rtol", "table_atol", "epsilon", "verbosity", "part", "language">>

Bad(o) ==
  LET e == Effective(cfg, o)  ob == Cases[i].obs IN
  (IF ob.banner[o] = e THEN <<>> ELSE <<<<o, "banner", e, ob.banner[o]>>>>)
  \o (IF ob.behaviour[o] \in {"n/a", Witness(o, e)} THEN <<>> ELSE <<<<o, "behaviour", Witness(o, e), ob.behaviour[o]>>>>)

Judge ==
  IF ~Cases[i].obs.generated THEN PrintT(<<"VIOL", Cases[i].id, "(all)", "generated", "TRUE", "FALSE">>)
  ELSE LET RECURSIVE All(_)
           All(k) == IF k > Len(OptSeq) THEN <<>> ELSE Bad(OptSeq[k]) \o All(k + 1)
           M == All(1) IN
       IF M = <<>> THEN PrintT(<<"OK", Cases[i].id>>)
       ELSE \A k \in DOMAIN M : PrintT(<<"VIOL", Cases[i].id, M[k][1], M[k][2], M[k][3], M[k][4]>>)
=============================================================================
