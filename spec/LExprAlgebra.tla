---------------------------- MODULE LExprAlgebra ----------------------------
(***************************************************************************)
(* S6, C17 (operator-overload half): the overloaded Python operators of    *)
(* lnodes.LExpr are rewrite rules (fold zeros, ones, minus ones, double    *)
(* negation, integer literals).  This module defines                       *)
(*   - Eval: the value of an LNodes expression tree in the field of        *)
(*     rationals (gcd-normalised pairs; TLC integers are 32-bit, all       *)
(*     values here stay tiny), under an environment for its variables;     *)
(*   - RefOp: the reference meaning of  a + b, a - b, a * b, a / b, -a     *)
(*     (also for the reflected forms: `radd` etc. mean  a + b  evaluated   *)
(*     through b.__radd__(a));                                             *)
(*   - the cases TLC enumerates (operand kinds squared x operators,        *)
(*     float_product factor lists, MultiIndex shapes), dumped for the      *)
(*     harness, which builds the REAL operands, applies the REAL operator  *)
(*     and exports the REAL result;                                        *)
(*   - Judge: for every environment over {-2..2}^variables where the       *)
(*     reference is defined, Eval(result) = RefOp(Eval(a), Eval(b)); the   *)
(*     real code must raise iff the reference is undefined in EVERY        *)
(*     environment (division by a literal zero).                           *)
(*   - MultiIndex.global_index = row-major flattening, for every shape     *)
(*     with <= 4 axes of extent 1..4 and every index value.                *)
(*                                                                         *)
(* Trees: [k, s, a, n, d]  k \in {"Lit" (value n/d), "Var" (name s),      *)
(*        "Neg","Add","Sub","Mul","Div","Sum","Product"}                   *)
(***************************************************************************)
EXTENDS Integers, Sequences, FiniteSets, TLC, Json, IOUtils, SequencesExt

---------------------------------------------------------------------------
\* rationals

RECURSIVE Gcd(_, _)
Gcd(a, b) == IF b = 0 THEN a ELSE Gcd(b, a % b)
Abs(x) == IF x < 0 THEN -x ELSE x

UNDEF == [ok |-> FALSE, n |-> 0, d |-> 1]
Q(n, d) ==            \* d # 0
  LET g == Gcd(Abs(n), Abs(d))
      s == IF d < 0 THEN -1 ELSE 1 IN
  [ok |-> TRUE, n |-> (s * n) \div g, d |-> (s * d) \div g]

QAdd(x, y) == IF x.ok /\ y.ok THEN Q(x.n * y.d + y.n * x.d, x.d * y.d) ELSE UNDEF
QNeg(x) == IF x.ok THEN Q(-x.n, x.d) ELSE UNDEF
QSub(x, y) == QAdd(x, QNeg(y))
QMul(x, y) == IF x.ok /\ y.ok THEN Q(x.n * y.n, x.d * y.d) ELSE UNDEF
QDiv(x, y) == IF x.ok /\ y.ok /\ y.n # 0 THEN Q(x.n * y.d, x.d * y.n) ELSE UNDEF

---------------------------------------------------------------------------
\* value of a tree

RECURSIVE Eval(_, _), FoldQ(_, _, _, _)
FoldQ(op, ts, i, env) ==
  IF i = 1 THEN Eval(ts[1], env)
  ELSE IF op = "+" THEN QAdd(FoldQ(op, ts, i - 1, env), Eval(ts[i], env))
  ELSE QMul(FoldQ(op, ts, i - 1, env), Eval(ts[i], env))

Eval(t, env) ==
  CASE t.k = "Lit" -> Q(t.n, t.d)
    [] t.k = "Var" -> Q(env[t.s], 1)
    [] t.k = "Neg" -> QNeg(Eval(t.a[1], env))
    [] t.k = "Add" -> QAdd(Eval(t.a[1], env), Eval(t.a[2], env))
    [] t.k = "Sub" -> QSub(Eval(t.a[1], env), Eval(t.a[2], env))
    [] t.k = "Mul" -> QMul(Eval(t.a[1], env), Eval(t.a[2], env))
    [] t.k = "Div" -> QDiv(Eval(t.a[1], env), Eval(t.a[2], env))
    [] t.k = "Sum" -> IF t.a = <<>> THEN UNDEF ELSE FoldQ("+", t.a, Len(t.a), env)
    [] t.k = "Product" -> IF t.a = <<>> THEN UNDEF ELSE FoldQ("*", t.a, Len(t.a), env)
    [] OTHER -> UNDEF

RECURSIVE VarsOf(_)
VarsOf(t) == IF t.k = "Var" THEN {t.s} ELSE UNION {VarsOf(t.a[i]) : i \in 1..Len(t.a)}

\* reference meaning of the Python operators (reflected forms have the same meaning: `radd` is a + b)
RefOp(op, x, y) ==
  CASE op \in {"add", "radd"} -> QAdd(x, y)
    [] op \in {"sub", "rsub"} -> QSub(x, y)
    [] op \in {"mul", "rmul"} -> QMul(x, y)
    [] op \in {"div", "rdiv"} -> QDiv(x, y)
    [] op = "neg" -> QNeg(x)

---------------------------------------------------------------------------
\* enumerated cases

LNodeKinds == {"LF0", "LF1", "LFm1", "LF2.5", "LFm2.5", "LI0", "LI1", "LIm1", "LI3", "LIm3",
               "Sym", "NegSym", "NegNegSym", "Sum", "Product", "ArrayAccess"}
PyKinds == {"PI0", "PI1", "PIm1", "PI3", "PIm3", "PF0", "PF1", "PFm1", "PF2.5", "PFm2.5"}
Kinds == LNodeKinds \cup PyKinds

\* a OP b through a.__OP__(b) needs an LNodes left operand (Python picks b.__rOP__(a) when a is a plain number);
\* explicit reflected calls b.__rOP__(a) need an LNodes right operand
OpCases ==
  {[op |-> o, a |-> x, b |-> y] : <<o, x, y>> \in {"add", "sub", "mul", "div"} \X LNodeKinds \X Kinds}
  \cup {[op |-> o, a |-> x, b |-> y] : <<o, x, y>> \in {"radd", "rsub", "rmul", "rdiv"} \X Kinds \X LNodeKinds}
  \cup {[op |-> "neg", a |-> x, b |-> "none"] : x \in LNodeKinds}

FactorKinds == {"LF1", "LI1", "LF2.5", "LFm1", "LF0", "Sym", "NegSym", "Product", "ArrayAccess"}
ProductCases == {<<>>} \cup {<<x>> : x \in FactorKinds} \cup (FactorKinds \X FactorKinds)
                \cup {<<x, "LF1", y>> : <<x, y>> \in FactorKinds \X FactorKinds}

\* MultiIndex: sizes, and which axis (0 = none) carries a literal int index instead of a symbol
Shapes == {<<>>} \cup UNION {[1..n -> 1..4] : n \in 1..4}
MICases == {[sizes |-> sh, lit |-> l] : <<sh, l>> \in {<<s, j>> \in Shapes \X (0..4) : j <= Len(s)}}

ASSUME "S6_ALG_OUT" \in DOMAIN IOEnv =>
  JsonSerialize(IOEnv.S6_ALG_OUT, [ops |-> SetToSeq(OpCases), products |-> SetToSeq(ProductCases), mi |-> SetToSeq(MICases)])

---------------------------------------------------------------------------
\* judging the real results.  IOEnv.S6_ALG_CASES: sequence of
\*   [id, kind "op",      op, a, b (trees; b = a for neg), raised (BOOLEAN), res (tree, or a when raised)]
\*   [id, kind "product", fs (sequence of trees), res]
\*   [id, kind "mi",      sizes, idx (sequence of trees: Var or Lit), res]

Results == IF "S6_ALG_CASES" \in DOMAIN IOEnv THEN JsonDeserialize(IOEnv.S6_ALG_CASES) ELSE <<>>

Envs(vars) == [vars -> -2..2]

OpOK(c) ==
  LET vars == VarsOf(c.a) \cup VarsOf(c.b) \cup VarsOf(c.res)
      ref(env) == RefOp(c.op, Eval(c.a, env), Eval(c.b, env))
      neverDefined == \A env \in Envs(vars) : ~ref(env).ok IN
  IF c.raised THEN neverDefined
  ELSE /\ ~neverDefined
       /\ \A env \in Envs(vars) : ref(env).ok => Eval(c.res, env) = ref(env)

RECURSIVE ProdRef(_, _, _)
ProdRef(fs, i, env) == IF i = 0 THEN Q(1, 1) ELSE QMul(ProdRef(fs, i - 1, env), Eval(fs[i], env))
ProductOK(c) ==
  LET vars == UNION {VarsOf(c.fs[i]) : i \in 1..Len(c.fs)} \cup VarsOf(c.res) IN
  \A env \in Envs(vars) : Eval(c.res, env) = ProdRef(c.fs, Len(c.fs), env)

\* row-major flattening: ((i1 * n2 + i2) * n3 + i3) ...
RECURSIVE RowMajor(_, _, _)
RowMajor(sizes, iv, k) == IF k = 0 THEN 0 ELSE RowMajor(sizes, iv, k - 1) * sizes[k] + iv[k]
MIOK(c) ==
  LET n == Len(c.sizes)
      names == {c.idx[k].s : k \in {j \in 1..n : c.idx[j].k = "Var"}}
      envs == {e \in [names -> 0..3] : \A k \in 1..n : c.idx[k].k = "Var" => e[c.idx[k].s] < c.sizes[k]}
      iv(e) == [k \in 1..n |-> IF c.idx[k].k = "Var" THEN e[c.idx[k].s] ELSE c.idx[k].n] IN
  /\ VarsOf(c.res) \subseteq names
  /\ \A e \in envs : Eval(c.res, e) = Q(RowMajor(c.sizes, iv(e), n), 1)

\* ufl_to_lnodes simplifies the complex-part operators of a REAL-typed operand (a value without imaginary part):
\*   conj x = x,  real x = x,  imag x = 0.      [id, kind "cpart", op, a (operand tree), res (tree)]
\* (for other operands the result is an opaque function node, which is not judged here)
CPartOps == {"conj", "real", "imag"}
CPartOK(c) ==
  LET vars == VarsOf(c.a) \cup VarsOf(c.res)
      ref(x) == IF c.op = "imag" THEN Q(0, 1) ELSE x IN
  /\ c.op \in CPartOps
  /\ \A env \in Envs(vars) : Eval(c.a, env).ok => Eval(c.res, env) = ref(Eval(c.a, env))

VARIABLE ri
AInit == ri \in 1..Len(Results)
ANext == UNCHANGED ri
ASpec == AInit /\ [][ANext]_ri

Judge ==
  LET c == Results[ri] IN
  (CASE c.kind = "op" -> OpOK(c) [] c.kind = "product" -> ProductOK(c) [] c.kind = "mi" -> MIOK(c)
     [] c.kind = "cpart" -> CPartOK(c) [] OTHER -> FALSE)
  \/ PrintT(<<"VIOL", c.id, c.kind>>)
=============================================================================
