------------------------------ MODULE TableOpt ------------------------------
(***************************************************************************)
(* Engine S7, part 2: the DESIGN MODEL of                                  *)
(*   ffcx/ir/elementtables.py::build_optimized_tables                      *)
(*   + the index rule of codegeneration/access.py::table_access and        *)
(*     codegeneration/symbols.py::element_table.                           *)
(*                                                                         *)
(* One behaviour = one call of build_optimized_tables on a short list of   *)
(* raw tables T[perm][entity][point][dof] (one per modified terminal),     *)
(* followed by the access requests.  One action per pipeline step, written *)
(* the way the code does it (TableSpace.tla holds the operators):          *)
(*   Clamp           clamp_table_small_numbers with the CONFIGURED         *)
(*                   tolerances (options table_rtol / table_atol)          *)
(*   Classify*       analyse_table_type with the DEFAULT tolerances; the   *)
(*                   piecewise / uniform / quadrature tests look at        *)
(*                   permutation slice 0 only, zeros / ones at everything  *)
(*   ReducePoints    piecewise types keep point slot 0                     *)
(*   ReduceEntities  uniform types keep entity slot 0                      *)
(*   ReducePerms     is_permuted_table on the REDUCED table; one slot kept *)
(*                   when it says no                                       *)
(*   Dedupe*         first existing table (dict order) that equal_tables;  *)
(*                   its name AND values are used                          *)
(*   Access          entity := 0 if uniform else the entity index; point   *)
(*                   := 0 if piecewise; permutation slot :=                *)
(*                   quadrature_permutation if is_permuted else 0          *)
(*                                                                         *)
(*   (Start          picks the description of this behaviour; not a step   *)
(*                   of the code)                                          *)
(*                                                                         *)
(* Invariants (one INVARIANT line each in the configuration):              *)
(*   ClampSound      exactly the entries within the CONFIGURED tolerance   *)
(*                   of -1, 0, 1 were replaced                             *)
(*   TypeSound       the ttype is what the clamped table IS (declarative   *)
(*                   TableSpace!Means, every permutation slice)            *)
(*   ShapeConsistent the index the generators form is inside the reduced   *)
(*                   shape                                                 *)
(*   AccessFaithful  the value read is the clamped raw value up to the     *)
(*                   tolerance-sized substitutions that really happened    *)
(*                   (TableSpace!Budget; 0 of them = exactly equal)        *)
(*   DedupeWithinTol the table used is the first existing one of the same  *)
(*                   shape within tolerance, else the table itself         *)
(*   PermMinimal     a permutation axis is kept iff the kept slots differ  *)
(*                                                                         *)
(* Universe: Dims = <<P, E, Q, D>> (2 x 2 x 2 x 2) over the structured     *)
(* generators of TableSpace (base pattern + one perturbation + second      *)
(* table).  Measured: "quick" 46 372 distinct states (3 947 distinct table  *)
(* lists, 6 405 tables processed, 31 576 requests), "thorough" 989 834      *)
(* distinct states (74 374 table lists, 140 153 tables); every action      *)
(* taken, every ttype reached (harness/s7.py checks the coverage).  The    *)
(* universe is restricted to what the model claims to decide:              *)
(*   EdgeFree    no comparison on a knife edge of a tolerance              *)
(*   Admissible  slice 0 is representative (true for real elements: slice  *)
(*               p is the same functions at permuted points).  With        *)
(*               AssumeCoherent = FALSE TLC refutes TypeSound and          *)
(*               AccessFaithful: the code's slice-0-only analysis RELIES   *)
(*               on it.                                                    *)
(* Bug # "none" switches on one deviation; TLC must refute the invariant   *)
(* named in harness/s7.py::MODEL_BUGS (design-level negative controls).    *)
(***************************************************************************)
EXTENDS TableSpace

CONSTANTS Dims,            \* <<P, E, Q, D>>
          ClassA, ClassR,  \* the tolerance pair used by classification / is_permuted / dedupe (defaults: 10, 2500)
          ClampTolNames,   \* the configured clamp tolerance ranges over these names (TableSpace!TolNamed)
          Universe,        \* "quick" | "thorough": how much of the generator space
          Bug,             \* "none" | "pw_entity0" | "no_uniform_slot" | "perm_first" | "clamp_default" | "dedupe_any_shape"
          AssumeCoherent   \* TRUE: raw tables are Admissible
ClassTol == [a |-> ClassA, r |-> ClassR]
Dims2222 == <<2, 2, 2, 2>>      \* for the configuration file (Dims <- Dims2222)
Dims2322 == <<2, 3, 2, 2>>

VARIABLES gen,       \* the base pattern chosen by Init
          raws,      \* the raw tables of this call (sequence, one per modified terminal)
          ctolName,  \* the configured clamp tolerance (name)
          i,         \* table being processed
          pc,        \* stage
          tbl,       \* working table (clamped, then reduced)
          clamped,   \* the clamped table of table i
          ttype, isperm,
          reg,       \* register of existing tables: sequence of [name, tbl]
          out,       \* finished UniqueTableReferenceT projections
          req, got   \* the access requests <<table, p, e, q>> and what the index rule reads for each (slot, row of dof values)
vars == <<gen, raws, ctolName, i, pc, tbl, clamped, ttype, isperm, reg, out, req, got>>

---------------------------------------------------------------------------
Subsets(S) == SUBSET S
UBases ==
  LET simple == {[kind |-> k, S |-> {}, m0 |-> 0] : k \in {"zeros", "ones", "nearzeros", "nearones"}}
      ident == {[kind |-> "identity", S |-> s, m0 |-> 0] : s \in Subsets({"perm", "ent"})}
      pat == {[kind |-> "pattern", S |-> s, m0 |-> m] : s \in Subsets(Axes), m \in (IF Universe = "quick" THEN {0} ELSE {-4, 0, 3})}
  IN simple \cup ident \cup pat
UPerts ==
  LET cls == IF Universe = "quick" THEN {"in", "out", "ramp"} ELSE PertClasses \ {"none"}
      pds == {0}                                   \* the dof axis is never reduced: one dof position is enough
      all == {[cls |-> c, pp |-> pp, pe |-> pe, pq |-> pq, pd |-> pd, ext |-> x] :
                c \in cls, pp \in {0, Dims[1] - 1}, pe \in {0, Dims[2] - 1}, pq \in {0, Dims[3] - 1}, pd \in pds, x \in PertExts}
  IN {[cls |-> "none", pp |-> 0, pe |-> 0, pq |-> 0, pd |-> 0, ext |-> "entry"]} \cup {p \in all : PertOK(p, Dims)}
USeconds == IF Universe = "quick" THEN {"none", "within", "straddle"} ELSE Seconds
UOrders == IF Universe = "quick" THEN {"12"} ELSE {"12", "21"}        \* "21": the second table is processed first

TableOK(T, tn) ==
  LET C == ClampT(T, TolNamed(tn))
  IN /\ \A ix \in Idx(T) : InRange(At(T, ix))
     /\ EdgeFreeClamp(T, TolNamed(tn)) /\ EdgeFreeClamp(T, ClassTol) /\ EdgeFreeClass(C, ClassTol)
     /\ (AssumeCoherent => Admissible(C, ClassTol))

\* Init only picks the base pattern and the clamp tolerance; Start picks the rest of the description.  (TLC computes
\* initial states on one thread; successor states in parallel.)  Only tables inside the model's range are processed.
Init ==
  \E b \in UBases, tn \in ClampTolNames :
       /\ BaseOK(b, Dims)
       /\ gen = b /\ ctolName = tn /\ raws = <<>>
       /\ i = 1 /\ pc = "start" /\ tbl = <<>> /\ clamped = <<>> /\ ttype = "none" /\ isperm = FALSE
       /\ reg = <<>> /\ out = <<>> /\ req = {} /\ got = <<>>

\* stage order; the "perm_first" deviation decides is_permuted before the piecewise / uniform reductions
AfterClassify == IF Bug = "perm_first" THEN "redperm" ELSE "redpts"
AfterRedEnt == IF Bug = "perm_first" THEN "dedupe" ELSE "redperm"
AfterRedPerm == IF Bug = "perm_first" THEN "redpts" ELSE "dedupe"

Start ==
  /\ pc = "start"
  /\ \E pt \in UPerts, s \in USeconds, o \in UOrders :
       LET T1 == PrimaryTab(Dims, gen, pt)
           T2 == SecondTab(Dims, T1, s)
           rs == IF s = "none" THEN <<T1>> ELSE IF o = "12" THEN <<T1, T2>> ELSE <<T2, T1>>
       IN /\ (s \in {"none", "zeros", "const", "different"} => o = "12")
          /\ \A k \in 1..Len(rs) : TableOK(rs[k], ctolName)
          /\ raws' = rs /\ tbl' = rs[1] /\ clamped' = rs[1]
  /\ pc' = "clamp"
  /\ UNCHANGED <<gen, ctolName, i, ttype, isperm, reg, out, req, got>>

Clamp ==
  /\ pc = "clamp"
  /\ LET C == ClampT(raws[i], IF Bug = "clamp_default" THEN ClassTol ELSE TolNamed(ctolName))
     IN tbl' = C /\ clamped' = C
  /\ pc' = "classify"
  /\ UNCHANGED <<gen, raws, ctolName, i, ttype, isperm, reg, out, req, got>>

ClassifyAs(t) ==
  /\ pc = "classify"
  /\ Classify(tbl, ClassTol, Bug) = t
  /\ ttype' = t /\ pc' = AfterClassify
  /\ UNCHANGED <<gen, raws, ctolName, i, tbl, clamped, isperm, reg, out, req, got>>
ClassifyZeros == pc = "classify" /\ ClassifyAs("zeros")
ClassifyOnes == pc = "classify" /\ ClassifyAs("ones")
ClassifyQuadrature == pc = "classify" /\ ClassifyAs("quadrature")
ClassifyFixed == pc = "classify" /\ ClassifyAs("fixed")
ClassifyPiecewise == pc = "classify" /\ ClassifyAs("piecewise")
ClassifyUniform == pc = "classify" /\ ClassifyAs("uniform")
ClassifyVarying == pc = "classify" /\ ClassifyAs("varying")
Classify_ == ClassifyZeros \/ ClassifyOnes \/ ClassifyQuadrature \/ ClassifyFixed \/ ClassifyPiecewise
             \/ ClassifyUniform \/ ClassifyVarying

ReducePoints ==
  /\ pc = "redpts"
  /\ tbl' = IF ttype \in PiecewiseTypes THEN RedPts(tbl) ELSE tbl
  /\ pc' = "redent"
  /\ UNCHANGED <<gen, raws, ctolName, i, clamped, ttype, isperm, reg, out, req, got>>

ReduceEntities ==
  /\ pc = "redent"
  /\ tbl' = IF ttype \in UniformTypes THEN RedEnt(tbl) ELSE tbl
  /\ pc' = AfterRedEnt
  /\ UNCHANGED <<gen, raws, ctolName, i, clamped, ttype, isperm, reg, out, req, got>>

ReducePermsTo(ip) ==
  /\ pc = "redperm"
  /\ IsPermuted(tbl, ClassTol) = ip
  /\ isperm' = ip
  /\ tbl' = IF ip THEN tbl ELSE RedPerm(tbl)
  /\ pc' = AfterRedPerm
  /\ UNCHANGED <<gen, raws, ctolName, i, clamped, ttype, reg, out, req, got>>
KeepPerms == pc = "redperm" /\ ReducePermsTo(TRUE)
DropPerms == pc = "redperm" /\ ReducePermsTo(FALSE)
ReducePerms == KeepPerms \/ DropPerms

DedupeTo(found) ==
  /\ pc = "dedupe"
  /\ LET h == FirstHit(reg, tbl, ClassTol, Bug)
         nm == IF h = 0 THEN i ELSE reg[h].name
         res == [clamped |-> clamped, ttype |-> ttype, isperm |-> isperm, red |-> tbl, hit |-> h, name |-> nm,
                 final |-> IF h = 0 THEN tbl ELSE reg[h].tbl, regn |-> Len(reg)]
     IN /\ (h # 0) = found
        /\ reg' = IF h = 0 THEN Append(reg, [name |-> i, tbl |-> tbl]) ELSE reg
        /\ out' = Append(out, res)
  /\ IF i < Len(raws)
     THEN i' = i + 1 /\ pc' = "clamp" /\ tbl' = raws[i + 1] /\ clamped' = raws[i + 1] /\ ttype' = "none" /\ isperm' = FALSE
     ELSE i' = i /\ pc' = "access" /\ UNCHANGED <<tbl, clamped, ttype, isperm>>
  /\ UNCHANGED <<gen, raws, ctolName, req, got>>
DedupeHit == pc = "dedupe" /\ DedupeTo(TRUE)
DedupeNew == pc = "dedupe" /\ DedupeTo(FALSE)
Dedupe == DedupeHit \/ DedupeNew

\* the generators' index rule, for EVERY admissible request <<table, permutation, entity, point>> at once (all dofs
\* of the row): one step, so that the requests do not multiply the state space
Requests ==
  (IF Universe = "quick" THEN {Len(raws)} ELSE 1..Len(raws)) \X (1..Dims[1]) \X (1..Dims[2]) \X (1..Dims[3])
Access ==
  /\ pc = "access"
  /\ req' = Requests
  /\ got' = [r \in Requests |->
              LET res == out[r[1]]
                  s == Slot(res, r[2], r[3], r[4], 1, Bug)
                  ok == InShape(res.final, s)
              IN [slot |-> s, inshape |-> ok,
                  row |-> [d \in 1..Dims[4] |->
                            IF res.ttype = "zeros" THEN Zero ELSE IF res.ttype = "ones" THEN One
                            ELSE IF ok THEN At(res.final, <<s[1], s[2], s[3], d>>) ELSE Zero]]]
  /\ pc' = "done"
  /\ UNCHANGED <<gen, raws, ctolName, i, tbl, clamped, ttype, isperm, reg, out>>

Next == Start \/ Clamp \/ Classify_ \/ ReducePoints \/ ReduceEntities \/ ReducePerms \/ Dedupe \/ Access
Spec == Init /\ [][Next]_vars

---------------------------------------------------------------------------
(* invariants.  Each is evaluated in the state right after the step it speaks about (the variables it reads do  *)
(* not change until the next table is started), which keeps the exhaustive run cheap.                           *)
ClampTargets == {MinusOne, Zero, One}
\* the clamped table is the raw one with exactly the entries within the CONFIGURED tolerance of -1, 0, 1 replaced
ClampSound ==
  pc = "classify" =>
    \A ix \in Idx(raws[i]) :
      LET r == At(raws[i], ix)
          c == At(clamped, ix)
      IN IF \E n \in ClampTargets : Close(r, n, TolNamed(ctolName))
         THEN c \in ClampTargets /\ Close(r, c, TolNamed(ctolName))
         ELSE c = r

\* the ttype really describes the clamped table (every permutation slice)
TypeSound == (pc = AfterClassify /\ ttype # "none") => Means(ttype, clamped, ClassTol)

\* the index the code forms is inside the reduced shape
ShapeConsistent == pc = "done" => \A r \in req : got[r].inshape

\* the value read through the reduced table is the clamped raw value up to the tolerance-sized substitutions that
\* really happened (exactly equal when none did)
AccessFaithful ==
  pc = "done" =>
    \A r \in req :
      got[r].inshape =>
        LET res == out[r[1]]
        IN \A d \in 1..Dims[4] :
             Within(got[r].row[d], At(res.clamped, <<r[2], r[3], r[4], d>>), Budget(res, res.clamped), ClassTol)

\* dedupe: the table used is the FIRST existing one of the same shape within tolerance, else the table itself
JustDeduped == pc \in {"clamp", "access"} /\ Len(out) >= 1
DedupeWithinTol ==
  JustDeduped =>
    LET res == out[Len(out)]
    IN IF res.hit # 0
       THEN /\ res.hit <= res.regn
            /\ EqualTables(res.red, reg[res.hit].tbl, ClassTol)
            /\ \A j \in 1..(res.hit - 1) : ~EqualTables(res.red, reg[j].tbl, ClassTol)
            /\ res.final = reg[res.hit].tbl /\ res.name = reg[res.hit].name
       ELSE /\ \A j \in 1..res.regn : ~EqualTables(res.red, reg[j].tbl, ClassTol)
            /\ res.final = res.red

\* a permutation axis is kept exactly when the kept slots differ between permutations
PermMinimal ==
  JustDeduped =>
    LET res == out[Len(out)]
    IN /\ res.isperm = (NP(res.red) > 1)
       /\ (res.isperm => IsPermuted(res.red, ClassTol))

\* reachability targets for the runner (negated: TLC finds a witness)
TypeOK ==
  /\ pc \in {"start", "clamp", "classify", "redpts", "redent", "redperm", "dedupe", "access", "done"}
  /\ ttype \in TableTypes \cup {"none"} /\ isperm \in BOOLEAN
=============================================================================
