--------------------------- MODULE HistoryTrace ---------------------------
(***************************************************************************)
(* Binding of History.tla to executions of the real code generator/namer. *)
(*                                                                         *)
(* Input: HIST_FILE (json) = [event, event, ...] - one behaviour of        *)
(* History: every process history that was executed (each in a fresh real *)
(* interpreter started with PYTHONHASHSEED = its Spawn's seed), written by *)
(* harness/histdrv/worker.py, in the order of the behaviour.  An event     *)
(* carries the action (Spawn [seed, conf = the option files the process    *)
(* is given], CreateJunk, Generate, Name, Exit), the process, and the      *)
(* values the real code produced:                                          *)
(*   Generate: sigkey (UFL signatures + options), sha (of the text), made  *)
(*   Name:     reqkey, modname, objnames, defs, idc, hasclass, klass, made *)
(* and, for every event, cnt = UFL's real global counters afterwards.      *)
(*                                                                         *)
(* Each line is consumed by the History action it names with the recorded  *)
(* values as parameters; the write-once registries of History accept or    *)
(* reject them.  The hidden state History keeps for the process (counters) *)
(* must project onto the recorded counters - otherwise the driver did not  *)
(* do what the history says ("DRIFT", a harness failure, not a verdict).   *)
(*                                                                         *)
(* Verdicts are printed, never raised, so one TLC run judges everything:   *)
(*   <<"AT", l>>                    l-1 lines consumed                     *)
(*   <<"VIOL", l, name, first>>     line l rejected by the registry of     *)
(*                                  property `name`; `first` = the line    *)
(*                                  that made the binding it clashes with  *)
(*   <<"DRIFT", l>>                 counters after line l differ           *)
(***************************************************************************)
EXTENDS History, Json, IOUtils

\* The file is parsed once, before the search starts, into TLC register 1 (a definition
\* Events == JsonDeserialize(...) would be re-evaluated - re-parsed - at every reference).
ASSUME TLCSet(1, JsonDeserialize(IOEnv.HIST_FILE))
Events == TLCGet(1)

\* Proc and Seed are given in the configuration: the process ids / seeds that occur in the file
\* (Spawn checks s \in Seed; a process outside Proc has no alive[p], so its line is not consumed)

VARIABLES l, wtext, wname, wklass      \* next line; who bound each registry key first

tvars == <<vars, l, wtext, wname, wklass>>

First(w, k, line) == IF k \in DOMAIN w THEN w ELSE (k :> line) @@ w

TInit == Init /\ l = 1 /\ wtext = Empty /\ wname = Empty /\ wklass = Empty

TNext ==
  /\ l <= Len(Events)
  /\ LET e == Events[l]  p == e.proc  a == e.act IN
     /\ CASE a = "Spawn"      -> Spawn(p, e.seed, e.conf)
          [] a = "Exit"       -> Exit(p)
          [] a = "CreateJunk" -> CreateJunk(p, e.kind, e.made)
          [] a = "Generate"   -> Generate(p, e.sigkey, e.sha, e.made, e)
          [] a = "Name"       -> Name(p, e.reqkey, e.modname, e.objnames, e.defs, e.idc, e.hasclass, e.klass, e.made, e)
          [] OTHER            -> FALSE
     /\ wtext'  = IF a = "Generate" THEN First(wtext, e.sigkey, l) ELSE wtext
     /\ wname'  = IF a = "Name" THEN First(wname, e.reqkey, l) ELSE wname
     /\ wklass' = IF a = "Name" /\ e.hasclass THEN First(wklass, e.modname, l) ELSE wklass
     \* verdicts (IF, not \/: TLC would take both disjuncts of an action-level disjunction)
     /\ IF a = "Generate" /\ ~Accepts(text, e.sigkey, e.sha)
          THEN PrintT(<<"VIOL", l, "Functional", wtext[e.sigkey]>>) ELSE TRUE
     /\ IF a = "Name" /\ ~Accepts(name, e.reqkey, <<e.modname, e.objnames>>)
          THEN PrintT(<<"VIOL", l, "Stable", wname[e.reqkey]>>) ELSE TRUE
     /\ IF a = "Name" /\ e.hasclass /\ ~Accepts(klass, e.modname, e.klass)
          THEN PrintT(<<"VIOL", l, "Separating", wklass[e.modname]>>) ELSE TRUE
     /\ IF a = "Name" /\ ~(Distinct(e.objnames) /\ Distinct(e.defs))
          THEN PrintT(<<"VIOL", l, "DistinctObjects", l>>) ELSE TRUE
     /\ IF a = "Name" /\ ~(\A i \in DOMAIN e.idc : ValidIdent(e.idc[i]))
          THEN PrintT(<<"VIOL", l, "ValidIdentifiers", l>>) ELSE TRUE
     \* ... and History's own rejection sets say the same
     /\ IF a = "Generate" /\ ~Accepts(text, e.sigkey, e.sha) THEN e.sigkey \in rejText' ELSE rejText' = rejText
     /\ IF a \in {"Spawn", "Exit"} THEN TRUE
        ELSE IF cnt'[p] = [mesh |-> e.cnt.mesh, coefficient |-> e.cnt.coefficient, constant |-> e.cnt.constant]
             THEN TRUE ELSE PrintT(<<"DRIFT", l>>)
  /\ l' = l + 1

TSpec == TInit /\ [][TNext]_tvars

Judge == PrintT(<<"AT", l>>)
=============================================================================
