SPECIFICATION Spec
CONSTANTS
  Proc = {p1, p2, p3}
  Key = {k1}
  MaxPolls = 2
  MaxReq = 5
  MaxKills = 1
  MaxFails = 1
  FixedHandlers = TRUE
  FixedMarker = TRUE
  Timely = FALSE
VIEW view
INVARIANT TypeOK
INVARIANT MutualExclusion
INVARIANT HolderHasLock
INVARIANT OneBuild
INVARIANT MarkerImpliesComplete
INVARIANT LoadPointComplete
INVARIANT SameObjects
INVARIANT ReturnedLoaded
INVARIANT Reuse
INVARIANT NoHang
INVARIANT NoTimeoutWhenTimely
INVARIANT FailureReleasesLock
INVARIANT GlobalStateRestored
INVARIANT UnfaultedNeverFails
PROPERTY NoPartialLoad
PROPERTY NextBuildsAfresh
