------------------------------ MODULE CliPair ------------------------------
(***************************************************************************)
(* S3 / C20: the header/source pair written by the command-line compiler   *)
(* for one UFL file, as a relation between                                 *)
(*   - the UFL file: its stem and the exported objects (forms and          *)
(*     expressions, in order, each with the name it has in the file or ""),*)
(*   - what the header declares, what the source defines (declaration      *)
(*     scan), what the compiled object file exports (nm),                  *)
(*   - what the aliases of the loaded shared object point to, compared     *)
(*     with the JIT path on the same UFL objects.                          *)
(* A FILE CASE c (harness/s3.py, pair worker):                             *)
(*   c.stem        the file stem as a sequence of one-character strings    *)
(*   c.inv         how the compiler was invoked: [o, n, mode, d] = the     *)
(*                 -o/--outfile stem, the -n/--namespace prefix, the -d    *)
(*                 output directory ("" = not given), mode "i" (-i FILE)   *)
(*                 or "pos" (positional FILE)                              *)
(*   c.objects     <<[kind |-> "form"|"expression", name |-> STRING]>>     *)
(*   c.files       the files the run wrote, relative to the working dir    *)
(*   c.generated, c.compiles, c.links                                      *)
(*   c.declared    <<[type, name]>> extern declarations of the header      *)
(*   c.defined     <<[type, name]>> ufcx objects defined by the source     *)
(*   c.symbols     <<[name, external, kind]>> defined symbols of the .o    *)
(*   c.aliases     <<[symbol, kind, targets, same_descriptor, ulps,        *)
(*                   coefficient_names, constant_names]>>                  *)
(*                 one per alias pointer declared in the header: targets = *)
(*                 indices of the UFL objects it is bound to (form         *)
(*                 signature / expression data and kernel results equal to *)
(*                 the JIT-compiled object), ulps = largest kernel         *)
(*                 difference against the JIT path                         *)
(***************************************************************************)
EXTENDS Integers, Sequences, FiniteSets, TLC

IdentChars ==
  {"a","b","c","d","e","f","g","h","i","j","k","l","m","n","o","p","q","r","s","t","u","v","w","x","y","z",
   "A","B","C","D","E","F","G","H","I","J","K","L","M","N","O","P","Q","R","S","T","U","V","W","X","Y","Z",
   "0","1","2","3","4","5","6","7","8","9","_"}

\* prefix / output stem: every maximal run of characters that cannot be part of a
\* C identifier becomes one underscore
RECURSIVE San(_, _)
San(cs, inrun) ==
  IF cs = <<>> THEN ""
  ELSE IF Head(cs) \in IdentChars THEN Head(cs) \o San(Tail(cs), FALSE)
  ELSE IF inrun THEN San(Tail(cs), TRUE) ELSE "_" \o San(Tail(cs), TRUE)
Stem(c) == San(c.stem, FALSE)

\* Invocation variants.  -o and -n take a list (nargs='*') and would swallow a positional file
\* name, so they go with -i only (as the --help text says).
Invocations ==
  {v \in [o : {"", "kern_out", "kern.v2"}, n : {"", "my_ns"}, mode : {"i", "pos"}, d : {"", "gen"}] :
      v.mode = "pos" => (v.o = "" /\ v.n = "")}
\* -o only renames the generated files; -n only renames the objects; each defaults,
\* independently of the other, to the sanitised stem of the UFL file; -d only moves the files
OutStem(c) == IF c.inv.o # "" THEN c.inv.o ELSE Stem(c)
Prefix(c) == IF c.inv.n # "" THEN c.inv.n ELSE Stem(c)
OutDir(c) == IF c.inv.d # "" THEN c.inv.d \o "/" ELSE ""

\* form_<prefix>_<name> / expression_<prefix>_<name>; unnamed objects are numbered within their kind
KindIndex(c, k) == Cardinality({j \in 1..(k - 1) : c.objects[j].kind = c.objects[k].kind})
Alias(c, k) ==
  LET ob == c.objects[k] IN
  ob.kind \o "_" \o Prefix(c) \o "_" \o (IF ob.name = "" THEN ToString(KindIndex(c, k)) ELSE ob.name)
AliasType(kind) == IF kind = "form" THEN "ufcx_form*" ELSE "ufcx_expression*"

Range(s) == {s[k] : k \in DOMAIN s}
Declared(c) == Range(c.declared)
DefinedObjects(c) == Range(c.defined)
External(c) == {s.name : s \in {x \in Range(c.symbols) : x.external}}

\* name maps: the name the object has in the UFL file, w<j> / c<j> for unnamed ones;
\* names = <<[decl, obs]>> in the order of the compiled object
NamesOK(names, dflt) ==
  \A j \in DOMAIN names :
     names[j].obs = (IF names[j].decl = "" THEN dflt \o ToString(j - 1) ELSE names[j].decl)

MaxUlps == 4096   \* "equal to rounding": same generated body, possibly reassociated sums

\* <<rule, detail>> for every broken clause
Broken(c) ==
  LET P == Prefix(c)
      ali(k) == {a \in Range(c.aliases) : a.symbol = Alias(c, k)}
      Obj(k) ==
        IF ali(k) = {} THEN <<<<"alias_reachable", Alias(c, k)>>>>
        ELSE LET a == CHOOSE x \in ali(k) : TRUE IN
             (IF a.kind = c.objects[k].kind /\ k \in Range(a.targets) THEN <<>>
              ELSE <<<<"alias_bound_to_its_object", <<Alias(c, k), a.targets>>>>>>)
             \o (IF a.same_descriptor THEN <<>> ELSE <<<<"descriptor_equals_jit", Alias(c, k)>>>>)
             \o (IF NamesOK(a.coefficient_names, "w") /\ NamesOK(a.constant_names, "c") THEN <<>>
                 ELSE <<<<"name_maps", <<Alias(c, k), a.coefficient_names, a.constant_names>>>>>>)
             \o (IF a.ulps <= MaxUlps THEN <<>> ELSE <<<<"tensor_equals_jit", <<Alias(c, k), a.ulps>>>>>>)
             \o (IF [type |-> AliasType(c.objects[k].kind), name |-> Alias(c, k)] \in Declared(c) THEN <<>>
                 ELSE <<<<"alias_declared", Alias(c, k)>>>>)
      RECURSIVE Objs(_)
      Objs(k) == IF k > Len(c.objects) THEN <<>> ELSE Obj(k) \o Objs(k + 1)
  IN
  IF ~c.generated THEN <<<<"generated", c.files>>>>
  ELSE
     (IF Range(c.files) = {OutDir(c) \o OutStem(c) \o ".h", OutDir(c) \o OutStem(c) \o ".c"} THEN <<>>
      ELSE <<<<"files", <<OutDir(c) \o OutStem(c), c.files>>>>>>)
  \o (IF c.compiles THEN <<>> ELSE <<<<"compiles_standalone", c.cc_message>>>>)
  \o (IF ~c.compiles THEN <<>> ELSE
        \* every object declared in the header is defined (with that type) in the source and exported
        (IF Declared(c) \subseteq DefinedObjects(c) THEN <<>>
         ELSE <<<<"declared_is_defined", Declared(c) \ DefinedObjects(c)>>>>)
     \o (IF {d.name : d \in Declared(c)} \subseteq External(c) THEN <<>>
         ELSE <<<<"declared_is_external", {d.name : d \in Declared(c)} \ External(c)>>>>)
        \* every ufcx object of the source is announced by the header
     \o (IF DefinedObjects(c) \subseteq Declared(c) THEN <<>>
         ELSE <<<<"defined_is_declared", DefinedObjects(c) \ Declared(c)>>>>)
     \o (IF c.links THEN Objs(1) ELSE <<<<"links", c.cc_message>>>>))
=============================================================================
