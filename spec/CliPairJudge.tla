---------------------------- MODULE CliPairJudge ----------------------------
(* One TLC state per UFL file case; verdicts <<"OK", id>> | <<"VIOL", id, rule, detail>>. *)
EXTENDS CliPair, Json, IOUtils

Cases == JsonDeserialize(IOEnv.CASE_FILE)
VARIABLE i
JInit == i = 1
JNext == i < Len(Cases) /\ i' = i + 1
JSpec == JInit /\ [][JNext]_i

Judge ==
  LET M == Broken(Cases[i]) IN
  IF M = <<>> THEN PrintT(<<"OK", Cases[i].id>>)
  ELSE \A k \in DOMAIN M : PrintT(<<"VIOL", Cases[i].id, M[k][1], ToString(M[k][2])>>)
=============================================================================
