----------------------------- MODULE RefCell ------------------------------
(* Reference cells: vertices, facet / ridge topology, reference-entity maps, *)
(* outward reference normals.  An independent transcription of the DOLFINx  *)
(* / basix conventions (cross-checked against basix by the harness at       *)
(* set-up; drift is a machinery failure, not a verdict).                    *)
EXTENDS Rational, FiniteSets

Q(a) == <<a, 1>>
V1(a) == <<Q(a)>>
V2(a, b) == <<Q(a), Q(b)>>
V3(a, b, c) == <<Q(a), Q(b), Q(c)>>

RefVerts(cell) ==
  CASE cell = "interval"      -> <<V1(0), V1(1)>>
    [] cell = "triangle"      -> <<V2(0,0), V2(1,0), V2(0,1)>>
    [] cell = "quadrilateral" -> <<V2(0,0), V2(1,0), V2(0,1), V2(1,1)>>
    [] cell = "tetrahedron"   -> <<V3(0,0,0), V3(1,0,0), V3(0,1,0), V3(0,0,1)>>
    [] cell = "hexahedron"    -> <<V3(0,0,0), V3(1,0,0), V3(0,1,0), V3(1,1,0),
                                   V3(0,0,1), V3(1,0,1), V3(0,1,1), V3(1,1,1)>>
    [] cell = "prism"         -> <<V3(0,0,0), V3(1,0,0), V3(0,1,0), V3(0,0,1), V3(1,0,1), V3(0,1,1)>>
    [] cell = "vertex"        -> << <<>> >>

\* facets as sequences of (1-based) vertex numbers
Facets(cell) ==
  CASE cell = "interval"      -> << <<1>>, <<2>> >>
    [] cell = "triangle"      -> << <<2,3>>, <<1,3>>, <<1,2>> >>
    [] cell = "quadrilateral" -> << <<1,2>>, <<1,3>>, <<2,4>>, <<3,4>> >>
    [] cell = "tetrahedron"   -> << <<2,3,4>>, <<1,3,4>>, <<1,2,4>>, <<1,2,3>> >>
    [] cell = "hexahedron"    -> << <<1,2,3,4>>, <<1,2,5,6>>, <<1,3,5,7>>, <<2,4,6,8>>, <<3,4,7,8>>, <<5,6,7,8>> >>
    [] cell = "prism"         -> << <<1,2,3>>, <<1,2,4,5>>, <<1,3,4,6>>, <<2,3,5,6>>, <<4,5,6>> >>

\* edges (ridges of 3D cells, facets of 2D cells) as vertex pairs
Edges(cell) ==
  CASE cell = "interval"      -> << <<1,2>> >>
    [] cell = "triangle"      -> << <<2,3>>, <<1,3>>, <<1,2>> >>
    [] cell = "quadrilateral" -> << <<1,2>>, <<1,3>>, <<2,4>>, <<3,4>> >>
    [] cell = "tetrahedron"   -> << <<3,4>>, <<2,4>>, <<2,3>>, <<1,4>>, <<1,3>>, <<1,2>> >>
    [] cell = "hexahedron"    -> << <<1,2>>, <<1,3>>, <<1,5>>, <<2,4>>, <<2,6>>, <<3,4>>, <<3,7>>, <<4,8>>,
                                    <<5,6>>, <<5,7>>, <<6,8>>, <<7,8>> >>
    [] cell = "prism"         -> << <<1,2>>, <<1,3>>, <<1,4>>, <<2,3>>, <<2,5>>, <<3,6>>, <<4,5>>, <<4,6>>, <<5,6>> >>

Tdim(cell) == CASE cell = "vertex" -> 0 [] cell = "interval" -> 1
                [] cell \in {"triangle", "quadrilateral"} -> 2 [] OTHER -> 3

VSub(u, v) == [k \in 1..Len(u) |-> RSub(u[k], v[k])]
VAdd(u, v) == [k \in 1..Len(u) |-> RAdd(u[k], v[k])]
VScale(a, u) == [k \in 1..Len(u) |-> RMul(a, u[k])]

\* columns of the reference-facet Jacobian: v_i - v_0 for the facet's first tdim-1 "axis" vertices
\* (simplex facet: vertices 2..; quadrilateral facet (0,0),(1,0),(0,1),(1,1): vertices 2 and 3)
FacetAxes(cell, f) ==
  LET vs == RefVerts(cell)  fv == Facets(cell)[f]  n == Tdim(cell) - 1
  IN [i \in 1..n |-> VSub(vs[fv[i + 1]], vs[fv[1]])]

\* image in the cell of the reference-facet point xi (a sequence of tdim-1 rationals)
FacetPoint(cell, f, xi) ==
  LET vs == RefVerts(cell)  fv == Facets(cell)[f]  ax == FacetAxes(cell, f)
      RECURSIVE Acc(_)
      Acc(i) == IF i = 0 THEN vs[fv[1]] ELSE VAdd(Acc(i - 1), VScale(xi[i], ax[i]))
  IN Acc(Tdim(cell) - 1)

EdgePoint(cell, e, xi) ==
  LET vs == RefVerts(cell)  ev == Edges(cell)[e]
  IN VAdd(vs[ev[1]], VScale(xi[1], VSub(vs[ev[2]], vs[ev[1]])))

\* a vertex of the cell not on facet f (to orient the normal)
OffFacetVertex(cell, f) ==
  LET fv == Facets(cell)[f]
      onf == {fv[i] : i \in 1..Len(fv)}
  IN CHOOSE v \in 1..Len(RefVerts(cell)) : v \notin onf

\* outward (un-normalised) reference normal of facet f
RefNormal(cell, f) ==
  LET ax == FacetAxes(cell, f)  td == Tdim(cell)
      vs == RefVerts(cell)
      raw == IF td = 1 THEN <<One>>
             ELSE IF td = 2 THEN <<ax[1][2], RNeg(ax[1][1])>>
             ELSE <<RSub(RMul(ax[1][2], ax[2][3]), RMul(ax[1][3], ax[2][2])),
                    RSub(RMul(ax[1][3], ax[2][1]), RMul(ax[1][1], ax[2][3])),
                    RSub(RMul(ax[1][1], ax[2][2]), RMul(ax[1][2], ax[2][1]))>>
      inward == VSub(vs[OffFacetVertex(cell, f)], vs[Facets(cell)[f][1]])
  IN IF RSign(Dot(raw, inward)) > 0 THEN [k \in 1..td |-> RNeg(raw[k])] ELSE raw

---------------------------------------------------------------------------
(* Ridges (codimension 2): the edges of a 3D cell, the vertices of a 2D cell, in basix's sub-entity numbering. *)
(* A ridge is the sequence of its (1-based) vertex numbers; the reference ridge is the unit interval (3D) or    *)
(* the point (2D) and is mapped by  X(s) = V_a + s (V_b - V_a)  resp.  X = V_a.                                 *)
RidgeCell(cell) == IF Tdim(cell) = 3 THEN "interval" ELSE "vertex"

Ridges(cell) ==
  IF Tdim(cell) = 3 THEN Edges(cell)
  ELSE [v \in 1..Len(RefVerts(cell)) |-> <<v>>]

\* dX/ds of the reference-ridge map (3D cells): the single column of the reference ridge Jacobian
RidgeAxis(cell, r) ==
  LET vs == RefVerts(cell)  rv == Ridges(cell)[r]
  IN VSub(vs[rv[2]], vs[rv[1]])

\* image in the cell of the reference-ridge point xi (<<s>> on an edge, <<>> on a vertex)
RidgePoint(cell, r, xi) ==
  LET vs == RefVerts(cell)  rv == Ridges(cell)[r]
  IN IF Len(rv) = 1 THEN vs[rv[1]]
     ELSE VAdd(vs[rv[1]], VScale(xi[1], VSub(vs[rv[2]], vs[rv[1]])))

\* internal consistency of the transcription (checked by TLC whenever the module is loaded): every ridge of a 3D
\* cell is the intersection of exactly two facets, every vertex of a 2D cell lies on exactly two facets, ridges are
\* pairwise different and listed with ascending vertex numbers (basix's convention for sub-entity vertices)
RidgeCells == {"triangle", "quadrilateral", "tetrahedron", "hexahedron", "prism"}
RSet(s) == {s[i] : i \in 1..Len(s)}
ASSUME \A cell \in RidgeCells :
         LET rs == Ridges(cell)  fs == Facets(cell)
         IN /\ \A r \in 1..Len(rs) :
                 /\ Len(rs[r]) = Tdim(cell) - 1
                 /\ \A i \in 1..(Len(rs[r]) - 1) : rs[r][i] < rs[r][i + 1]
                 /\ Cardinality({f \in 1..Len(fs) : RSet(rs[r]) \subseteq RSet(fs[f])}) = 2
            /\ \A r1, r2 \in 1..Len(rs) : r1 # r2 => rs[r1] # rs[r2]
\* Euler: V - E + F = 2 for the 3D cells
ASSUME \A cell \in {"tetrahedron", "hexahedron", "prism"} :
         Len(RefVerts(cell)) - Len(Edges(cell)) + Len(Facets(cell)) = 2
=============================================================================
