------------------------------ MODULE FormatMC ------------------------------
(***************************************************************************)
(* Root module of the design-level check of S6 (no ffcx code involved      *)
(* beyond the precedence table): one TLC state per enumerated well-typed   *)
(* tree; for each, the formatter's DESIGN (Format!FormatC / FormatPy with  *)
(* the table of lnodes.PRECEDENCE as coded today) must print tokens that   *)
(* parse back (CGrammar / PyGrammar) to the tree's meaning (CanonC/Py).    *)
(* A counterexample is printed as <<"DESIGN", lang, index, kind, s>>; the  *)
(* enumerated trees are written to IOEnv.S6_TREES_OUT for the harness.     *)
(***************************************************************************)
EXTENDS Format

VARIABLE ti
DInit == ti \in 1..Len(TreeSeq)
DNext == UNCHANGED ti
DSpec == DInit /\ [][DNext]_ti

DesignOK ==
  LET t == TreeSeq[ti]
      pc == ParseCExpr(FormatC(t))
      pp == ParsePyExpr(FormatPy(t)) IN
  /\ (Match(pc, CanonC(t, "complex128")) \/ PrintT(<<"DESIGN", "C", ti, pc.k, pc.s>>))
  /\ (Match(pp, CanonPy(t, "complex128")) \/ PrintT(<<"DESIGN", "Py", ti, pp.k, pp.s>>))

ASSUME "S6_TREES_OUT" \in DOMAIN IOEnv => JsonSerialize(IOEnv.S6_TREES_OUT, TreeSeq)
=============================================================================
