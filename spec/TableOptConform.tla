-------------------------- MODULE TableOptConform --------------------------
(***************************************************************************)
(* Engine S7, part 3: conformance of the REAL pipeline with TableOpt.      *)
(*                                                                         *)
(* IOEnv.S7_FILE names a JSON file, IOEnv.S7_MODE says what to do with it. *)
(*                                                                         *)
(* MODE "emit":  the file is a sequence of candidate table descriptions    *)
(*   (records of TableSpace!DescOK).  For every candidate TLC prints       *)
(*     <<"INVALID", id, why>>        outside the description space / the   *)
(*                                   exact range of the model (knife edge, *)
(*                                   slice 0 not representative, ...)      *)
(*     <<"TAB", id, tabs, summary>>  the raw tables (role "A" = argument   *)
(*                                   element, "B" = coefficient element)   *)
(*                                   the harness injects, and what the     *)
(*                                   design expects (ttype, ...) for it    *)
(*                                                                         *)
(* MODE "judge": the file is a sequence of records taken from the real     *)
(*   code (harness/s7w.py):                                                *)
(*     id, desc    the description that was realised                       *)
(*     roles       roles of the modified terminals in the order            *)
(*                 build_optimized_tables met them                         *)
(*     mts         per modified terminal the UniqueTableReferenceT fields: *)
(*                 [role, ttype, shape, isperm, vals (<<m, k>> entries),   *)
(*                  exact (every value is m/4 + k*1e-10), nameix (first    *)
(*                  terminal with the same table name)]                    *)
(*     permok      every permuted point set handed to the tabulation was   *)
(*                 the image of the rule under the slot's permutation      *)
(*     w8          8 * quadrature weights;  c[side][dof] coefficient data; *)
(*     x           the cell's vertex coordinates (= TableSpace!Verts)      *)
(*     reqs        per (entity, permutation) request the tensor the        *)
(*                 compiled kernel computed, entry r projected to          *)
(*                 n0 = round(128 r), n1 = round((128 r - n0) / 4e-10)     *)
(*   For each record TLC computes, from the description alone, the         *)
(*   expected fields and the expected tensor                               *)
(*     A = scale * sum_q w_q * (table entry of v) * (sum_d table entry of  *)
(*         f * c_d | table entry of u | 1)                                 *)
(*   as  N0/128 + N1*1e-10/32 + O(1e-20)  and prints                       *)
(*     <<"OK", id>>  or  <<"VIOL", id, clause, detail>> ...                *)
(*   Clauses: structure, perm-points, ttype, shape, is_permuted, values,   *)
(*   name, tensor.  Every record gets a verdict.                           *)
(*                                                                         *)
(* Tolerance of the tensor clause (all integers): n0 = N0 exactly and      *)
(* |n1 - N1| <= 2 + S2/10^4 + Mag/8000 where S2 bounds the dropped         *)
(* second-order term and Mag/8000 is > 7 x the rounding bound              *)
(* 64 * 2^-53 * magnitude of a kernel with <= 64 operations per entry.     *)
(***************************************************************************)
EXTENDS TableSpace, Json, IOUtils

Data == JsonDeserialize(IOEnv.S7_FILE)
Mode == IOEnv.S7_MODE

Range(s) == {s[k] : k \in DOMAIN s}
\* JSON has no sets: base.S arrives as a sequence
Norm(c) == [c EXCEPT !.base = [kind |-> c.base.kind, S |-> Range(c.base.S), m0 |-> c.base.m0]]

RECURSIVE SumSeq(_)
SumSeq(s) == IF Len(s) = 0 THEN 0 ELSE Head(s) + SumSeq(Tail(s))

---------------------------------------------------------------------------
(* emit *)
Summary(c) ==
  LET r == Run(c, RolesOf(c))
  IN [k \in 1..Len(r.out) |->
        [role |-> RolesOf(c)[k], ttype |-> r.out[k].ttype, isperm |-> r.out[k].isperm,
         shape |-> Shape(r.out[k].final), hit |-> r.out[k].hit]]
EmitOne(c0) ==
  LET c == Norm(c0)
  IN IF ~DescOK(c) THEN PrintT(<<"INVALID", c0.id, "structure">>)
     ELSE IF ~SemValid(c) THEN PrintT(<<"INVALID", c0.id, "semantic">>)
     ELSE PrintT(<<"TAB", c0.id,
                   [A |-> IF HasRole(c, "A") THEN RawOf(c, "A") ELSE <<>>,
                    B |-> IF HasRole(c, "B") THEN RawOf(c, "B") ELSE <<>>],
                   Summary(c)>>)

---------------------------------------------------------------------------
(* judge *)
FirstWith(roles, role) == SetMin({k \in 1..Len(roles) : roles[k] = role})

\* expected index of the first terminal carrying the same table name
ExpNameIx(out, k) == SetMin({j \in 1..k : out[j].name = out[k].name})

MtViols(rec, out, k) ==
  LET m == rec.mts[k]
      e == out[k]
  IN   (IF m.ttype # e.ttype THEN {<<"ttype", k, e.ttype, m.ttype>>} ELSE {})
  \cup (IF m.shape # Shape(e.final) THEN {<<"shape", k, Shape(e.final), m.shape>>} ELSE {})
  \cup (IF m.isperm # e.isperm THEN {<<"is_permuted", k, e.isperm, m.isperm>>} ELSE {})
  \cup (IF m.shape = Shape(e.final) /\ (~m.exact \/ m.vals # e.final)
        THEN {<<"values", k, IF ~m.exact THEN "inexact"
                             ELSE LET bad == {ix \in Idx(e.final) : At(m.vals, ix) # At(e.final, ix)}
                                      ix == CHOOSE x \in bad : TRUE
                                  IN <<Cardinality(bad), ix, At(e.final, ix), At(m.vals, ix)>>>>} ELSE {})
  \cup (IF m.nameix # ExpNameIx(out, k) THEN {<<"name", k, ExpNameIx(out, k), m.nameix>>} ELSE {})

\* the number a product term contributes: left = <<m, k>>, right = [f0, f1, fm] (sum_d m c, sum_d k c, sum_d |m c|)
KK(k) == Abs(k) \div 1000 + 1
Term(left, right) ==
  [p0 |-> left[1] * right.f0,
   p1 |-> left[1] * right.f1 + left[2] * right.f0,
   s2 |-> IF left[2] = 0 \/ right.fk = 0 THEN 0 ELSE KK(left[2]) * (right.fk \div 1000 + 1),
   mg |-> Abs(left[1]) * right.fm]
UnitRight == [f0 |-> 4, f1 |-> 0, fk |-> 0, fm |-> 4]
ValRight(v) == [f0 |-> v[1], f1 |-> v[2], fk |-> Abs(v[2]), fm |-> Abs(v[1])]

TensorViols(rec, c, out, roles) ==
  LET sh == ShapeOf(c)
      D == sh[4]
      Q == sh[3]
      ns == NSides(c.kind)
      isx == c.kind \in {"expr_cell", "expr_facet"}
      resA == IF HasRole(c, "A") THEN out[FirstWith(roles, "A")] ELSE out[1]
      resB == IF HasRole(c, "B") THEN out[FirstWith(roles, "B")] ELSE out[1]
      OneReq(rk) ==
        LET rq == rec.reqs[rk]
            P(s) == IF sh[1] = 1 THEN 1 ELSE rq.perm[s + 1] + 1
            E(s) == IF sh[2] = 1 THEN 1 ELSE rq.ent[s + 1] + 1
            scale == ScaleOf(c.kind, c.cell, rq.ent[1])
            TA == IF ~HasRole(c, "A") THEN <<>> ELSE
                  Force([s \in 0..(ns - 1) |-> Force([q \in 1..Q |-> Force([d \in 1..D |-> ReadEff(resA, P(s), E(s), q, d)])])])
            FB == IF ~HasRole(c, "B") THEN <<>> ELSE
                  Force([s \in 0..(ns - 1) |-> Force([q \in 1..Q |->
                     LET vs == [d \in 1..D |-> ReadEff(resB, P(s), E(s), q, d)]
                     IN [f0 |-> SumSeq([d \in 1..D |-> vs[d][1] * rec.c[s + 1][d]]),
                         f1 |-> SumSeq([d \in 1..D |-> vs[d][2] * rec.c[s + 1][d]]),
                         fk |-> SumSeq([d \in 1..D |-> Abs(vs[d][2] * rec.c[s + 1][d])]),
                         fm |-> SumSeq([d \in 1..D |-> Abs(vs[d][1] * rec.c[s + 1][d])])]])])
            \* the product at point q for flat entry (i, j): i, j are 0-based global dof numbers (side * D + dof)
            Left(q, i) == IF c.form = "f" THEN One ELSE IF i \div D = c.sa THEN TA[c.sa][q][(i % D) + 1] ELSE Zero
            Right(q, j) ==
              CASE c.form = "v" -> UnitRight
                [] c.form \in {"fv", "f"} -> FB[c.sb][q]
                [] c.form = "uv" -> IF j \div D = c.sb THEN ValRight(TA[c.sb][q][(j % D) + 1]) ELSE ValRight(Zero)
            Exp(qlo, qhi, i, j) ==       \* the points qlo..qhi are summed over
              LET ts == [q \in qlo..qhi |-> Term(Left(q, i), Right(q, j))]
                  w(q) == IF isx THEN 8 ELSE rec.w8[q]
                  n == qhi - qlo + 1
              IN [n0 |-> scale * SumSeq([k \in 1..n |-> w(qlo + k - 1) * ts[qlo + k - 1].p0]),
                  n1 |-> scale * SumSeq([k \in 1..n |-> w(qlo + k - 1) * ts[qlo + k - 1].p1]),
                  s2 |-> 32 * scale * SumSeq([k \in 1..n |-> Abs(w(qlo + k - 1)) * ts[qlo + k - 1].s2]),
                  mg |-> scale * SumSeq([k \in 1..n |-> Abs(w(qlo + k - 1)) * ts[qlo + k - 1].mg])]
            \* flat layout of the kernel's A
            NFlat == IF isx THEN (IF c.form = "f" THEN Q ELSE Q * D)
                     ELSE IF c.form = "f" THEN 1 ELSE IF c.form = "uv" THEN (ns * D) * (ns * D) ELSE ns * D
            ExpFlat(n) ==          \* n 0-based
              IF isx THEN (IF c.form = "f" THEN Exp(n + 1, n + 1, 0, 0) ELSE Exp((n \div D) + 1, (n \div D) + 1, n % D, 0))
              ELSE IF c.form = "f" THEN Exp(1, Q, 0, 0)
              ELSE IF c.form = "uv" THEN Exp(1, Q, n \div (ns * D), n % (ns * D))
              ELSE Exp(1, Q, n, 0)
            Bad(n) ==
              LET e == ExpFlat(n)
                  slack == 2 + e.s2 \div 10000 + e.mg \div 8000
              IN ~(rq.n0[n + 1] = e.n0 /\ Abs(rq.n1[n + 1] - e.n1) <= slack)
            bad == {n \in 0..(NFlat - 1) : Bad(n)}
        IN IF ~rq.ok \/ Len(rq.n0) # NFlat THEN {<<"tensor", rk, "shape-or-range", Len(rq.n0), NFlat>>}
           ELSE IF bad = {} THEN {}
           ELSE LET n == SetMin(bad)
                    e == ExpFlat(n)
                IN {<<"tensor", rk, [ent |-> rq.ent, perm |-> rq.perm, entry |-> n, nbad |-> Cardinality(bad),
                                      expected |-> <<e.n0, e.n1>>, got |-> <<rq.n0[n + 1], rq.n1[n + 1]>>,
                                      slack |-> 2 + e.s2 \div 10000 + e.mg \div 8000]>>}
  IN UNION {OneReq(rk) : rk \in 1..Len(rec.reqs)}

JudgeOne(rec) ==
  LET c == Norm(rec.desc)
      roles == rec.roles
      structOK == /\ DescOK(c)
                  /\ rec.x = Verts(c.cell)
                  /\ Len(roles) >= 1 /\ Len(rec.mts) = Len(roles)
                  /\ Range(roles) = {role \in {"A", "B"} : HasRole(c, role)}
                  /\ \A k \in 1..Len(roles) : rec.mts[k].role = roles[k] /\ Len(rec.mts[k].shape) = 4
      V == IF ~structOK THEN {<<"structure", 0, roles>>}
           ELSE LET run == Run(c, roles)
                    out == run.out
                IN IF ~SemOKr(c, roles, run) THEN {<<"out-of-model", 0, roles>>} ELSE
                    (IF rec.permok THEN {} ELSE {<<"perm-points", 0, "unrecognised permuted points">>})
                \cup UNION {MtViols(rec, out, k) : k \in 1..Len(roles)}
                \cup TensorViols(rec, c, out, roles)
  IN IF V = {} THEN PrintT(<<"OK", rec.id>>)
     ELSE \A v \in V : PrintT(<<"VIOL", rec.id, v[1], v>>)

---------------------------------------------------------------------------
\* one TLC state per item; the work is done in Next (TLC caches LET definitions there)
VARIABLES ci, done
CInit == ci \in 1..Len(Data) /\ done = FALSE
CNext == /\ ~done
         /\ IF Mode = "emit" THEN EmitOne(Data[ci]) ELSE JudgeOne(Data[ci])
         /\ done' = TRUE /\ ci' = ci
CSpec == CInit /\ [][CNext]_<<ci, done>>
=============================================================================
