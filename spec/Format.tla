------------------------------- MODULE Format -------------------------------
(***************************************************************************)
(* S6: the formatter as a printer that must be a right inverse of the      *)
(* target grammar.                                                         *)
(*                                                                         *)
(* LNodes trees are uniform records [k, s, a, d]:                          *)
(*   k  LNodes class name; literals are split by sign: FloatPos, FloatNeg, *)
(*      IntPos, IntNeg (s = id of the MAGNITUDE), Complex (a = <<re, im>>) *)
(*   s  Symbol/array/function name or literal id, "" otherwise             *)
(*   a  children (operands; ArrayAccess: indices; MathFunction: arguments) *)
(*   d  lnodes.DataType name ("REAL","SCALAR","INT","BOOL","")             *)
(* statement kinds: VariableDecl ArrayDecl ForRange Section StatementList  *)
(* Comment (see CanonCStmts).                                              *)
(*                                                                         *)
(* 1. CanonC / CanonPy: what tree the emitted TEXT must parse to, i.e. the *)
(*    meaning of an LNodes tree in the target grammar's vocabulary         *)
(*    (CGrammar / PyGrammar nodes [k, s, a]).  Decisions taken here:       *)
(*    - Sum/Product(a1..an) == ((a1 op a2) op a3) ... : the formatter      *)
(*      prints n-ary nodes flat, and for + and * both C (6.5.5/6.5.6) and  *)
(*      Python group left to right - in floating point that left-to-right  *)
(*      order IS the value the kernel computes, so the n-ary node is       *)
(*      defined as its left-associated nesting; arity 1 is the operand.    *)
(*    - a negative literal is unary minus applied to its magnitude (C has  *)
(*      no negative constants, 6.4.4; same in Python).                     *)
(*    - a complex literal is re + I*im in C (<complex.h>), re + im j in    *)
(*      Python.                                                            *)
(*    - redundant parentheses do not exist in trees, so they are accepted. *)
(*    - math functions: the LNodes name must map to the C library function *)
(*      of that meaning (C11 7.12 / 7.3 / POSIX jn,yn), any precision      *)
(*      suffix; real or complex family according to the argument type.     *)
(*    - Section == its declarations followed by one { block } of its       *)
(*      statements (C) / followed by its statements (Python has no block   *)
(*      scopes); StatementList is spliced; comments vanish.                *)
(* 2. Match(parsed, canon): tree equality up to the name sets above.       *)
(* 3. FormatC / FormatPy: the formatter's DESIGN - "parenthesise a child   *)
(*    iff child.precedence >= parent.precedence" - as a token printer over *)
(*    the precedence table handed in (lnodes.PRECEDENCE as coded today),   *)
(*    with C's maximal munch applied where the printer puts no space       *)
(*    (unary minus directly before its operand).                           *)
(* 4. Trees: the well-typed trees TLC enumerates, and DesignOK: the        *)
(*    design-level round trip Parse(Format(t)) matches Canon(t).           *)
(***************************************************************************)
EXTENDS CGrammar, PyGrammar, Naturals, Sequences, FiniteSets, TLC, Json, IOUtils, SequencesExt

T4(k, s, a, d) == [k |-> k, s |-> s, a |-> a, d |-> d]

ComplexTypes == {"complex64", "complex128"}
ScalarTypes == {"float32", "float64", "complex64", "complex128"}

---------------------------------------------------------------------------
\* operator meaning of each LNodes class (arithmetic / comparison / logic), per language
BinKinds == {"Add", "Sub", "Mul", "Div", "EQ", "NE", "LT", "GT", "LE", "GE", "And", "Or"}
COp == [Add |-> "+", Sub |-> "-", Mul |-> "*", Div |-> "/", EQ |-> "==", NE |-> "!=", LT |-> "<", GT |-> ">",
        LE |-> "<=", GE |-> ">=", And |-> "&&", Or |-> "||", Sum |-> "+", Product |-> "*"]
PyOp == [Add |-> "+", Sub |-> "-", Mul |-> "*", Div |-> "/", EQ |-> "==", NE |-> "!=", LT |-> "<", GT |-> ">",
         LE |-> "<=", GE |-> ">=", And |-> "and", Or |-> "or", Sum |-> "+", Product |-> "*"]
AssignKinds == {"Assign", "AssignAdd", "AssignSub", "AssignMul", "AssignDiv"}
AssignOp == [Assign |-> "=", AssignAdd |-> "+=", AssignSub |-> "-=", AssignMul |-> "*=", AssignDiv |-> "/="]

\* C library names: <math.h> real family, <complex.h> complex family ("" = the function does not exist)
CReal == [sqrt |-> "sqrt", abs |-> "fabs", cos |-> "cos", sin |-> "sin", tan |-> "tan", acos |-> "acos",
          asin |-> "asin", atan |-> "atan", cosh |-> "cosh", sinh |-> "sinh", tanh |-> "tanh", acosh |-> "acosh",
          asinh |-> "asinh", atanh |-> "atanh", power |-> "pow", exp |-> "exp", ln |-> "log", erf |-> "erf",
          atan_2 |-> "atan2", atan2 |-> "atan2", min_value |-> "fmin", max_value |-> "fmax", bessel_y |-> "yn", bessel_j |-> "jn",
          real |-> "", imag |-> "", conj |-> ""]
CCplx == [sqrt |-> "csqrt", abs |-> "cabs", cos |-> "ccos", sin |-> "csin", tan |-> "ctan", acos |-> "cacos",
          asin |-> "casin", atan |-> "catan", cosh |-> "ccosh", sinh |-> "csinh", tanh |-> "ctanh",
          acosh |-> "cacosh", asinh |-> "casinh", atanh |-> "catanh", power |-> "cpow", exp |-> "cexp",
          ln |-> "clog", erf |-> "", atan_2 |-> "", atan2 |-> "", min_value |-> "", max_value |-> "", bessel_y |-> "",
          bessel_j |-> "", real |-> "creal", imag |-> "cimag", conj |-> "conj"]
Suffixed(b) == IF b = "" THEN {} ELSE {b, b \o "f", b \o "l"}
\* fam: "r" real arguments, "c" complex arguments, "rc" undetermined (integer argument in a complex kernel)
\* A function that exists in one family only (erf, atan2, fmin, fmax, jn, yn: real; creal, cimag, conj: complex) has
\* that one name whatever the argument type - whether such a call is well-typed is UFL's business, not the printer's.
CNames(f, fam) ==
  IF f \notin DOMAIN CReal THEN {f}
  ELSE IF CReal[f] = "" \/ CCplx[f] = "" THEN Suffixed(CReal[f]) \cup Suffixed(CCplx[f])
  ELSE (IF fam \in {"r", "rc"} THEN Suffixed(CReal[f]) ELSE {}) \cup (IF fam \in {"c", "rc"} THEN Suffixed(CCplx[f]) ELSE {})

\* numpy / math / scipy names with the same meaning
PyNames(f) ==
  CASE f = "sqrt" -> {"np.sqrt"} [] f = "abs" -> {"np.abs", "np.absolute", "abs"}
    [] f = "cos" -> {"np.cos"} [] f = "sin" -> {"np.sin"} [] f = "tan" -> {"np.tan"}
    [] f = "acos" -> {"np.arccos", "np.acos"} [] f = "asin" -> {"np.arcsin", "np.asin"}
    [] f = "atan" -> {"np.arctan", "np.atan"} [] f = "cosh" -> {"np.cosh"} [] f = "sinh" -> {"np.sinh"}
    [] f = "tanh" -> {"np.tanh"} [] f = "acosh" -> {"np.arccosh", "np.acosh"}
    [] f = "asinh" -> {"np.arcsinh", "np.asinh"} [] f = "atanh" -> {"np.arctanh", "np.atanh"}
    [] f = "power" -> {"np.power", "np.pow", "pow"} [] f = "exp" -> {"np.exp"} [] f = "ln" -> {"np.log"}
    [] f = "erf" -> {"math.erf", "scipy.special.erf"} [] f \in {"atan2", "atan_2"} -> {"np.arctan2", "np.atan2", "math.atan2"}
    [] f = "min_value" -> {"np.minimum", "np.fmin", "min"} [] f = "max_value" -> {"np.maximum", "np.fmax", "max"}
    [] f = "bessel_y" -> {"scipy.special.yn", "scipy.special.yv"}
    [] f = "bessel_j" -> {"scipy.special.jn", "scipy.special.jv"}
    [] f = "real" -> {"np.real"} [] f = "imag" -> {"np.imag"} [] f = "conj" -> {"np.conj", "np.conjugate"}
    [] OTHER -> {f}

\* is a tree of dtype d complex-valued in a kernel of scalar type st ?
Fam(d, st) == IF st \in ComplexTypes THEN (IF d = "SCALAR" THEN "c" ELSE IF d = "REAL" THEN "r" ELSE "rc") ELSE "r"
FamOf(args, st) ==
  IF \E i \in 1..Len(args) : Fam(args[i].d, st) = "c" THEN "c"
  ELSE IF \A i \in 1..Len(args) : Fam(args[i].d, st) = "r" THEN "r" ELSE "rc"

\* type names: ufcx kernels use C99 real/complex floating types; numpy dtypes
CTypeWords(d, st) ==
  CASE d = "INT" -> <<"int">> [] d = "BOOL" -> <<"bool">>
    [] d = "REAL" -> IF st \in {"float64", "complex128"} THEN <<"double">> ELSE <<"float">>
    [] d = "SCALAR" -> CASE st = "float64" -> <<"double">> [] st = "float32" -> <<"float">>
                         [] st = "complex128" -> <<"double", "_Complex">> [] OTHER -> <<"float", "_Complex">>
    [] OTHER -> <<"?">>
CType(d, st, const) ==
  N("type", "", [i \in 1..Len((IF const THEN <<"static", "const">> ELSE <<>>) \o CTypeWords(d, st)) |->
                   Leaf("kw", ((IF const THEN <<"static", "const">> ELSE <<>>) \o CTypeWords(d, st))[i])])
PyType(d, st) ==
  CASE d = "INT" -> "np.int32" [] d = "BOOL" -> "np.bool_"
    [] d = "REAL" -> IF st \in {"float64", "complex128"} THEN "np.float64" ELSE "np.float32"
    [] d = "SCALAR" -> "np." \o st
    [] OTHER -> "?"

---------------------------------------------------------------------------
\* 1. canonical target trees

RECURSIVE LeftNest(_, _, _)
LeftNest(op, xs, n) == IF n = 1 THEN xs[1] ELSE N("bin", op, <<LeftNest(op, xs, n - 1), xs[n]>>)

RECURSIVE CanonC(_, _), CanonPy(_, _)
CanonC(t, st) ==
  LET C(x) == CanonC(x, st)
      Cs == [i \in 1..Len(t.a) |-> CanonC(t.a[i], st)] IN
  CASE t.k = "Symbol"   -> Leaf("sym", t.s)
    [] t.k = "FloatPos" -> Leaf("flt", t.s)
    [] t.k = "FloatNeg" -> N("neg", "-", <<Leaf("flt", t.s)>>)
    [] t.k = "IntPos"   -> Leaf("int", t.s)
    [] t.k = "IntNeg"   -> N("neg", "-", <<Leaf("int", t.s)>>)
    [] t.k = "Complex"  -> N("bin", "+", <<C(t.a[1]), N("bin", "*", <<Leaf("sym", "I"), C(t.a[2])>>)>>)
    [] t.k = "MultiIndex" -> C(t.a[1])                       \* means its flattened index
    [] t.k = "Neg"      -> N("neg", "-", Cs)
    [] t.k = "Not"      -> N("not", "!", Cs)
    [] t.k \in BinKinds -> N("bin", COp[t.k], Cs)
    [] t.k \in {"Sum", "Product"} -> IF Cs = <<>> THEN Leaf("error", "empty n-ary node") ELSE LeftNest(COp[t.k], Cs, Len(Cs))
    [] t.k = "MathFunction" -> N("call?" \o FamOf(t.a, st), t.s, Cs)
    [] t.k = "ArrayAccess"  -> N("idx", t.s, Cs)
    [] t.k = "Conditional"  -> N("cond", "", Cs)
    [] t.k \in AssignKinds  -> N("assign", AssignOp[t.k], Cs)
    [] OTHER -> Leaf("error", "no C meaning for LNodes kind " \o t.k)

\* a part of a Python complex literal: the sign is carried by the operator, int/float spelling is free
PyMag(x) == Leaf("num", x.s)
PyIsNeg(x) == x.k \in {"FloatNeg", "IntNeg"}
CanonPy(t, st) ==
  LET C(x) == CanonPy(x, st)
      Cs == [i \in 1..Len(t.a) |-> CanonPy(t.a[i], st)] IN
  CASE t.k = "Symbol"   -> Leaf("sym", t.s)
    [] t.k = "FloatPos" -> Leaf("flt", t.s)
    [] t.k = "FloatNeg" -> N("neg", "-", <<Leaf("flt", t.s)>>)
    [] t.k = "IntPos"   -> Leaf("int", t.s)
    [] t.k = "IntNeg"   -> N("neg", "-", <<Leaf("int", t.s)>>)
    [] t.k = "Complex"  ->
         LET re == t.a[1]  im == t.a[2]
             imag == Leaf("imag", im.s) IN
         IF t.s = "pure-imaginary" THEN (IF PyIsNeg(im) THEN N("neg", "-", <<imag>>) ELSE imag)
         ELSE N("bin", IF PyIsNeg(im) THEN "-" ELSE "+",
                <<IF PyIsNeg(re) THEN N("neg", "-", <<PyMag(re)>>) ELSE PyMag(re), imag>>)
    [] t.k = "MultiIndex" -> C(t.a[1])                       \* means its flattened index
    [] t.k = "Neg"      -> N("neg", "-", Cs)
    [] t.k = "Not"      -> N("not", "not", Cs)
    [] t.k \in BinKinds -> N("bin", PyOp[t.k], Cs)
    [] t.k \in {"Sum", "Product"} -> IF Cs = <<>> THEN Leaf("error", "empty n-ary node") ELSE LeftNest(PyOp[t.k], Cs, Len(Cs))
    [] t.k = "MathFunction" -> N("pycall?", t.s, Cs)
    [] t.k = "ArrayAccess"  -> N("idx", t.s, Cs)
    [] t.k = "Conditional"  -> N("cond", "", <<Cs[2], Cs[1], Cs[3]>>)      \* Python source order: t if c else f
    [] t.k \in AssignKinds  -> N("assign", AssignOp[t.k], Cs)
    [] OTHER -> Leaf("error", "no Python meaning for LNodes kind " \o t.k)

\* initialiser values: nested "list" nodes over literal leaves
RECURSIVE CanonInitC(_, _), CanonInitPy(_, _)
CanonInitC(v, st) == IF v.k = "list" THEN N("list", "", [i \in 1..Len(v.a) |-> CanonInitC(v.a[i], st)]) ELSE CanonC(v, st)
CanonInitPy(v, st) == IF v.k = "list" THEN N("list", "", [i \in 1..Len(v.a) |-> CanonInitPy(v.a[i], st)]) ELSE CanonPy(v, st)

\* concatenation of a sequence of sequences (balanced, so that long statement lists do not nest deeply)
RECURSIVE FlatR(_, _, _)
FlatR(ss, lo, hi) == IF lo > hi THEN <<>> ELSE IF lo = hi THEN ss[lo]
                     ELSE FlatR(ss, lo, (lo + hi) \div 2) \o FlatR(ss, (lo + hi) \div 2 + 1, hi)
Flat(ss) == FlatR(ss, 1, Len(ss))

RECURSIVE CanonCStmt(_, _), CanonPyStmt(_, _)
\* each returns the SEQUENCE of target statements the LNodes statement stands for
CanonCStmts(ss, st) == Flat([i \in 1..Len(ss) |-> CanonCStmt(ss[i], st)])
CanonCStmt(t, st) ==
  CASE t.k = "Comment" -> <<>>
    [] t.k = "StatementList" -> CanonCStmts(t.a, st)
    [] t.k = "Section" ->
         CanonCStmts(t.a[1].a, st) \o (IF t.a[2].a = <<>> THEN <<>> ELSE <<N("block", "", CanonCStmts(t.a[2].a, st))>>)
    [] t.k = "VariableDecl" ->
         <<N("decl", "", <<CType(t.s, st, FALSE), CanonC(t.a[1], st), N("dims", "", <<>>),
                           IF t.a[2].k = "novalue" THEN Leaf("noinit", "") ELSE CanonC(t.a[2], st)>>)>>
    [] t.k = "ArrayDecl" ->
         <<N("decl", "", <<CType(t.s, st, t.a[4].k = "const"), CanonC(t.a[1], st),
                           N("dims", "", [i \in 1..Len(t.a[2].a) |-> CanonC(t.a[2].a[i], st)]),
                           IF t.a[3].k = "novalues" THEN Leaf("noinit", "") ELSE CanonInitC(t.a[3], st)>>)>>
    [] t.k = "ForRange" ->
         <<N("for", "", <<CanonC(t.a[1], st), CanonC(t.a[2], st), CanonC(t.a[3], st),
                          N("block", "", CanonCStmts(t.a[4].a, st))>>)>>
    [] OTHER -> <<CanonC(t, st)>>

CanonPyStmts(ss, st) == Flat([i \in 1..Len(ss) |-> CanonPyStmt(ss[i], st)])
RECURSIVE IsSingle(_)
IsSingle(v) == v.k # "list" \/ (Len(v.a) = 1 /\ IsSingle(v.a[1]))      \* exactly one value in the initialiser
RECURSIVE FirstLeaf(_)
FirstLeaf(v) == IF v.k = "list" THEN FirstLeaf(v.a[1]) ELSE v
CanonPyStmt(t, st) ==
  CASE t.k = "Comment" -> <<>>
    [] t.k = "StatementList" -> CanonPyStmts(t.a, st)
    [] t.k = "Section" -> CanonPyStmts(t.a[1].a, st) \o CanonPyStmts(t.a[2].a, st)
    [] t.k = "VariableDecl" -> <<N("assign", "=", <<CanonPy(t.a[1], st), CanonPy(t.a[2], st)>>)>>
    [] t.k = "ArrayDecl" ->
         LET shape == N("tuple", "", [i \in 1..Len(t.a[2].a) |-> CanonPy(t.a[2].a[i], st)])
             dt == N("kw", "dtype", <<Leaf("sym", PyType(t.s, st))>>)
             rhs == IF t.a[3].k = "novalues" THEN N("call", "np.empty", <<shape, dt>>)
                    ELSE IF IsSingle(t.a[3]) THEN N("call", "np.full", <<shape, CanonPy(FirstLeaf(t.a[3]), st), dt>>)
                    ELSE N("call", "np.array", <<CanonInitPy(t.a[3], st), dt>>) IN
         <<N("assign", "=", <<CanonPy(t.a[1], st), rhs>>)>>
    [] t.k = "ForRange" ->
         <<N("for", "", <<CanonPy(t.a[1], st), CanonPy(t.a[2], st), CanonPy(t.a[3], st),
                          N("block", "", CanonPyStmts(t.a[4].a, st))>>)>>
    [] OTHER -> <<CanonPy(t, st)>>

---------------------------------------------------------------------------
\* 2. equality of a parsed tree with a canonical tree, up to the name sets

NodeOK(p, c) ==
  CASE c.k \in {"call?r", "call?c", "call?rc"} ->
         p.k = "call" /\ p.s \in CNames(c.s, IF c.k = "call?r" THEN "r" ELSE IF c.k = "call?c" THEN "c" ELSE "rc")
    [] c.k = "pycall?" -> p.k = "call" /\ p.s \in PyNames(c.s)
    [] c.k = "num" -> p.k \in {"int", "flt"} /\ p.s = c.s
    [] OTHER -> p.k = c.k /\ p.s = c.s

RECURSIVE Match(_, _)
Match(p, c) == NodeOK(p, c) /\ Len(p.a) = Len(c.a) /\ \A i \in 1..Len(c.a) : Match(p.a[i], c.a[i])

\* where the first difference is: <<path, parsed kind, parsed s, expected kind, expected s>>
RECURSIVE Diff(_, _, _)
Diff(p, c, path) ==
  IF ~NodeOK(p, c) \/ Len(p.a) # Len(c.a)
  THEN <<path, p.k, p.s, Len(p.a), c.k, c.s, Len(c.a)>>
  ELSE LET bad == {i \in 1..Len(c.a) : ~Match(p.a[i], c.a[i])} IN
       IF bad = {} THEN <<>> ELSE LET i == CHOOSE j \in bad : \A l \in bad : j <= l IN Diff(p.a[i], c.a[i], Append(path, i))

---------------------------------------------------------------------------
\* 3. the formatter's design as a token printer

PrecTable == JsonDeserialize(IOEnv.S6_PREC)          \* class name -> lnodes precedence, as coded today
PrecClass(k) == CASE k \in {"FloatPos", "FloatNeg", "Complex"} -> "LiteralFloat"
                  [] k \in {"IntPos", "IntNeg"} -> "LiteralInt" [] OTHER -> k
Prec(t) == PrecTable[PrecClass(t.k)]

Tk(t, v) == [t |-> t, v |-> v]
Opr(v) == Tk("op", v)
Paren(seq) == <<Opr("(")>> \o seq \o <<Opr(")")>>

RECURSIVE Join(_, _)
Join(seqs, sep) == IF Len(seqs) = 1 THEN seqs[1] ELSE seqs[1] \o sep \o Join(Tail(seqs), sep)

\* text "-" directly followed by text that starts with "-" or "--": maximal munch (C11 6.4p4)
CGlueMinus(seq) ==
  IF seq # <<>> /\ seq[1] = Opr("-") THEN <<Opr("--")>> \o Tail(seq)
  ELSE IF seq # <<>> /\ seq[1] = Opr("--") THEN <<Opr("--"), Opr("-")>> \o Tail(seq)
  ELSE <<Opr("-")>> \o seq

RECURSIVE FormatC(_), FormatPy(_)
FormatC(t) ==
  LET W(c) == IF Prec(c) >= Prec(t) THEN Paren(FormatC(c)) ELSE FormatC(c)
      Ws == [i \in 1..Len(t.a) |-> W(t.a[i])]
      Fs == [i \in 1..Len(t.a) |-> FormatC(t.a[i])] IN
  CASE t.k = "Symbol"   -> <<Tk("id", t.s)>>
    [] t.k = "FloatPos" -> <<Tk("flt", t.s)>>
    [] t.k = "FloatNeg" -> <<Opr("-"), Tk("flt", t.s)>>
    [] t.k = "IntPos"   -> <<Tk("int", t.s)>>
    [] t.k = "IntNeg"   -> <<Opr("-"), Tk("int", t.s)>>
    [] t.k = "Complex"  -> Paren(Fs[1] \o <<Opr("+"), Tk("id", "I"), Opr("*")>> \o Fs[2])
    [] t.k = "MultiIndex" -> FormatC(t.a[1])                 \* printed as its flattened index, with the precedence of MultiIndex
    [] t.k = "Neg"      -> CGlueMinus(Ws[1])
    [] t.k = "Not"      -> <<Opr("!")>> \o Ws[1]
    [] t.k \in BinKinds -> Ws[1] \o <<Opr(COp[t.k])>> \o Ws[2]
    [] t.k \in {"Sum", "Product"} -> Join(Ws, <<Opr(COp[t.k])>>)
    [] t.k = "MathFunction" ->
         <<Tk("id", CHOOSE nm \in CNames(t.s, FamOf(t.a, "complex128")) : TRUE), Opr("(")>>
           \o Join(Fs, <<Opr(",")>>) \o <<Opr(")")>>
    [] t.k = "ArrayAccess" -> <<Tk("id", t.s)>> \o Flat([i \in 1..Len(Fs) |-> <<Opr("[")>> \o Fs[i] \o <<Opr("]")>>])
    [] t.k = "Conditional" -> Ws[1] \o <<Opr("?")>> \o Ws[2] \o <<Opr(":")>> \o Ws[3]
    [] OTHER -> <<Tk("bad", t.k)>>

FormatPy(t) ==
  LET W(c) == IF Prec(c) >= Prec(t) THEN Paren(FormatPy(c)) ELSE FormatPy(c)
      Ws == [i \in 1..Len(t.a) |-> W(t.a[i])]
      Fs == [i \in 1..Len(t.a) |-> FormatPy(t.a[i])]
      PyTok(op) == IF op \in {"and", "or"} THEN Tk("kw", op) ELSE Opr(op) IN
  CASE t.k = "Symbol"   -> <<Tk("id", t.s)>>
    [] t.k = "FloatPos" -> <<Tk("flt", t.s)>>
    [] t.k = "FloatNeg" -> <<Opr("-"), Tk("flt", t.s)>>
    [] t.k = "IntPos"   -> <<Tk("int", t.s)>>
    [] t.k = "IntNeg"   -> <<Opr("-"), Tk("int", t.s)>>
    [] t.k = "Complex"  -> Paren((IF PyIsNeg(t.a[1]) THEN <<Opr("-")>> ELSE <<>>) \o <<Tk("flt", t.a[1].s)>>
                                 \o <<Opr(IF PyIsNeg(t.a[2]) THEN "-" ELSE "+"), Tk("imag", t.a[2].s)>>)
    [] t.k = "MultiIndex" -> FormatPy(t.a[1])
    [] t.k = "Neg"      -> <<Opr("-")>> \o Ws[1]
    [] t.k = "Not"      -> <<Tk("kw", "not")>> \o Ws[1]
    [] t.k \in BinKinds -> Ws[1] \o <<PyTok(PyOp[t.k])>> \o Ws[2]
    [] t.k \in {"Sum", "Product"} -> Join(Ws, <<Opr(PyOp[t.k])>>)
    [] t.k = "MathFunction" ->
         <<Tk("id", CHOOSE nm \in PyNames(t.s) : TRUE), Opr("(")>> \o Join(Fs, <<Opr(",")>>) \o <<Opr(")")>>
    [] t.k = "ArrayAccess" -> <<Tk("id", t.s), Opr("[")>> \o Join(Fs, <<Opr(",")>>) \o <<Opr("]")>>
    [] t.k = "Conditional" -> Paren(Ws[2] \o <<Tk("kw", "if")>> \o Ws[1] \o <<Tk("kw", "else")>> \o Ws[3])
    [] OTHER -> <<Tk("bad", t.k)>>

---------------------------------------------------------------------------
\* 4. enumeration of well-typed trees
\*    types: "num" (REAL/SCALAR values), "int" (index arithmetic), "bool" (conditions).
\*    Conditions occur only under Not/And/Or and as the first operand of Conditional; comparisons take
\*    numeric operands - what UFL can produce.

Sym(n, d) == T4("Symbol", n, <<>>, d)
Mk(k, s, a, d) == T4(k, s, a, d)

Leaves(ty) ==
  IF ty = "num" THEN {Sym("x", "REAL"), Sym("z", "SCALAR"), Mk("FloatPos", "2.5", <<>>, "REAL"), Mk("FloatNeg", "2.5", <<>>, "REAL"),
                      Mk("IntPos", "3", <<>>, "INT"), Mk("IntNeg", "3", <<>>, "INT"),
                      Mk("Complex", "", <<Mk("FloatPos", "1.5", <<>>, "REAL"), Mk("FloatNeg", "2.5", <<>>, "REAL")>>, "SCALAR")}
  ELSE IF ty = "int" THEN {Sym("i", "INT"), Mk("IntPos", "3", <<>>, "INT"), Mk("IntNeg", "3", <<>>, "INT")}
  ELSE IF ty = "bsym" THEN {Sym("b", "BOOL"), Sym("c", "BOOL")}     \* truth-valued symbols (the only truth values lnodes
                                                                    \* accepts as the branches of a conditional)
  ELSE {}

Filler(ty) == CASE ty = "num" -> Sym("y", "REAL") [] ty = "int" -> Sym("j", "INT") [] ty = "bsym" -> Sym("b", "BOOL")
                [] OTHER -> Mk("LT", "", <<Sym("p", "REAL"), Sym("q", "REAL")>>, "BOOL")

\* operator shapes: kind, s, operand types, result dtype; "T" stands for the (num|int) type being built
Shapes(ty) ==
  IF ty = "bsym" THEN {}
  ELSE IF ty \in {"num", "int"} THEN
    {[k |-> "Neg", s |-> "", args |-> <<ty>>], [k |-> "Add", s |-> "", args |-> <<ty, ty>>],
     [k |-> "Sub", s |-> "", args |-> <<ty, ty>>], [k |-> "Mul", s |-> "", args |-> <<ty, ty>>],
     [k |-> "Div", s |-> "", args |-> <<ty, ty>>], [k |-> "Sum", s |-> "", args |-> <<ty, ty>>],
     [k |-> "Sum", s |-> "", args |-> <<ty, ty, ty>>], [k |-> "Product", s |-> "", args |-> <<ty, ty>>],
     [k |-> "Product", s |-> "", args |-> <<ty, ty, ty>>], [k |-> "Conditional", s |-> "", args |-> <<"bool", ty, ty>>]}
    \cup (IF ty = "num" THEN
           {[k |-> "MathFunction", s |-> "sqrt", args |-> <<"num">>], [k |-> "MathFunction", s |-> "power", args |-> <<"num", "num">>],
            [k |-> "ArrayAccess", s |-> "A", args |-> <<"int">>], [k |-> "ArrayAccess", s |-> "A", args |-> <<"int", "int">>]}
          ELSE {[k |-> "ArrayAccess", s |-> "P", args |-> <<"int">>]})
  ELSE
    {[k |-> c, s |-> "", args |-> <<"num", "num">>] : c \in {"EQ", "NE", "LT", "GT", "LE", "GE"}}
    \cup {[k |-> "And", s |-> "", args |-> <<"bool", "bool">>], [k |-> "Or", s |-> "", args |-> <<"bool", "bool">>],
          [k |-> "Not", s |-> "", args |-> <<"bool">>]}
    \* lnodes' typing (merge_dtypes) also admits equality between two truth values: a comparison, a negation or a
    \* connective as an operand of == / != (Python chains comparisons and binds `not` loosest)
    \cup {[k |-> c, s |-> "", args |-> <<"bool", "bool">>] : c \in {"EQ", "NE"}}
    \* a selection between two truth-valued symbols: a conditional that can stand in the condition slot of another one
    \cup {[k |-> "Conditional", s |-> "", args |-> <<"bool", "bsym", "bsym">>]}

DOf(sh, ty) == IF ty = "bool" THEN "BOOL" ELSE IF ty = "int" THEN "INT" ELSE "REAL"

\* sh applied to fillers, operand i replaced by c
Plug(sh, ty, i, c) == Mk(sh.k, sh.s, [j \in 1..Len(sh.args) |-> IF j = i THEN c ELSE Filler(sh.args[j])], DOf(sh, ty))

Types == {"num", "int", "bool"}

\* representatives used as CHILDREN: every operator shape over fillers, and unary minus over every leaf
\* (the only operator the printer glues to its operand's text)
OnFillers(sh, ty) == Mk(sh.k, sh.s, [j \in 1..Len(sh.args) |-> Filler(sh.args[j])], DOf(sh, ty))
Reps1(ty) ==
  IF ty = "bsym" THEN Leaves("bsym") ELSE
  {OnFillers(sh, ty) : sh \in Shapes(ty)}
  \cup (IF ty = "bool" THEN {} ELSE {Mk("Neg", "", <<l>>, l.d) : l \in Leaves(ty)})

\* spine trees: one operand path is deep, the other operands are fillers
\*   Spine(1, ty): every shape, every operand position, every leaf there
\*   Spine(d, ty): every shape, every operand position, every representative of depth d-1 there
\* so depth 2 contains every (parent, child, operand position) triple and depth 3 every
\* (parent, position, child, position, grandchild) chain.
RECURSIVE Reps(_, _)
Reps(d, ty) ==
  IF d = 1 THEN Reps1(ty)
  ELSE {Plug(sh, ty, i, c) : <<sh, i, c>> \in
          UNION {UNION {{<<sh, i, c>> : c \in Reps(d - 1, sh.args[i])} : i \in 1..Len(sh.args)} : sh \in Shapes(ty)}}

Spine(d, ty) ==
  IF d = 1
  THEN {Plug(sh, ty, i, c) : <<sh, i, c>> \in
          UNION {UNION {{<<sh, i, c>> : c \in Leaves(sh.args[i])} : i \in 1..Len(sh.args)} : sh \in Shapes(ty)}}
       \cup Reps1(ty)
  ELSE Reps(d, ty)

\* every binary numeric-operand node over every pair of leaves (literal/literal adjacency, e.g. a - -2.5)
Pairs ==
  {Mk(k, "", <<l, r>>, IF k \in {"Add", "Sub", "Mul", "Div"} THEN "REAL" ELSE "BOOL") :
     <<k, l, r>> \in {"Add", "Sub", "Mul", "Div", "LT", "EQ"} \X Leaves("num") \X Leaves("num")}
\* n-ary nodes of arity 1..3 over leaves, a negative literal in each position
Naries ==
  {Mk(k, "", xs, "REAL") : <<k, xs>> \in {"Sum", "Product"} \X
      ({<<l>> : l \in Leaves("num")} \cup
       {<<l, Sym("y", "REAL"), m>> : <<l, m>> \in Leaves("num") \X {Sym("x", "REAL"), Mk("FloatNeg", "2.5", <<>>, "REAL")}})}
\* conditional nesting in each branch, boolean structure in the condition
CondNests ==
  LET c1 == Filler("bool")
      c2 == Mk("GE", "", <<Sym("r", "REAL"), Mk("FloatNeg", "2.5", <<>>, "REAL")>>, "BOOL")
      inner == Mk("Conditional", "", <<c2, Sym("u", "REAL"), Sym("v", "REAL")>>, "REAL")
      conds == {c1, Mk("And", "", <<c1, c2>>, "BOOL"), Mk("Or", "", <<c1, c2>>, "BOOL"), Mk("Not", "", <<c1>>, "BOOL"),
                Mk("Or", "", <<Mk("And", "", <<c1, c2>>, "BOOL"), Mk("Not", "", <<c2>>, "BOOL")>>, "BOOL"),
                Mk("And", "", <<Mk("Or", "", <<c1, c2>>, "BOOL"), Mk("Not", "", <<Mk("And", "", <<c1, c2>>, "BOOL")>>, "BOOL")>>, "BOOL")} IN
  {Mk("Conditional", "", <<c, t, f>>, "REAL") : <<c, t, f>> \in conds \X {Sym("x", "REAL"), inner} \X {Sym("y", "REAL"), inner}}

\* MultiIndex: ONE operand node [k = "MultiIndex", a = <<flattened index, symbols, sizes>>] whose meaning is its
\* flattened (row-major) index a[1] - both formatters print exactly that expression in its place.  In enumerated trees
\* a[1] is the reference  sum_k stride_k * symbol_k  (strides written out, they are products of the later sizes);
\* in trees exported from real objects it is the real MultiIndex.global_index (whose value C17 checks).
IntL(n) == Mk("IntPos", n, <<>>, "INT")
MI(syms, sizes, strides) ==
  Mk("MultiIndex", "",
     <<Mk("Sum", "", [k \in 1..Len(syms) |-> IF strides[k] = "1" THEN syms[k] ELSE Mk("Mul", "", <<IntL(strides[k]), syms[k]>>, "INT")], "INT"),
       Mk("symbols", "", syms, ""), Mk("sizes", "", [k \in 1..Len(sizes) |-> IntL(sizes[k])], "")>>, "INT")
MIs ==
  LET i == Sym("i", "INT")  j == Sym("j", "INT")  k == Sym("k", "INT") IN
  {MI(<<i>>, <<"5">>, <<"1">>), MI(<<i, j>>, <<"4", "3">>, <<"3", "1">>), MI(<<i, j>>, <<"1", "3">>, <<"3", "1">>),
   MI(<<i, j>>, <<"4", "1">>, <<"1", "1">>), MI(<<i, j, k>>, <<"2", "3", "4">>, <<"12", "4", "1">>),
   MI(<<i, IntL("2"), j>>, <<"2", "3", "4">>, <<"12", "4", "1">>), MI(<<IntL("0"), j>>, <<"2", "2">>, <<"2", "1">>)}

\* a MultiIndex as a direct operand of every arithmetic / comparison / conditional / call shape, in every operand
\* position; the same inside an array subscript; and as a subscript itself
MIOperandTrees ==
  LET arith == UNION {{Plug(sh, ty, n, m) : <<n, m>> \in {<<q, mm>> \in (1..Len(sh.args)) \X MIs : sh.args[q] = ty}} :
                        <<sh, ty>> \in {<<s, t>> \in (Shapes("int") \cup Shapes("num")) \X {"int", "num"} : s \in Shapes(t)}}
      cmp == UNION {{Plug(sh, "bool", n, m) : <<n, m>> \in {<<q, mm>> \in (1..Len(sh.args)) \X MIs : sh.args[q] = "num"}} : sh \in Shapes("bool")} IN
  arith \cup cmp
  \cup {Mk("ArrayAccess", "A", <<t>>, "REAL") : t \in {x \in arith : x.d = "INT"}}
  \cup {Mk("ArrayAccess", "w", <<Mk("Add", "", <<Mk("Mul", "", <<m, IntL("2")>>, "INT"), IntL("1")>>, "INT")>>, "SCALAR") : m \in MIs}
  \cup {Mk("ArrayAccess", "A", <<m>>, "REAL") : m \in MIs}
  \cup {Mk("Add", "", <<Mk("ArrayAccess", "A", <<Sym("q", "INT"), m>>, "REAL"), Sym("y", "REAL")>>, "REAL") : m \in MIs}

\* every math function lnodes can produce (lnodes._ufl_call_lookup), over real and complex arguments where defined
Fn1 == {"sqrt", "abs", "cos", "sin", "tan", "acos", "asin", "atan", "cosh", "sinh", "tanh", "exp", "ln"}
MathTrees ==
  LET x == Sym("x", "REAL")  y == Sym("y", "REAL")  z == Sym("z", "SCALAR")  n == Sym("n", "INT") IN
  {Mk("MathFunction", f, <<a>>, a.d) : <<f, a>> \in Fn1 \X {x, z, Mk("Neg", "", <<x>>, "REAL"), Mk("Add", "", <<x, z>>, "SCALAR")}}
  \cup {Mk("MathFunction", f, <<z>>, "SCALAR") : f \in {"real", "imag", "conj"}}
  \cup {Mk("MathFunction", "erf", <<x>>, "REAL")}
  \cup {Mk("MathFunction", "power", <<a, b>>, a.d) : <<a, b>> \in {x, z, Mk("FloatPos", "2.5", <<>>, "REAL")} \X {y, z, Mk("IntPos", "3", <<>>, "INT"), Mk("FloatNeg", "2.5", <<>>, "REAL")}}
  \cup {Mk("MathFunction", f, <<x, y>>, "REAL") : f \in {"atan2", "min_value", "max_value"}}
  \cup {Mk("MathFunction", f, <<a, x>>, a.d) : <<f, a>> \in {"bessel_j", "bessel_y"} \X {n, Mk("IntPos", "3", <<>>, "INT")}}
  \cup {Mk("Mul", "", <<Mk("MathFunction", "max_value", <<x, Mk("MathFunction", "min_value", <<y, Mk("FloatNeg", "2.5", <<>>, "REAL")>>, "REAL")>>, "REAL"), y>>, "REAL")}

Depth == IF "S6_DEPTH" \in DOMAIN IOEnv THEN (IF IOEnv.S6_DEPTH = "3" THEN 3 ELSE 2) ELSE 2

Trees ==
  UNION {Spine(d, ty) : <<d, ty>> \in (1..Depth) \X {"num", "bool"}} \cup Leaves("num") \cup Pairs \cup Naries \cup CondNests \cup MathTrees \cup MIOperandTrees

---------------------------------------------------------------------------
\* design-level round trip for one tree:  Parse(Format(t)) matches Canon(t)

TreeSeq == SetToSeq(Trees)

DesignC(t) == Match(ParseCExpr(FormatC(t)), CanonC(t, "complex128"))
DesignPy(t) == Match(ParsePyExpr(FormatPy(t)), CanonPy(t, "complex128"))
=============================================================================
