---------------------------- MODULE FormSpace -----------------------------
(* The bounded space of abstract form cases the S5 checks range over.       *)
(* TLC enumerates it (ASSUME-only module); each record is realised by       *)
(* harness/corpus.py as real UFL objects.  `Valid` carries the limits of    *)
(* the exact model (DESIGN.md section 5), so that what is *not* covered is  *)
(* stated here and not buried in a generator.                               *)
EXTENDS Integers, Sequences, FiniteSets, TLC

Cells == {"interval", "triangle", "tetrahedron", "quadrilateral", "hexahedron"}
Simplex(c) == c \in {"interval", "triangle", "tetrahedron"}
Tdim(c) == CASE c = "interval" -> 1 [] c \in {"triangle", "quadrilateral"} -> 2 [] OTHER -> 3   \* incl. prism

\* element kinds (argument / coefficient spaces)
Elems == {"P1", "P2", "P3", "DG0", "DG1", "vP1", "vP2", "symP1", "TH", "RT1", "N1", "BDM1", "RTxDG0",
          "bubble", "real", "quad", "RTCF1", "RTCE1"}
Scalar(e) == e \in {"P1", "P2", "P3", "DG0", "DG1", "bubble", "real", "quad", "iso"}
Piola(e) == e \in {"RT1", "N1", "BDM1", "RTxDG0", "RTCF1", "RTCE1"}
Deg(e) == CASE e \in {"P1", "DG1", "vP1", "symP1", "RT1", "N1", "BDM1", "RTxDG0", "RTCF1", "RTCE1", "iso"} -> 1
            [] e \in {"P2", "vP2", "TH"} -> 2 [] e = "P3" -> 3 [] e = "bubble" -> 3 [] e = "quad" -> 2 [] OTHER -> 0

\* integrand shapes; rank is implied
Terms == {"mass", "stiff", "conv", "coefmass", "xmass", "cten", "divdiv", "curlcurl", "mixeddiv",
          "load", "gradload", "energy", "xint", "deriv", "cond", "absmax", "tworules", "hess", "cplx", "geo",
          "mathfn", "mathfn2", "cmathfn", "bessel", "ccond", "sesq"}
Rank(t) == CASE t \in {"load", "gradload"} -> 1 [] t \in {"energy", "xint"} -> 0 [] OTHER -> 2
\* polynomial degree added by the term on top of the two element degrees (coefficient/x factors)
Extra(t) == CASE t \in {"conv", "coefmass", "xmass", "cplx"} -> 1 [] t = "xint" -> 2 [] OTHER -> 0
NDeriv(t) == CASE t \in {"stiff", "cten", "divdiv", "curlcurl", "gradload", "cplx", "sesq"} -> 2
               [] t \in {"conv", "mixeddiv"} -> 1 [] t = "hess" -> 4 [] OTHER -> 0

Rules == {"exact", "custom", "vertex"}
Geoms == {"affine", "nonaffine", "manifold"}
CoordDeg == {1, 2}

Case == [cell : Cells, elem : Elems, term : Terms, rule : Rules, geom : Geoms, xdeg : CoordDeg]

IntegrandDeg(c) ==
  LET r == Rank(c.term)
      per == IF Simplex(c.cell) THEN 1 ELSE Tdim(c.cell)         \* Q_k has total degree k*tdim
      d == Deg(c.elem) * per
      n == IF r = 2 THEN 2 * d ELSE IF r = 1 THEN d + 1 ELSE 2 * d
  IN n + Extra(c.term)

Valid(c) ==
  \* element / cell compatibility
  /\ (c.elem \in {"RT1", "N1", "BDM1", "RTxDG0", "TH", "bubble"} => c.cell \in {"triangle", "tetrahedron"})
  /\ (c.elem \in {"RTCF1", "RTCE1"} => c.cell = "quadrilateral" /\ c.term \in {"mass", "coefmass", "load", "energy", "divdiv", "curlcurl", "xmass"}
                                        /\ (c.elem = "RTCF1" => c.term # "curlcurl") /\ (c.elem = "RTCE1" => c.term # "divdiv"))
  \* (macro elements such as "iso" are not in the space: basix tabulates their derivatives on the sub-cell
  \*  boundaries, where the rational rules' points lie, with values that do not reconstruct as small rationals)
  /\ (c.elem = "symP1" => Tdim(c.cell) >= 2)
  /\ (c.elem = "P3" => c.cell \in {"interval", "triangle"})
  /\ (c.elem = "quad" => c.cell = "triangle" /\ c.rule = "exact" /\ c.term \in {"mass", "coefmass", "load"})
  /\ (c.elem = "real" => c.term \in {"mass", "coefmass", "load", "xmass"})
  \* term / element compatibility
  /\ (c.term \in {"conv", "cond", "absmax", "hess", "deriv", "cplx"} => Scalar(c.elem) /\ c.elem \notin {"real", "quad"})
  /\ (c.term = "cplx" => c.elem \in {"P1", "P2", "DG1"} /\ c.rule # "exact")
  \* conditionals whose branches have different scalar kinds (real-typed literal / geometry vs complex data)
  \* data in the conjugated slot of inner(): conj(g) in complex mode, g in real mode
  /\ (c.term = "sesq" => c.elem \in {"P1", "P2", "DG1", "vP1"} /\ c.rule # "exact")
  /\ (c.term = "ccond" => c.elem \in {"P1", "P2", "DG1", "DG0"} /\ c.rule # "exact")
  /\ (c.term = "geo" => c.cell \in {"interval", "triangle", "quadrilateral"} /\ c.elem \in {"P1", "P2", "DG0"}
                         /\ c.geom = "affine" /\ c.xdeg = 1)
  \* transcendental functions of coefficients / constants / x: libm on exact arguments (never an exact rule)
  /\ (c.term \in {"mathfn", "mathfn2", "cmathfn", "bessel"} => c.elem \in {"P1", "P2", "DG1", "DG0"} /\ c.rule # "exact")
  /\ (c.term \in {"stiff", "cten", "gradload"} => ~Piola(c.elem) /\ c.elem \notin {"DG0", "real", "quad"})
  /\ (c.term = "divdiv" => c.elem \in {"vP1", "vP2", "RT1", "BDM1", "RTCF1"})
  /\ (c.term = "curlcurl" => c.elem \in {"N1", "RTCE1"} \/ (c.elem \in {"vP1", "vP2"} /\ Tdim(c.cell) = 3))
  /\ (c.term = "mixeddiv" <=> c.elem \in {"RTxDG0", "TH"})
  /\ (c.term = "hess" => c.elem \in {"P2", "P3"} /\ c.geom # "manifold")
  /\ (c.term = "tworules" => c.rule = "custom")
  /\ (c.term = "xint" => c.elem = "P1")
  \* geometry: non-affine needs a coordinate element that can bend; Piola derivatives only on affine cells
  /\ (c.geom = "nonaffine" => (c.xdeg = 2 \/ ~Simplex(c.cell)))
  /\ (c.geom = "manifold" => c.cell \in {"interval", "triangle", "quadrilateral"} /\ ~Piola(c.elem) /\ c.xdeg = 1)
  \* (derivatives of Piola-mapped fields and Hessians on non-affine cells use the geometry's second derivatives)
  /\ (c.xdeg = 2 => c.cell \in {"interval", "triangle", "quadrilateral"})
  \* the exact rule is only an oracle for polynomial integrands on affine cells, and only while
  \* its rationals stay inside 32 bits (degree bound found by experiment)
  /\ (c.rule = "exact" => c.geom = "affine" /\ c.term \notin {"cond", "absmax"}
                          /\ IntegrandDeg(c) <= (IF Tdim(c.cell) = 3 THEN 3 ELSE 4))
  /\ (c.rule = "vertex" => c.cell \in {"interval", "triangle", "tetrahedron", "quadrilateral"})
  \* keep 3D cases small
  /\ (Tdim(c.cell) = 3 => Deg(c.elem) <= 2 /\ c.term \notin {"hess", "deriv", "tworules"})

ValidCases == {c \in Case : Valid(c)}

---------------------------------------------------------------------------
(* facet, vertex and ridge integrals (C02, C03) *)
FCells == Cells \cup {"prism"}
Measures == {"ds", "dS", "dP", "dr"}          \* dr: ridges = sub-entities of codimension 2 (ufl.Measure("ridge"))
FTerms == {"mass", "flux", "coef", "xw", "nload", "fload", "area", "geods",  \* ds / dP
           "jump", "avgflux", "pm", "coefpm", "jumpload", "njump", "geodS",   \* dS
           "rgrad"}                                                          \* dr: inner(grad u, grad v)
FRank(t) == CASE t \in {"nload", "fload", "jumpload"} -> 1 [] t = "area" -> 0 [] OTHER -> 2
FElems == {"P1", "P2", "DG0", "DG1", "vP1", "RT1", "N1", "TH"}
FCase == [cell : FCells, elem : FElems, term : FTerms, measure : Measures, rule : {"exact", "custom", "vertex"}]

FValid(c) ==
  /\ (c.measure = "dS" <=> c.term \in {"jump", "avgflux", "pm", "coefpm", "jumpload", "njump", "geodS"})
  \* geometric quantities (circumradius, diameter, edge lengths, volume, facet area): degree-1 cells in 1D/2D
  /\ (c.term \in {"geods", "geodS"} => c.cell \in {"interval", "triangle", "quadrilateral"} /\ c.elem \in {"P1", "DG0", "DG1"})
  /\ (c.measure = "dP" => c.term \in {"mass", "coef", "fload"} /\ c.elem \in {"P1", "P2", "vP1"} /\ c.rule = "exact"
                          /\ c.cell # "prism")
  /\ (c.elem \in {"RT1", "N1", "TH"} => c.cell \in {"triangle", "tetrahedron"})
  /\ (c.term \in {"flux", "avgflux"} => c.elem \in {"P1", "P2", "DG1", "vP1"})
  /\ (c.term \in {"xw", "nload", "njump"} => c.elem \in {"P1", "P2", "DG1", "DG0"})
  /\ (c.cell = "prism" => c.elem \in {"P1", "DG0"} /\ c.measure \in {"ds", "dr"} /\ c.rule = "exact"
                          \* ffcx has no reference facet normals for prisms ("Unhandled cell types prism": a rejection)
                          /\ (c.measure = "ds" => c.term \in {"mass", "coef", "fload", "area"}))
  \* ridge integrals: cells of dimension >= 2 (edges of 3D cells, vertices of 2D cells); there is no facet normal
  \* on a ridge, so only the normal-free integrands ("xw" is realised as x[0] u v there); on a 2D cell the ridge is
  \* a point and UFL drops the quadrature weight (scale = 1), so only the default one-point rule is meaningful
  /\ (c.measure = "dr" => c.cell # "interval" /\ c.term \in {"mass", "coef", "xw", "fload", "area", "rgrad"}
                          /\ (Tdim(c.cell) = 2 => c.rule = "exact")
                          \* (basix's RT basis on the tetrahedron takes irrational values, multiples of sqrt 2, on some edges)
                          /\ (c.cell = "tetrahedron" => c.elem # "RT1"))
  /\ (c.term = "rgrad" => c.measure = "dr" /\ c.elem \in {"P1", "P2", "DG1", "vP1"})
  /\ (c.cell = "interval" => c.rule = "exact")
  /\ (c.rule = "vertex" => c.cell \in {"triangle", "tetrahedron", "quadrilateral"} /\ c.measure # "dP")
  /\ (c.cell = "hexahedron" => c.elem \in {"P1", "DG0", "DG1"})
  /\ (c.cell = "tetrahedron" => c.elem # "P2" \/ c.term \in {"mass", "jump", "fload"})
  /\ (c.rule = "exact" => (IF c.elem \in {"P2", "TH"} THEN FRank(c.term) < 2 \/ Tdim(c.cell) <= 2 ELSE TRUE))
ValidFCases == {c \in FCase : FValid(c)}

---------------------------------------------------------------------------
(* expressions evaluated at reference points (C04) *)
ETerms == {"u", "gradu", "fgradu", "symgrad", "x", "n", "f", "gradf", "cgradf", "hessf", "absf", "fu", "outer",
           "elim", "celim", "fg", "un", "condu"}
ERank(t) == IF t \in {"u", "gradu", "fgradu", "symgrad", "fu", "un", "condu"} THEN 1 ELSE 0
EElems == {"P1", "P2", "DG1", "vP1", "vP2", "N1", "RT1", "symP1", "TH"}
ECase == [cell : Cells, elem : EElems, term : ETerms, pts : {"cell", "facet", "interp"}, geom : {"affine", "nonaffine", "manifold"}]
EValid(c) ==
  /\ (c.elem \in {"N1", "RT1", "TH"} => c.cell \in {"triangle", "tetrahedron"} /\ c.term \in {"u", "f", "fu"})
  /\ (c.term = "symgrad" => c.elem \in {"vP1", "vP2"})
  /\ (c.term = "outer" => c.elem \in {"vP1"})
  /\ (c.term \in {"fgradu", "cgradf", "hessf", "absf"} => c.elem \in {"P1", "P2", "DG1"})
  /\ (c.term = "hessf" => c.elem = "P2" /\ c.geom = "affine")
  /\ (c.term \in {"n", "un"} => c.pts = "facet")
  /\ (c.term = "n" => c.elem = "P1")
  /\ (c.pts = "facet" => c.term \in {"n", "un", "u", "gradu", "f", "fu", "x", "gradf"})
  /\ (c.term \in {"elim", "celim", "fg", "un", "condu"} => c.elem \in {"P1", "P2", "DG1"})
  /\ (c.pts = "facet" => c.cell # "interval")
  /\ (c.elem = "symP1" => Tdim(c.cell) = 2 /\ c.term \in {"u", "f"})
  /\ (c.geom = "nonaffine" => c.cell \in {"quadrilateral", "hexahedron"} /\ ~(c.elem \in {"N1", "RT1"}))
  /\ (c.geom = "manifold" => c.cell \in {"interval", "triangle"} /\ c.elem \in {"P1", "P2", "vP1"} /\ c.pts # "facet"
                              /\ c.term \notin {"hessf", "symgrad", "outer"})
  /\ (Tdim(c.cell) = 3 => c.elem \in {"P1", "vP1", "N1", "DG1"})
  /\ (c.pts = "interp" => c.cell \in {"triangle", "quadrilateral", "interval"})
ValidECases == {c \in ECase : EValid(c)}

ASSUME PrintT(<<"NECASES", Cardinality(ValidECases)>>)
ASSUME \A c \in ValidECases : PrintT(<<"ECASE", c>>)
ASSUME PrintT(<<"NFCASES", Cardinality(ValidFCases)>>)
ASSUME \A c \in ValidFCases : PrintT(<<"FCASE", c>>)
ASSUME PrintT(<<"NCASES", Cardinality(ValidCases)>>)
ASSUME \A c \in ValidCases : PrintT(<<"CASE", c>>)
=============================================================================
