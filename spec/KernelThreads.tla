---------------------------- MODULE KernelThreads ----------------------------
(***************************************************************************)
(* S4 / C07 - why WriteDiscipline makes concurrent kernel calls safe.      *)
(*                                                                         *)
(* Two threads execute kernel bodies at the same time.  Memory: a shared   *)
(* `static const` region T and shared inputs W (both read-only), one       *)
(* private register per thread, one element tensor A[t] per thread         *)
(* (disjoint), and - only when MutableStatic = TRUE, the negative control  *)
(* - one shared mutable static cell S.  A statement instance is one of     *)
(*     ld x    reg := x          x in T or W                               *)
(*     mul x   reg := reg * x                                              *)
(*     acc k   A[t][k] += reg                                              *)
(*     sst     S += reg          (mutable static: forbidden by             *)
(*     lds     reg := S           WriteDiscipline; control only)           *)
(* which are exactly the statement kinds Kernel!WriteDiscipline admits     *)
(* (reads of constants/inputs into locals, updates of locals, `+=` on the  *)
(* thread's own A).  TLC enumerates EVERY pair of programs with at most    *)
(* MaxLen statement instances per thread over the alphabet and EVERY       *)
(* interleaving; SameAsSequential says the final tensors equal those of    *)
(* running thread 1 to completion and then thread 2.                       *)
(***************************************************************************)
EXTENDS Integers, Sequences, FiniteSets, TLC

CONSTANTS MaxLen, MutableStatic, Rich

Q == 251
T == <<3, 7>>
W == <<5, 11>>

Alphabet ==
  {<<"ld", "T", 1>>, <<"mul", "W", 1>>, <<"acc", "", 1>>, <<"acc", "", 2>>}
  \cup (IF Rich THEN {<<"ld", "W", 2>>, <<"mul", "T", 2>>} ELSE {})
  \cup (IF MutableStatic THEN {<<"sst", "", 0>>, <<"lds", "", 0>>} ELSE {})

Programs == UNION {[1..n -> Alphabet] : n \in 0..MaxLen}

VARIABLES prog, pc, reg, A, S

vars == <<prog, pc, reg, A, S>>

Src(st) == IF st[2] = "T" THEN T[st[3]] ELSE W[st[3]]

\* one statement instance of thread t on memory (reg, A, S); returns the new memory
Exec(t, st, r, a, s) ==
  CASE st[1] = "ld"  -> [r |-> [r EXCEPT ![t] = Src(st)], a |-> a, s |-> s]
    [] st[1] = "mul" -> [r |-> [r EXCEPT ![t] = (r[t] * Src(st)) % Q], a |-> a, s |-> s]
    [] st[1] = "acc" -> [r |-> r, a |-> [a EXCEPT ![t][st[3]] = (a[t][st[3]] + r[t]) % Q], s |-> s]
    [] st[1] = "sst" -> [r |-> r, a |-> a, s |-> (s + r[t]) % Q]
    [] st[1] = "lds" -> [r |-> [r EXCEPT ![t] = s], a |-> a, s |-> s]

Init ==
  /\ prog \in [{1, 2} -> Programs]
  /\ pc = [t \in {1, 2} |-> 1]
  /\ reg = [t \in {1, 2} |-> 1]
  /\ A = [t \in {1, 2} |-> <<0, 0>>]
  /\ S = 0

StepT(t) ==
  /\ pc[t] <= Len(prog[t])
  /\ LET x == Exec(t, prog[t][pc[t]], reg, A, S) IN
     /\ reg' = x.r /\ A' = x.a /\ S' = x.s
  /\ pc' = [pc EXCEPT ![t] = @ + 1]
  /\ UNCHANGED prog

Next == StepT(1) \/ StepT(2)

RECURSIVE RunFrom(_, _, _, _)
RunFrom(t, p, i, mem) ==
  IF i > Len(p) THEN mem ELSE RunFrom(t, p, i + 1, Exec(t, p[i], mem.r, mem.a, mem.s))

Sequential ==
  LET m0 == [r |-> [t \in {1, 2} |-> 1], a |-> [t \in {1, 2} |-> <<0, 0>>], s |-> 0]
      m1 == RunFrom(1, prog[1], 1, m0)
  IN RunFrom(2, prog[2], 1, m1).a

Done == pc[1] > Len(prog[1]) /\ pc[2] > Len(prog[2])

SameAsSequential == Done => A = Sequential
\* disjointness of the tensors: a thread never changes the other thread's A (holds by construction of `acc`)
=============================================================================
