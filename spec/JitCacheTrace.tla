--------------------------- MODULE JitCacheTrace ---------------------------
(***************************************************************************)
(* Binding of JitCache.tla to executions of the real jit.py.               *)
(*                                                                         *)
(* Input: TRACE_FILE (json) = [ [line, line, ...], ... ] - one sequence    *)
(* per execution, one line per intercepted operation, written by           *)
(* harness/jitdrv/worker.py.  Each line carries the operation (process,    *)
(* JitCache action name, key, fault) and the *projection of the real       *)
(* state after it*: the cache directory (fs) and, per process, the call    *)
(* it is parked at (pc), polls, loaded generation, handlers/stdout/cwd.    *)
(*                                                                         *)
(* Mode = "strict":  a line is consumed only by the JitCache action it     *)
(*   names, taken from the current spec state, and only if the spec's      *)
(*   next state projects onto the logged state.  Acceptance (all lines     *)
(*   consumed) = the execution is a behaviour of JitCache (conformance).   *)
(* Mode = "observe": the state variables are bound to the logged state     *)
(*   whatever operation produced it; only the history variables            *)
(*   (sawCached, built, compilers, fault, counters) are maintained by      *)
(*   rule.  JitCache's property invariants are then evaluated on the       *)
(*   observed states - this judges the *implementation*, whatever          *)
(*   protocol it follows.                                                  *)
(*                                                                         *)
(* Verdicts are printed, never raised, so one TLC run judges every trace:  *)
(*   <<"AT", tid, l>>           trace tid consumed l-1 lines               *)
(*   <<"VIOL", tid, l, name>>   property `name` false after line l-1       *)
(***************************************************************************)
EXTENDS JitCache, Json, IOUtils

Traces == JsonDeserialize(IOEnv.TRACE_FILE)
Mode == IOEnv.TRACE_MODE

VARIABLES tid, l, resok

tvars == <<vars, tid, l, resok>>

Line == Traces[tid][l]

\* projection of a spec state onto what is logged
Logged(ln) ==
  /\ \A k \in Key :
       /\ fs'[k].c = ln.fs[k].c /\ fs'[k].owner = ln.fs[k].owner
       /\ fs'[k].cached = ln.fs[k].cached /\ fs'[k].failed = ln.fs[k].failed
       /\ fs'[k].obj = ln.fs[k].obj /\ fs'[k].so = ln.fs[k].so
       /\ fs'[k].gen = ln.fs[k].gen /\ fs'[k].markgen = ln.fs[k].markgen
  /\ \A p \in Proc :
       /\ pc'[p] = ln.procs[p].pc
       /\ pc'[p] \notin {"dead", "idle"} =>
            /\ polls'[p] = ln.procs[p].polls /\ loaded'[p] = ln.procs[p].loaded
            /\ hand'[p] = ln.procs[p].hand /\ out'[p] = ln.procs[p].out /\ cwd'[p] = ln.procs[p].cwd

TInit ==
  /\ tid \in 1..Len(Traces) /\ l = 1 /\ resok = TRUE
  /\ Init /\ key = [p \in Proc |-> Traces[tid][1].procs[p].key]

StrictStep ==
  LET ln == Line  p == ln.proc  a == ln.act IN
  /\ CASE a = "Request"     -> Request(p, ln.key, ln.fault)
       [] a = "TryLock"     -> TryLock(p)
       [] a = "Codegen"     -> Codegen(p)
       [] a = "CcSource"    -> CcSource(p)
       [] a = "CcObject"    -> CcObject(p)
       [] a = "LinkBegin"   -> LinkBegin(p)
       [] a = "LinkEnd"     -> LinkEnd(p)
       [] a = "CheckMarker" -> CheckMarker(p)
       [] a = "WriteMarker" -> WriteMarker(p)
       [] a = "LoadBuilder" -> LoadBuilder(p)
       [] a = "LoadWaiter"  -> LoadWaiter(p)
       [] a = "FailRename"  -> FailRename(p)
       [] a = "Poll"        -> Poll(p)
       [] a = "Sleep"       -> Sleep(p)
       [] a = "Return"      -> Return(p)
       [] a = "Kill"        -> Kill(p)
       [] OTHER             -> FALSE
  /\ Logged(ln)

\* observe mode: state := logged state; history variables by rule
ObserveStep ==
  LET ln == Line  p == ln.proc  a == ln.act  k == ln.key IN
  /\ fs' = [kk \in Key |-> [c |-> ln.fs[kk].c, owner |-> ln.fs[kk].owner, cached |-> ln.fs[kk].cached,
                            failed |-> ln.fs[kk].failed, obj |-> ln.fs[kk].obj, so |-> ln.fs[kk].so,
                            gen |-> ln.fs[kk].gen, markgen |-> ln.fs[kk].markgen]]
  /\ pc' = [q \in Proc |-> ln.procs[q].pc]
  /\ key' = [q \in Proc |-> ln.procs[q].key]
  /\ polls' = [q \in Proc |-> ln.procs[q].polls]
  /\ loaded' = [q \in Proc |-> ln.procs[q].loaded]
  /\ hand' = [q \in Proc |-> ln.procs[q].hand]
  /\ out' = [q \in Proc |-> ln.procs[q].out]
  /\ cwd' = [q \in Proc |-> ln.procs[q].cwd]
  /\ fault' = IF a = "Request" THEN [fault EXCEPT ![p] = ln.fault] ELSE fault
  /\ sawCached' = IF a = "Request" THEN [sawCached EXCEPT ![p] = fs[k].cached] ELSE sawCached
  /\ built' = CASE a = "Request" -> [built EXCEPT ![p] = FALSE]
                [] ln.ev \in {"cc", "link", "linkend"} -> [built EXCEPT ![p] = TRUE]
                [] OTHER -> built
  /\ compilers' = IF ln.ev = "cc" THEN [compilers EXCEPT ![k] = @ \cup {p}] ELSE compilers
  /\ reqs' = IF a = "Request" THEN reqs + 1 ELSE reqs
  /\ fails' = IF a = "Request" /\ ln.fault # "none" THEN fails + 1 ELSE fails
  /\ kills' = IF a = "Kill" THEN kills + 1 ELSE kills
  /\ prog' = prog
  /\ last' = <<a, p, pc[p]>>

TNext ==
  /\ l <= Len(Traces[tid])
  /\ IF Mode = "strict" THEN StrictStep ELSE ObserveStep
  /\ resok' = (resok /\ (Line.ev = "end" /\ Line.outcome = "returned" => Line.result_ok)
                     /\ (Line.ev = "load" => (Line.res = "ok" /\ Line.complete)))
  /\ l' = l + 1 /\ tid' = tid
  \* action properties of JitCache, judged on this step
  /\ LET ok1 == \A p \in Proc : (loaded'[p] # loaded[p] /\ loaded'[p] # 0) =>
                     (fs[key'[p]].so = "complete" /\ loaded'[p] = fs[key'[p]].gen)
         ok2 == \A p \in Proc : (pc[p] = "trylock" /\ fs[key[p]].c = "absent") => pc'[p] \in {"trylock", "gen", "dead"}
     IN /\ (ok1 \/ PrintT(<<"VIOL", tid, l + 1, "NoPartialLoad">>))
        /\ (ok2 \/ PrintT(<<"VIOL", tid, l + 1, "NextBuildsAfresh">>))

TSpec == TInit /\ [][TNext]_tvars

\* the kernels of a returned module compute the right tensor; a load is of a finished module
ResultsCorrect == resok

Judge ==
  /\ PrintT(<<"AT", tid, l>>)
  /\ (MutualExclusion \/ PrintT(<<"VIOL", tid, l, "MutualExclusion">>))
  /\ (OneBuild \/ PrintT(<<"VIOL", tid, l, "OneBuild">>))
  /\ (MarkerImpliesComplete \/ PrintT(<<"VIOL", tid, l, "MarkerImpliesComplete">>))
  /\ (LoadPointComplete \/ PrintT(<<"VIOL", tid, l, "LoadPointComplete">>))
  /\ (SameObjects \/ PrintT(<<"VIOL", tid, l, "SameObjects">>))
  /\ (ReturnedLoaded \/ PrintT(<<"VIOL", tid, l, "ReturnedLoaded">>))
  /\ (Reuse \/ PrintT(<<"VIOL", tid, l, "Reuse">>))
  /\ (NoHang \/ PrintT(<<"VIOL", tid, l, "NoHang">>))
  /\ (FailureReleasesLock \/ PrintT(<<"VIOL", tid, l, "FailureReleasesLock">>))
  /\ (UnfaultedNeverFails \/ PrintT(<<"VIOL", tid, l, "UnfaultedNeverFails">>))
  /\ (GlobalStateRestored \/ PrintT(<<"VIOL", tid, l, "GlobalStateRestored">>))
  /\ (ResultsCorrect \/ PrintT(<<"VIOL", tid, l, "ResultsCorrect">>))
=============================================================================
