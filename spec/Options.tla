------------------------------ MODULE Options ------------------------------
(***************************************************************************)
(* S3: option sources of the command-line compiler (property C20,          *)
(* "Command-line options take precedence over ffcx_options.json files,     *)
(* which take precedence over defaults"; the two json files are ordered    *)
(* $PWD/ffcx_options.json over $XDG_CONFIG_HOME/ffcx/ffcx_options.json).   *)
(*                                                                         *)
(* A configuration says, for every option and every source, whether the    *)
(* source sets the option and to what.  Effective(cfg, o) is the value the *)
(* compiler must use.  The bounded domain is enumerated by TLC as a state  *)
(* machine (one Set step per (option, source)), the per-option assignment  *)
(* sets are emitted for the harness, which combines one assignment per     *)
(* option into a real `python -m ffcx` run; OptionsJudge.tla compares.     *)
(***************************************************************************)
EXTENDS Integers, Sequences, FiniteSets, TLC

Unset == "unset"
\* sources in decreasing priority; "default" always sets every option
Sources == <<"cli", "pwd", "user">>

Opts == {"scalar_type", "sum_factorization", "table_rtol", "table_atol", "epsilon", "verbosity", "part", "language"}
Default == [scalar_type |-> "float64", sum_factorization |-> "false", table_rtol |-> "1e-06",
            table_atol |-> "1e-09", epsilon |-> "1e-14", verbosity |-> "30",
            part |-> "full", language |-> "C"]
\* The numeric options range over an explicit 0 (a *falsy* value that is nevertheless "set") and a
\* non-zero value different from the default; the default itself only comes from the default source.
Values == [scalar_type |-> {"float32", "float64"}, sum_factorization |-> {"true", "false"},
           table_rtol |-> {"0", "0.001"}, table_atol |-> {"0", "0.3"}, epsilon |-> {"0", "1e-07"},
           verbosity |-> {"0", "40"}, part |-> {"full", "diagonal"}, language |-> {"C", "numba"}]

\* What the generated code exhibits when option o has value v (behavioural witness classes).
\* table_atol = 0.3 rounds the tabulated basis values: the kernel's tensor is grossly wrong ("clamped");
\* 0 and the default 1e-09 both give the exact tensor.  Other witnesses show the value itself.
Witness(o, v) == IF o = "table_atol" THEN (IF v = "0.3" THEN "clamped" ELSE "exact") ELSE v

\* what a source can say: a json file any value; the command line cannot negate a flag
SourceValues(o, s) == IF s = "cli" /\ o = "sum_factorization" THEN {"true"} ELSE Values[o]

Assignments(o) == [cli : SourceValues(o, "cli") \cup {Unset}, pwd : SourceValues(o, "pwd") \cup {Unset},
                   user : SourceValues(o, "user") \cup {Unset}]

\* first source that sets the option, in the order CLI > PWD > user > default
EffectiveOf(a, o) ==
  IF a.cli # Unset THEN a.cli ELSE IF a.pwd # Unset THEN a.pwd ELSE IF a.user # Unset THEN a.user ELSE Default[o]
Effective(cfg, o) == EffectiveOf(cfg[o], o)

(* --------------------------- bounded domain ---------------------------- *)
CONSTANT MaxSet       \* at most this many (option, source) pairs set in the exhaustive run

VARIABLE cfg
AllUnset == [o \in Opts |-> [cli |-> Unset, pwd |-> Unset, user |-> Unset]]
NumSet(c) == Cardinality({p \in Opts \X {"cli", "pwd", "user"} : c[p[1]][p[2]] # Unset})

OInit == cfg = AllUnset
SetOne(o, s, v) == /\ cfg[o][s] = Unset /\ NumSet(cfg) < MaxSet
                   /\ cfg' = [cfg EXCEPT ![o][s] = v]
ONext == \E o \in Opts, s \in {"cli", "pwd", "user"} : \E v \in SourceValues(o, s) : SetOne(o, s, v)
OSpec == OInit /\ [][ONext]_cfg

Prio(s) == CHOOSE k \in 1..3 : Sources[k] = s     \* 1 = highest

(* ------- theorems about Effective, checked on the whole domain --------- *)
TypeOK == \A o \in Opts : cfg[o] \in Assignments(o) /\ Effective(cfg, o) \in Values[o] \cup {Default[o]}
NothingSetGivesDefault == \A o \in Opts : cfg[o] = AllUnset[o] => Effective(cfg, o) = Default[o]
CliWins == \A o \in Opts : cfg[o].cli # Unset => Effective(cfg, o) = cfg[o].cli
PwdBeatsUser == \A o \in Opts : (cfg[o].cli = Unset /\ cfg[o].pwd # Unset) => Effective(cfg, o) = cfg[o].pwd
\* a step that sets (o, s) changes nothing but Effective(o), and that only if no higher source is set
StepLocal ==
  [][\A o \in Opts :
        Effective(cfg', o) # Effective(cfg, o) =>
          \E s \in {"cli", "pwd", "user"} :
             /\ cfg[o][s] = Unset /\ cfg'[o][s] # Unset
             /\ \A h \in {"cli", "pwd", "user"} : Prio(h) < Prio(s) => cfg[o][h] = Unset
             /\ Effective(cfg', o) = cfg'[o][s]]_cfg

\* emission of the per-option assignment sets (run with MaxSet = 0: one state)
EmitAssignments ==
  \A o \in Opts : \A a \in Assignments(o) : PrintT(<<"ASSIGN", o, a, EffectiveOf(a, o)>>)
=============================================================================
