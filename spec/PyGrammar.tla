------------------------------ MODULE PyGrammar -----------------------------
(***************************************************************************)
(* The fragment of the Python grammar that the numba formatter's text can  *)
(* land in.  Source: The Python Language Reference 3.12, ch. 6             *)
(* (expressions), 7 (simple statements), 8.3 (for), and 2.1 (logical       *)
(* lines, INDENT/DEDENT produced by the tokenizer, harness/pytoken.py).    *)
(*                                                                         *)
(*   expression   disjunction [ if disjunction else expression ]   right   *)
(*   disjunction  conjunction { or conjunction }                           *)
(*   conjunction  inversion { and inversion }                              *)
(*   inversion    not inversion | comparison                               *)
(*   comparison   bitor { (<|>|==|>=|<=|!=) bitor }      CHAINED:          *)
(*                a < b < c  means  (a < b) and (b < c), one node "chain"  *)
(*   bitor | 1, xor ^ 2, and & 3, shift << >> 4, sum + - 5,                *)
(*   term * / // % @ 6      all left-associative                           *)
(*   factor       (+|-|~) factor | power                                   *)
(*   power        primary [ ** factor ]                         right      *)
(*   primary      atom { . NAME | ( arguments ) | [ subscripts ] }         *)
(*   atom         NAME | NUMBER | ( expr ) | ( tuple ) | [ list ]          *)
(*                                                                         *)
(* Same tree shape as CGrammar: [k, s, a]; children are kept in SOURCE      *)
(* order, so the conditional  t if c else f  is cond(t, c, f).  `x[i, j]` and `x[i][j]` both   *)
(* give idx(x, <<i, j>>) (they address the same element of an ndarray).    *)
(***************************************************************************)
EXTENDS Naturals, Sequences, TLC

LOCAL N(k, s, a) == [k |-> k, s |-> s, a |-> a]
LOCAL Leaf(k, s) == N(k, s, <<>>)
LOCAL Res(n, p) == [n |-> n, p |-> p]
LOCAL Err(msg, p) == Res(Leaf("error", msg), p)
LOCAL IsErr(r) == r.n.k = "error"

LOCAL EOF == [t |-> "eof", v |-> ""]
LOCAL Tok(toks, p) == IF p \in 1..Len(toks) THEN toks[p] ELSE EOF
LOCAL IsOp(toks, p, s) == Tok(toks, p).t = "op" /\ Tok(toks, p).v = s
LOCAL IsKw(toks, p, s) == Tok(toks, p).t = "kw" /\ Tok(toks, p).v = s

\* reference 6.17 "Operator precedence", the binary arithmetic / bitwise rows (larger binds tighter)
PyBinLevel ==
  ("|" :> 1) @@ ("^" :> 2) @@ ("&" :> 3) @@ ("<<" :> 4) @@ (">>" :> 4) @@ ("+" :> 5) @@ ("-" :> 5) @@
  ("*" :> 6) @@ ("/" :> 6) @@ ("//" :> 6) @@ ("%" :> 6) @@ ("@" :> 6)

PyCompareOps == {"<", ">", "==", ">=", "<=", "!="}
PyAugAssign == {"+=", "-=", "*=", "/=", "//=", "%=", "@=", "&=", "|=", "^=", ">>=", "<<=", "**="}

LOCAL IsTarget(n) == n.k \in {"sym", "idx"}

RECURSIVE PyExpr(_, _), PyOr(_, _), PyOrTail(_, _, _), PyAnd(_, _), PyAndTail(_, _, _), PyNot(_, _),
          PyCompare(_, _), PyCmpTail(_, _, _, _), PyBin(_, _, _), PyClimb(_, _, _, _), PyFactor(_, _),
          PyPower(_, _), PyTrailers(_, _, _), PyAtom(_, _), PyItems(_, _, _, _), PyItemsK(_, _, _, _), PyItemsAll(_, _, _, _), PyArg(_, _)

\* conditional expression:  t if c else f   (else-branch is again an expression: right-associative)
PyExpr(toks, p) ==
  LET t == PyOr(toks, p) IN
  IF IsErr(t) \/ ~IsKw(toks, t.p, "if") THEN t
  ELSE LET c == PyOr(toks, t.p + 1) IN
       IF IsErr(c) THEN c
       ELSE IF ~IsKw(toks, c.p, "else") THEN Err("expected 'else'", c.p)
       ELSE LET f == PyExpr(toks, c.p + 1) IN
            IF IsErr(f) THEN f ELSE Res(N("cond", "", <<t.n, c.n, f.n>>), f.p)   \* children in source order

PyOr(toks, p) == LET l == PyAnd(toks, p) IN IF IsErr(l) THEN l ELSE PyOrTail(toks, l.n, l.p)
PyOrTail(toks, lhs, p) ==
  IF IsKw(toks, p, "or")
  THEN LET r == PyAnd(toks, p + 1) IN IF IsErr(r) THEN r ELSE PyOrTail(toks, N("bin", "or", <<lhs, r.n>>), r.p)
  ELSE Res(lhs, p)

PyAnd(toks, p) == LET l == PyNot(toks, p) IN IF IsErr(l) THEN l ELSE PyAndTail(toks, l.n, l.p)
PyAndTail(toks, lhs, p) ==
  IF IsKw(toks, p, "and")
  THEN LET r == PyNot(toks, p + 1) IN IF IsErr(r) THEN r ELSE PyAndTail(toks, N("bin", "and", <<lhs, r.n>>), r.p)
  ELSE Res(lhs, p)

PyNot(toks, p) ==
  IF IsKw(toks, p, "not")
  THEN LET r == PyNot(toks, p + 1) IN IF IsErr(r) THEN r ELSE Res(N("not", "not", <<r.n>>), r.p)
  ELSE PyCompare(toks, p)

\* comparison chain: one operator -> ordinary binary node; more -> "chain" node (s lists the operators)
PyCompare(toks, p) ==
  LET l == PyBin(toks, p, 1) IN IF IsErr(l) THEN l ELSE PyCmpTail(toks, <<l.n>>, "", l.p)
PyCmpTail(toks, operands, ops, p) ==
  LET tk == Tok(toks, p) IN
  IF tk.t = "op" /\ tk.v \in PyCompareOps
  THEN LET r == PyBin(toks, p + 1, 1) IN
       IF IsErr(r) THEN r ELSE PyCmpTail(toks, Append(operands, r.n), IF ops = "" THEN tk.v ELSE ops \o " " \o tk.v, r.p)
  ELSE IF Len(operands) = 1 THEN Res(operands[1], p)
  ELSE IF Len(operands) = 2 THEN Res(N("bin", ops, operands), p)
  ELSE Res(N("chain", ops, operands), p)

PyBin(toks, p, minl) ==
  LET u == PyFactor(toks, p) IN IF IsErr(u) THEN u ELSE PyClimb(toks, u.n, u.p, minl)
PyClimb(toks, lhs, p, minl) ==
  LET tk == Tok(toks, p) IN
  IF tk.t = "op" /\ tk.v \in DOMAIN PyBinLevel /\ PyBinLevel[tk.v] >= minl
  THEN LET r == PyBin(toks, p + 1, PyBinLevel[tk.v] + 1) IN
       IF IsErr(r) THEN r ELSE PyClimb(toks, N("bin", tk.v, <<lhs, r.n>>), r.p, minl)
  ELSE Res(lhs, p)

PyFactor(toks, p) ==
  LET tk == Tok(toks, p) IN
  IF tk.t = "op" /\ tk.v \in {"-", "+", "~"}
  THEN LET r == PyFactor(toks, p + 1) IN
       IF IsErr(r) THEN r
       ELSE Res(N(CASE tk.v = "-" -> "neg" [] tk.v = "+" -> "pos" [] OTHER -> "compl", tk.v, <<r.n>>), r.p)
  ELSE PyPower(toks, p)

PyPower(toks, p) ==
  LET a == PyAtom(toks, p) IN
  IF IsErr(a) THEN a
  ELSE LET b == PyTrailers(toks, a.n, a.p) IN
       IF IsErr(b) \/ ~IsOp(toks, b.p, "**") THEN b
       ELSE LET e == PyFactor(toks, b.p + 1) IN
            IF IsErr(e) THEN e ELSE Res(N("bin", "**", <<b.n, e.n>>), e.p)

PyTrailers(toks, lhs, p) ==
  IF IsOp(toks, p, ".")
  THEN IF Tok(toks, p + 1).t # "id" THEN Err("expected a name after '.'", p + 1)
       ELSE IF lhs.k # "sym" THEN Err("attribute of a non-name", p)
       ELSE PyTrailers(toks, Leaf("sym", lhs.s \o "." \o Tok(toks, p + 1).v), p + 2)
  ELSE IF IsOp(toks, p, "(")
  THEN IF lhs.k # "sym" THEN Err("call of a non-name", p)
       ELSE LET as == PyItems(toks, p + 1, <<>>, ")") IN
            IF IsErr(as) THEN as ELSE PyTrailers(toks, N("call", lhs.s, as.n.a), as.p)
  ELSE IF IsOp(toks, p, "[")
  THEN LET ix == PyItems(toks, p + 1, <<>>, "]") IN
       IF IsErr(ix) THEN ix
       ELSE IF ix.n.a = <<>> THEN Err("empty subscript", p)
       ELSE PyTrailers(toks, CASE lhs.k = "sym" -> N("idx", lhs.s, ix.n.a)
                               [] lhs.k = "idx" -> N("idx", lhs.s, lhs.a \o ix.n.a)
                               [] OTHER -> N("subscript", "", <<lhs>> \o ix.n.a), ix.p)
  ELSE Res(lhs, p)

\* comma-separated items up to and including `closer`; s = "," iff a trailing comma was seen.
\* Long lists (np.array tables) are read by doubling: PyItemsK reads at most 2^k items.
PyItems(toks, p, acc, closer) ==
  LET it == PyItemsAll(toks, p, 0, closer) IN
  IF IsErr(it) THEN it
  ELSE Res(N("items", IF it.n.a # <<>> /\ IsOp(toks, it.p - 1, ",") THEN "," ELSE "", it.n.a), it.p + 1)

PyItemsK(toks, p, k, closer) ==
  IF IsOp(toks, p, closer) \/ p > Len(toks) THEN Res(N("items", "", <<>>), p)
  ELSE IF k = 0
  THEN LET e == PyArg(toks, p) IN
       IF IsErr(e) THEN e
       ELSE IF IsOp(toks, e.p, ",") THEN Res(N("items", "", <<e.n>>), e.p + 1)
       ELSE IF IsOp(toks, e.p, closer) THEN Res(N("items", "", <<e.n>>), e.p)
       ELSE Err("expected ',' or '" \o closer \o "'", e.p)
  ELSE LET l == PyItemsK(toks, p, k - 1, closer) IN
       IF IsErr(l) THEN l
       ELSE LET r == PyItemsK(toks, l.p, k - 1, closer) IN
            IF IsErr(r) THEN r ELSE Res(N("items", "", l.n.a \o r.n.a), r.p)

PyItemsAll(toks, p, k, closer) ==
  LET l == PyItemsK(toks, p, k, closer) IN
  IF IsErr(l) THEN l
  ELSE IF IsOp(toks, l.p, closer) THEN l
  ELSE IF l.p > Len(toks) THEN Err("missing '" \o closer \o "'", l.p)
  ELSE LET r == PyItemsAll(toks, l.p, k + 1, closer) IN
       IF IsErr(r) THEN r ELSE Res(N("items", "", l.n.a \o r.n.a), r.p)

\* an item: expression, or keyword argument NAME = expression
PyArg(toks, p) ==
  IF Tok(toks, p).t = "id" /\ IsOp(toks, p + 1, "=")
  THEN LET e == PyExpr(toks, p + 2) IN IF IsErr(e) THEN e ELSE Res(N("kw", Tok(toks, p).v, <<e.n>>), e.p)
  ELSE PyExpr(toks, p)

PyAtom(toks, p) ==
  LET tk == Tok(toks, p) IN
  CASE tk.t = "id"   -> Res(Leaf("sym", tk.v), p + 1)
    [] tk.t = "int"  -> Res(Leaf("int", tk.v), p + 1)
    [] tk.t = "flt"  -> Res(Leaf("flt", tk.v), p + 1)
    [] tk.t = "imag" -> Res(Leaf("imag", tk.v), p + 1)
    [] tk.t = "op" /\ tk.v = "(" ->
         LET it == PyItems(toks, p + 1, <<>>, ")") IN
         IF IsErr(it) THEN it
         ELSE IF Len(it.n.a) = 1 /\ it.n.s = "" THEN Res(it.n.a[1], it.p)     \* parenthesised expression
         ELSE Res(N("tuple", "", it.n.a), it.p)
    [] tk.t = "op" /\ tk.v = "[" ->
         LET it == PyItems(toks, p + 1, <<>>, "]") IN
         IF IsErr(it) THEN it ELSE Res(N("list", "", it.n.a), it.p)
    [] OTHER -> Err("unexpected token " \o tk.t \o " '" \o tk.v \o "'", p)

---------------------------------------------------------------------------
\* statements

RECURSIVE PyStmt(_, _), PyStmts(_, _, _), PyStmtsK(_, _, _), PyStmtsAll(_, _, _), PyAssignTail(_, _, _)

LOCAL IsNl(toks, p) == Tok(toks, p).t = "nl"

\* `for i in range(b, e):` is the range loop for(i, b, e, block); anything else stays "pyfor"
PyRangeLoop(target, iter, body) ==
  IF target.k = "sym" /\ iter.k = "call" /\ iter.s = "range" /\ Len(iter.a) = 2
     /\ iter.a[1].k # "kw" /\ iter.a[2].k # "kw"
  THEN N("for", "", <<target, iter.a[1], iter.a[2], body>>)
  ELSE N("pyfor", "", <<target, iter, body>>)

PyStmt(toks, p) ==
  IF IsKw(toks, p, "for") THEN
     LET tg == PyBin(toks, p + 1, 1) IN
     IF IsErr(tg) THEN tg ELSE IF ~IsKw(toks, tg.p, "in") THEN Err("expected 'in'", tg.p)
     ELSE LET it == PyExpr(toks, tg.p + 1) IN
          IF IsErr(it) THEN it ELSE IF ~IsOp(toks, it.p, ":") THEN Err("expected ':'", it.p)
          ELSE IF ~IsNl(toks, it.p + 1) \/ Tok(toks, it.p + 2).t # "indent" THEN Err("expected an indented block", it.p + 1)
          ELSE LET b == PyStmts(toks, it.p + 3, <<>>) IN
               IF IsErr(b) THEN b
               ELSE IF b.n.a = <<>> THEN Err("empty block", b.p)
               ELSE IF Tok(toks, b.p).t # "dedent" THEN Err("expected dedent", b.p)
               ELSE Res(PyRangeLoop(tg.n, it.n, N("block", "", b.n.a)), b.p + 1)
  ELSE LET e == PyExpr(toks, p) IN
       IF IsErr(e) THEN e
       ELSE LET s == PyAssignTail(toks, e.n, e.p) IN
            IF IsErr(s) THEN s ELSE IF ~IsNl(toks, s.p) THEN Err("expected end of line", s.p) ELSE Res(s.n, s.p + 1)

PyAssignTail(toks, lhs, p) ==
  LET tk == Tok(toks, p) IN
  IF tk.t = "op" /\ (tk.v = "=" \/ tk.v \in PyAugAssign)
  THEN IF ~IsTarget(lhs) THEN Err("cannot assign to expression", p)
       ELSE LET r == PyExpr(toks, p + 1) IN
            IF IsErr(r) THEN r
            ELSE IF tk.v = "=" /\ IsOp(toks, r.p, "=")
                 THEN LET rr == PyAssignTail(toks, r.n, r.p) IN
                      IF IsErr(rr) THEN rr ELSE Res(N("assign", "=", <<lhs, rr.n>>), rr.p)
                 ELSE Res(N("assign", tk.v, <<lhs, r.n>>), r.p)
  ELSE Res(lhs, p)

\* statements up to a DEDENT or the end of input, by doubling (see PyItemsK)
PyStmtsK(toks, p, k) ==
  IF p > Len(toks) \/ Tok(toks, p).t = "dedent" THEN Res(N("stmts", "", <<>>), p)
  ELSE IF k = 0 THEN LET s == PyStmt(toks, p) IN IF IsErr(s) THEN s ELSE Res(N("stmts", "", <<s.n>>), s.p)
  ELSE LET l == PyStmtsK(toks, p, k - 1) IN
       IF IsErr(l) THEN l
       ELSE LET r == PyStmtsK(toks, l.p, k - 1) IN
            IF IsErr(r) THEN r ELSE Res(N("stmts", "", l.n.a \o r.n.a), r.p)

PyStmtsAll(toks, p, k) ==
  LET l == PyStmtsK(toks, p, k) IN
  IF IsErr(l) THEN l
  ELSE IF l.p > Len(toks) \/ Tok(toks, l.p).t = "dedent" THEN l
  ELSE LET r == PyStmtsAll(toks, l.p, k + 1) IN
       IF IsErr(r) THEN r ELSE Res(N("stmts", "", l.n.a \o r.n.a), r.p)

PyStmts(toks, p, acc) == PyStmtsAll(toks, p, 0)

---------------------------------------------------------------------------
ParsePyExpr(toks) ==
  LET r == PyExpr(toks, 1) IN
  IF IsErr(r) THEN r.n ELSE IF r.p # Len(toks) + 1 THEN Leaf("error", "trailing tokens after expression") ELSE r.n

ParsePyStmts(toks) ==
  LET r == PyStmts(toks, 1, <<>>) IN
  IF IsErr(r) THEN r.n ELSE IF r.p # Len(toks) + 1 THEN Leaf("error", "unexpected dedent") ELSE r.n
=============================================================================
