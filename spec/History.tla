------------------------------ MODULE History ------------------------------
(***************************************************************************)
(* S2: process histories of the FFCx code generator and JIT namer.         *)
(*                                                                         *)
(* A Python process is a bag of hidden mutable state: the string-hash seed *)
(* (PYTHONHASHSEED) fixed when it is spawned, UFL's global object counters *)
(* (Mesh.ufl_id, Coefficient/Constant counts) that every object creation   *)
(* advances, and whatever earlier compilations left behind in caches.      *)
(* Processes share nothing - except the obligations the two properties     *)
(* put on *all* of them together, which are modelled as write-once         *)
(* registries:                                                             *)
(*                                                                         *)
(*   text  : SigKey  -> text hash      C12: the generated source is a      *)
(*           function of (UFL signature, options) only                     *)
(*   name  : ReqKey  -> <<module name, object names>>   C13 stability      *)
(*   klass : ModName -> code class     C13 separation: a module name is    *)
(*           never used for two requests that generate different kernels   *)
(*                                                                         *)
(* A write that disagrees with the value already registered is *rejected*  *)
(* (the first binding stays) and remembered in the corresponding rej set;  *)
(* the properties say that nothing is ever rejected.                       *)
(*                                                                         *)
(* The actions take the value produced by the implementation as a          *)
(* parameter.  In the design (Next) that value is what the *intended*      *)
(* design produces: a function of the signature/request alone.  The        *)
(* constants Leak, Lossy, DropPos switch in the ways an implementation can *)
(* fall short of it (negative controls - TLC must find the violation).     *)
(* HistoryTrace.tla drives the same actions with the values recorded from  *)
(* real executions.                                                        *)
(***************************************************************************)
EXTENDS Integers, FiniteSets, Sequences, TLC

CONSTANTS
  Proc,       \* process slots
  Seed,       \* PYTHONHASHSEED values a process can be spawned with
  Conf,       \* option files a process can find ($PWD/ffcx_options.json, $XDG_CONFIG_HOME/ffcx/...)
  Sig,        \* UFL signatures (abstract)
  Route,      \* Nat: throw-away objects made before each object of the form (same form, other ids)
  Opt,        \* option sets
  Vis, Hid,   \* evaluation-point data: what a lossy rendering (repr) keeps / drops
  Flag,       \* compile-flag variants (argument list + debug flag)
  MaxObjs,    \* a request names 1..MaxObjs objects (the same form may be listed twice)
  MaxEvents,  \* bound on the length of a history (model only)
  Record,     \* TRUE: keep the history variable hist (used to *generate* histories)
  Leak,       \* "none" = intended design | "seed" | "counter" | "cache"   (negative controls)
  Lossy,      \* FALSE = intended design; TRUE: names are computed from Vis alone
  DropPos,    \* FALSE = intended design; TRUE: object names ignore the position in the request
  IgnoreConf  \* FALSE = intended design; TRUE: names are computed from the options of the call alone

VARIABLES
  alive,    \* [Proc -> BOOLEAN]
  seed,     \* [Proc -> Seed]                  hidden: string-hash seed
  conf,     \* [Proc -> Conf]                  the option files the process finds: an *input* - the options a
            \*                                 request is compiled with are those of the call merged over these
  base,     \* [Proc -> BOOLEAN]               hidden: the mesh + space that junk objects hang on exist
  cnt,      \* [Proc -> [mesh, coefficient, constant : Nat]]  hidden: UFL's global counters
  done,     \* [Proc -> Nat]                   hidden: compilations performed so far (caches are warm)
  nev,      \* events so far (model bound)
  text, name, klass,                  \* the write-once registries (functions that grow)
  rejText, rejName, rejKlass,         \* keys whose registry rejected a write
  rejObjs, rejIdent,                  \* module names whose object names clash / are not identifiers
  hist      \* history variable: the events so far (hidden by VIEW in exhaustive design runs)

vars == <<alive, seed, conf, base, cnt, done, nev, text, name, klass, rejText, rejName, rejKlass, rejObjs, rejIdent, hist>>
view == <<alive, seed, conf, base, cnt, done, nev, text, name, klass, rejText, rejName, rejKlass, rejObjs, rejIdent>>

Kind == {"mesh", "space", "coefficient", "constant", "argument", "form"}
Cnt0 == [mesh |-> 0, coefficient |-> 0, constant |-> 0]
Plus(c, d) == [mesh |-> c.mesh + d.mesh, coefficient |-> c.coefficient + d.coefficient,
               constant |-> c.constant + d.constant]
Empty == [x \in {} |-> 0]

---------------------------------------------------------------------------
(* Write-once registries *)
Accepts(reg, k, v) == k \notin DOMAIN reg \/ reg[k] = v
Write(reg, k, v)   == IF k \in DOMAIN reg THEN reg ELSE (k :> v) @@ reg
Rejected(reg, k, v) == IF Accepts(reg, k, v) THEN {} ELSE {k}

Distinct(s) == \A i, j \in DOMAIN s : i # j => s[i] # s[j]

(* a C identifier, given as its sequence of code points *)
IsIdStart(c) == c \in 65..90 \/ c \in 97..122 \/ c = 95
IsIdChar(c)  == IsIdStart(c) \/ c \in 48..57
ValidIdent(cs) == Len(cs) > 0 /\ IsIdStart(cs[1]) /\ \A i \in 1..Len(cs) : IsIdChar(cs[i])

---------------------------------------------------------------------------
Init ==
  /\ alive = [p \in Proc |-> FALSE] /\ seed = [p \in Proc |-> CHOOSE s \in Seed : TRUE]
  /\ conf = [p \in Proc |-> CHOOSE c \in Conf : TRUE]
  /\ base = [p \in Proc |-> FALSE] /\ cnt = [p \in Proc |-> Cnt0] /\ done = [p \in Proc |-> 0]
  /\ nev = 0
  /\ text = Empty /\ name = Empty /\ klass = Empty
  /\ rejText = {} /\ rejName = {} /\ rejKlass = {} /\ rejObjs = {} /\ rejIdent = {}
  /\ hist = <<>>

Log(e) == /\ nev < MaxEvents /\ nev' = nev + 1
          /\ hist' = IF Record THEN Append(hist, e) ELSE hist

NoReg == UNCHANGED <<text, name, klass, rejText, rejName, rejKlass, rejObjs, rejIdent>>

(* a fresh interpreter: PYTHONHASHSEED = s, option files c, all counters zero, nothing cached *)
Spawn(p, s, c) ==
  /\ ~alive[p] /\ s \in Seed /\ c \in Conf
  /\ alive' = [alive EXCEPT ![p] = TRUE] /\ seed' = [seed EXCEPT ![p] = s] /\ conf' = [conf EXCEPT ![p] = c]
  /\ base' = [base EXCEPT ![p] = FALSE] /\ cnt' = [cnt EXCEPT ![p] = Cnt0] /\ done' = [done EXCEPT ![p] = 0]
  /\ Log([act |-> "Spawn", proc |-> p, seed |-> s, conf |-> c]) /\ NoReg

Exit(p) ==
  /\ alive[p] /\ alive' = [alive EXCEPT ![p] = FALSE]
  /\ Log([act |-> "Exit", proc |-> p]) /\ NoReg /\ UNCHANGED <<seed, conf, base, cnt, done>>

(* an object that has nothing to do with what is compiled later.  A mesh is its own object; *)
(* the other kinds hang on one per-process junk mesh/space made on first use.               *)
JunkDelta(p, kind) ==
  LET newbase == kind \notin {"mesh"} /\ ~base[p] IN
  [mesh        |-> IF kind = "mesh" \/ newbase THEN 1 ELSE 0,
   coefficient |-> IF kind = "coefficient" THEN 1 ELSE 0,
   constant    |-> IF kind = "constant" THEN 1 ELSE 0]

(* kind "form": a whole unrelated form is built on the junk space and compiled; the objects *)
(* it creates (made) are the implementation's business, as for Generate                     *)
CreateJunk(p, kind, made) ==
  /\ alive[p] /\ kind \in Kind
  /\ cnt' = [cnt EXCEPT ![p] = Plus(Plus(@, JunkDelta(p, kind)), made)]
  /\ base' = [base EXCEPT ![p] = @ \/ kind # "mesh"]
  /\ done' = [done EXCEPT ![p] = IF kind = "form" THEN @ + 1 ELSE @]
  /\ Log([act |-> "CreateJunk", proc |-> p, kind |-> kind]) /\ NoReg /\ UNCHANGED <<alive, seed, conf>>

(* compile_ufl_objects on objects with signature key k produced text x, creating `made` objects *)
Generate(p, k, x, made, ev) ==
  /\ alive[p]
  /\ text' = Write(text, k, x) /\ rejText' = rejText \cup Rejected(text, k, x)
  /\ cnt' = [cnt EXCEPT ![p] = Plus(@, made)] /\ done' = [done EXCEPT ![p] = @ + 1]
  /\ Log(ev)
  /\ UNCHANGED <<alive, seed, conf, base, name, klass, rejName, rejKlass, rejObjs, rejIdent>>

(* the JIT computed module name m and object names objs for request rk.  defs: every name the *)
(* module defines at file scope (at least objs), idc: their code points.  If hasc, the        *)
(* request's code class c (what would be built) is known as well.                             *)
Name(p, rk, m, objs, defs, idc, hasc, c, made, ev) ==
  /\ alive[p]
  /\ name' = Write(name, rk, <<m, objs>>) /\ rejName' = rejName \cup Rejected(name, rk, <<m, objs>>)
  /\ klass' = IF hasc THEN Write(klass, m, c) ELSE klass
  /\ rejKlass' = IF hasc THEN rejKlass \cup Rejected(klass, m, c) ELSE rejKlass
  /\ rejObjs' = IF Distinct(objs) /\ Distinct(defs) THEN rejObjs ELSE rejObjs \cup {m}
  /\ rejIdent' = IF \A i \in DOMAIN idc : ValidIdent(idc[i]) THEN rejIdent ELSE rejIdent \cup {m}
  /\ cnt' = [cnt EXCEPT ![p] = Plus(@, made)]
  /\ done' = [done EXCEPT ![p] = IF hasc THEN @ + 1 ELSE @]
  /\ Log(ev)
  /\ UNCHANGED <<alive, seed, conf, base, text, rejText>>

---------------------------------------------------------------------------
(* The design: what the produced values are allowed to depend on. *)

Template == [sig : Sig, route : Route]
Req      == [sig : Sig, route : Route, n : 1..MaxObjs, vis : Vis, hid : Hid, opt : Opt, flag : Flag]
MadeBy(route) == [mesh |-> 1 + route, coefficient |-> 1, constant |-> 1]

\* hidden state an implementation that falls short of the design lets through
Hidden(p) == CASE Leak = "seed"    -> <<seed[p]>>
               [] Leak = "counter" -> <<cnt[p].mesh>>
               [] Leak = "cache"   -> <<done[p] > 0>>
               [] OTHER            -> <<>>

\* the options a request is compiled with: those of the call merged over the process' option files
Eff(p, o)       == <<conf[p], o>>
TextOf(p, s, o) == <<s, Eff(p, o), Hidden(p)>>
Points(r)       == IF Lossy THEN <<r.vis>> ELSE <<r.vis, r.hid>>
ModNameOf(p, r) == <<r.sig, r.n, Points(r), IF IgnoreConf THEN <<r.opt>> ELSE Eff(p, r.opt), r.flag, Hidden(p)>>
ObjNamesOf(p, r) == [i \in 1..r.n |-> <<ModNameOf(p, r), IF DropPos THEN 0 ELSE i>>]
\* what is built for the request: the text generated for its content, and how it is compiled
ClassOf(p, r)   == <<r.sig, r.n, r.vis, r.hid, Eff(p, r.opt), r.flag>>
ReqKey(p, r)    == <<r.sig, r.n, r.vis, r.hid, Eff(p, r.opt), r.flag>>

Next ==
  \E p \in Proc :
    \/ \E s \in Seed, c \in Conf : Spawn(p, s, c)
    \/ Exit(p)
    \/ \E kind \in Kind : CreateJunk(p, kind, IF kind = "form" THEN [Cnt0 EXCEPT !.coefficient = 1, !.constant = 1] ELSE Cnt0)
    \/ \E t \in Template, o \in Opt :
         Generate(p, <<t.sig, Eff(p, o)>>, TextOf(p, t.sig, o), MadeBy(t.route),
                  [act |-> "Generate", proc |-> p, sig |-> t.sig, route |-> t.route, opt |-> o])
    \/ \E r \in Req :
         Name(p, ReqKey(p, r), ModNameOf(p, r), ObjNamesOf(p, r), ObjNamesOf(p, r), <<>>, TRUE, ClassOf(p, r),
              MadeBy(r.route),
              [act |-> "Name", proc |-> p, req |-> r])

Spec == Init /\ [][Next]_vars

---------------------------------------------------------------------------
(* Properties *)

TypeOK ==
  /\ \A p \in Proc : alive[p] \in BOOLEAN /\ seed[p] \in Seed /\ conf[p] \in Conf /\ base[p] \in BOOLEAN /\ done[p] \in Nat
                     /\ cnt[p].mesh \in Nat /\ cnt[p].coefficient \in Nat /\ cnt[p].constant \in Nat
  /\ nev \in 0..MaxEvents

\* C12: the generated source is a function of (signature, options)
Functional == rejText = {}
\* C13: names are the same in every process / history that makes the same request ...
Stable == rejName = {}
\* ... a module name stands for one code class ...
Separating == rejKlass = {}
\* ... and the object names inside one module are distinct valid C identifiers
DistinctObjects == rejObjs = {}
ValidIdentifiers == rejIdent = {}

\* the same as action properties over the registries themselves: a bound entry never changes
WriteOnce == [][/\ \A k \in DOMAIN text : k \in DOMAIN text' /\ text'[k] = text[k]
                /\ \A k \in DOMAIN name : k \in DOMAIN name' /\ name'[k] = name[k]
                /\ \A k \in DOMAIN klass : k \in DOMAIN klass' /\ klass'[k] = klass[k]]_vars

\* used to *generate* histories: print every complete one (TLC evaluates it as an invariant)
EmitHist == (nev = MaxEvents) => PrintT(<<"HIST", hist>>)

=============================================================================
