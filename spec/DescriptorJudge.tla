-------------------------- MODULE DescriptorJudge --------------------------
(***************************************************************************)
(* Binding of Descriptor.tla to compiled forms.                            *)
(*                                                                         *)
(* Input: CASE_FILE (json) = [ {id, form, obs}, ... ] written by           *)
(* harness/s3.py: `form` is an abstract form emitted by Descriptor!Emit,   *)
(* `obs` the projection of the ufcx_form the real compiler produced for    *)
(* its realisation (fields read through cffi, every listed kernel called). *)
(* For every case TLC computes Descriptor(form) and compares it with obs   *)
(* field by field (Descriptor!Mismatches).  Verdicts are printed, never    *)
(* raised, so one TLC run judges every case:                               *)
(*   <<"OK", id>>                                                          *)
(*   <<"VIOL", id, field, expected, observed>>                             *)
(* One TLC state per case.                                                 *)
(***************************************************************************)
EXTENDS Descriptor, Json, IOUtils

Cases == JsonDeserialize(IOEnv.CASE_FILE)

VARIABLE i

JInit == i = 1 /\ form = Cases[1].form /\ phase = "judge"
JNext == /\ i < Len(Cases) /\ i' = i + 1
         /\ form' = Cases[i + 1].form /\ phase' = phase
JSpec == JInit /\ [][JNext]_<<i, form, phase>>

Judge ==
  LET M == Mismatches(form, Cases[i].obs) IN
  IF M = <<>> THEN PrintT(<<"OK", Cases[i].id>>)
  ELSE \A k \in DOMAIN M : PrintT(<<"VIOL", Cases[i].id, M[k][1], ToString(M[k][2]), ToString(M[k][3])>>)
=============================================================================
