------------------------------- MODULE RuleIds -------------------------------
(***************************************************************************)
(* S4 / C19b - the names FFCx derives from a quadrature rule are unique    *)
(* within one kernel.                                                      *)
(*                                                                         *)
(* IOEnv.S4_RULES : JSON sequence of rules, each                           *)
(*   [cell, scheme, degree, id, pts, wts, n]                               *)
(* where id is the REAL QuadratureRule.id() (it names weights_<id>,        *)
(* sp_<id>_k, sv_<id>_k and the FE tables ..._Q<id>) and pts / wts are     *)
(* long digests of the points / weights arrays (rule identity).            *)
(* Two rules can meet in one generated file scope when they integrate over *)
(* the same reference cell type, or over the two facet types of a prism.   *)
(* Injective: co-occurring rules with the same id are the same rule.       *)
(* Every offending pair is printed (<<"CLASH", i, j>>), once.              *)
(***************************************************************************)
EXTENDS Integers, Sequences, TLC, Json, IOUtils

Rules == JsonDeserialize(IOEnv.S4_RULES)

VARIABLE i

CoOccur(a, b) ==
  \/ a.cell = b.cell
  \/ {a.cell, b.cell} = {"triangle", "quadrilateral"}        \* facets of a prism

Same(a, b) == a.pts = b.pts /\ a.wts = b.wts

Init == i \in 1..Len(Rules)
Next == UNCHANGED i

InjectiveAt ==
  \A j \in (i + 1)..Len(Rules) :
     (CoOccur(Rules[i], Rules[j]) /\ Rules[i].id = Rules[j].id) =>
        (Same(Rules[i], Rules[j]) \/ PrintT(<<"CLASH", i, j>>))

\* the id must also separate rules that differ only in their weights (same points)
Pairs == PrintT(<<"RULES", Len(Rules)>>)
=============================================================================
