---------------------------- MODULE CliPairEmit ----------------------------
(* Emits the invocation variants of CliPair.tla for the harness: <<"INV", [o, n, mode, d]>>. *)
EXTENDS CliPair
ASSUME \A v \in Invocations : PrintT(<<"INV", v>>)
=============================================================================
