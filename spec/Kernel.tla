------------------------------- MODULE Kernel -------------------------------
(***************************************************************************)
(* S4 - the generated kernel as a program.                                 *)
(*                                                                         *)
(* A small-step abstract machine that EXECUTES the LNodes AST which FFCx   *)
(* produced for one tabulate_tensor body, under the UFCx memory contract.  *)
(* One TLC state per statement instance: declaration, assignment, `+=`,    *)
(* loop enter / advance / exit, block enter / exit.  The program is the    *)
(* "bytecode" exported from the real AST by harness/kexport.py (a          *)
(* mechanical flattening: every LNodes statement becomes one instruction,  *)
(* expressions stay trees).  Nothing in the machine guards an access: it   *)
(* executes C semantics and LOGS what the step touched (variable m.acc);   *)
(* the properties are invariants over that log, checked at every step:     *)
(*                                                                         *)
(*   InBounds            C08  every subscript of every array access within *)
(*                            the declared shape, flat index within the    *)
(*                            flat extent (tables: their declaration; A,   *)
(*                            w, c, coordinate_dofs, entity_local_index,   *)
(*                            quadrature_permutation: extents computed     *)
(*                            from the FORM by the harness, not FFCx's IR) *)
(*   NoDeref             C08  a cell kernel reads neither entity index nor *)
(*                            permutation                                  *)
(*   WriteDiscipline     C07  only write to a non-local is A[..] += e; A   *)
(*                            is read by nothing else; inputs and const    *)
(*                            arrays are never written; static => const    *)
(*   NoUninitialisedRead C07  every cell read was written in this call     *)
(*   ScopeDiscipline     C19  every identifier resolves to a declaration   *)
(*                            that is in scope, used as what it is         *)
(*   UniqueNames         C19  no identifier declared twice in one scope    *)
(*   ReadsOnlyEnabled    C05  w[i] read => i inside an enabled coefficient *)
(*                                                                         *)
(* Values: residues modulo the prime P = 46337 (P*P < 2^31, TLC integers   *)
(* are 32 bit).  Literals and table entries arrive already mapped (exact   *)
(* ring homomorphism on small dyadic rationals, fixed pseudo-random        *)
(* residue otherwise); math functions are uninterpreted (Hash); `/` is the *)
(* field inverse; comparisons use canonical representatives 0..P-1.        *)
(* INT-typed expressions (subscripts, loop bounds) are plain integers.     *)
(*                                                                         *)
(* Input  IOEnv.S4_INPUT : JSON [kernels |-> <<K, ...>>, ...]              *)
(*   K = [name, itype, entity, ext, enabled, woff, coff, valid, inimode,   *)
(*        extra, runplanes, code, planes]                      (DESIGN B)  *)
(* TLC's initial nondeterminism: kernel x data plane x every valid         *)
(* entity_local_index / quadrature_permutation vector (inimode "all"), or  *)
(* one axis at a time plus the listed combinations (inimode "axes"), or    *)
(* the first valid vector plus the listed combinations (inimode "base").   *)
(***************************************************************************)
EXTENDS Integers, Sequences, FiniteSets, TLC, Json, IOUtils

P == 46337

Doc     == JsonDeserialize(IOEnv.S4_INPUT)
Kernels == Doc.kernels

VARIABLE m      \* the machine: [kid, ini, pl, pc, fr, A, acc, dz]

-----------------------------------------------------------------------------
(* Z_p *)
Mod(x) == x % P
Sq(x)  == Mod(x * x)
RECURSIVE PowP(_, _)
PowP(b, e) == IF e = 0 THEN 1
              ELSE IF (e % 2) = 1 THEN Mod(Sq(PowP(b, e \div 2)) * b)
              ELSE Sq(PowP(b, e \div 2))
InvP(a) == PowP(Mod(a), P - 2)

\* uninterpreted functions: a fixed hash of the function code and the argument residues
RECURSIVE HashArgs(_, _, _)
HashArgs(h, xs, i) ==
  IF i > Len(xs) THEN h
  ELSE HashArgs(Mod(Mod(h * 31337) + Mod(Mod(xs[i]) * 12347) + 17), xs, i + 1)
Hash(f, xs) == HashArgs(Mod(f * 7919 + 10007), xs, 1)

RECURSIVE ProdSeq(_, _)
ProdSeq(d, i) == IF i > Len(d) THEN 1 ELSE d[i] * ProdSeq(d, i + 1)
Size(d) == ProdSeq(d, 1)

RECURSIVE RowMajorFrom(_, _, _)
RowMajorFrom(s, d, i) == IF i > Len(s) THEN 0 ELSE s[i] * ProdSeq(d, i + 1) + RowMajorFrom(s, d, i + 1)
RowMajor(s, d) == RowMajorFrom(s, d, 1)

-----------------------------------------------------------------------------
(* names, frames, resolution *)
Params == {"A", "w", "c", "coordinate_dofs", "entity_local_index", "quadrature_permutation"}

RECURSIVE Find(_, _, _)
Find(fr, n, i) == IF i = 0 THEN 0 ELSE IF n \in DOMAIN fr[i] THEN i ELSE Find(fr, n, i - 1)
FrameOf(fr, n) == Find(fr, n, Len(fr))        \* innermost open scope declaring n (C name lookup), 0 if none

\* lvl: frame index (> 0), 0 = kernel parameter, -1 = not declared in any open scope
Resolve(c, n) ==
  LET l == FrameOf(c.fr, n) IN
  IF l > 0 THEN [lvl |-> l, cell |-> c.fr[l][n]]
  ELSE IF n \in Params THEN [lvl |-> 0, cell |-> [t |-> "p", d |-> 0]]
  ELSE [lvl |-> -1, cell |-> [t |-> "?", d |-> 0]]

ParamDims(c, n) ==
  CASE n = "A"  -> c.ext.A
    [] n = "w"  -> <<c.ext.w>>
    [] n = "c"  -> <<c.ext.c>>
    [] n = "coordinate_dofs"        -> <<c.ext.coordinate_dofs>>
    [] n = "entity_local_index"     -> <<c.ext.entity_local_index>>
    [] n = "quadrature_permutation" -> <<c.ext.quadrature_permutation>>

DimsOf(c, n, r) ==
  IF r.lvl = 0 THEN ParamDims(c, n)
  ELSE IF r.lvl > 0 /\ r.cell.t \in {"c", "a"} THEN c.code[r.cell.d].dims
  ELSE <<>>

-----------------------------------------------------------------------------
(* expressions: one pass gives the value AND the accesses the evaluation performs, in C evaluation  *)
(* order (?: && || short-circuit).  Ev(e, c) = [v |-> value, r |-> <<access records>>]             *)
IsMI(e) == Len(e.i) = 1 /\ e.i[1].k = "mi"

AccRec(n, s, k, r, dims, f, def, mi, sub) ==
  [a |-> n, s |-> s, k |-> k, lvl |-> r.lvl, ty |-> r.cell.t, dims |-> dims, f |-> f, def |-> def, mi |-> mi, sub |-> sub]

Readable(f, dims) == f >= 0 /\ f < Size(dims)

ReadCell(c, n, r, f) ==
  IF r.lvl = 0 THEN
     CASE n = "A"  -> c.A[f + 1]
       [] n = "w"  -> c.pl.w[f + 1]
       [] n = "c"  -> c.pl.c[f + 1]
       [] n = "coordinate_dofs"        -> c.pl.x[f + 1]
       [] n = "entity_local_index"     -> c.ini.e[f + 1]
       [] n = "quadrature_permutation" -> c.ini.q[f + 1]
  ELSE IF r.cell.t = "c" THEN c.code[r.cell.d].vals[f + 1]
  ELSE IF r.cell.t = "a" THEN r.cell.v[f + 1]
  ELSE 0

Cmp(o, a, b) ==
  CASE o = "<"  -> a < b  [] o = "<=" -> a <= b [] o = ">"  -> a > b
    [] o = ">=" -> a >= b [] o = "==" -> a = b  [] o = "!=" -> a # b

B2I(b) == IF b THEN 1 ELSE 0

Arith(o, int, a, b) ==
  IF int THEN
       CASE o = "+" -> a + b [] o = "-" -> a - b [] o = "*" -> a * b
         [] o = "/" -> IF b = 0 THEN 0 ELSE a \div b
  ELSE
       CASE o = "+" -> Mod(Mod(a) + Mod(b))
         [] o = "-" -> Mod(Mod(a) + P - Mod(b))
         [] o = "*" -> Mod(Mod(a) * Mod(b))
         [] o = "/" -> IF Mod(b) = 0 THEN 0 ELSE Mod(Mod(a) * InvP(b))

RECURSIVE Ev(_, _)
RECURSIVE EvAll(_, _, _)
\* EvAll(xs, c, i) = [v |-> <<values of xs[i..]>>, r |-> their reads concatenated]
EvAll(xs, c, i) ==
  IF i > Len(xs) THEN [v |-> <<>>, r |-> <<>>]
  ELSE LET h == Ev(xs[i], c)
           t == EvAll(xs, c, i + 1)
       IN [v |-> <<h.v>> \o t.v, r |-> h.r \o t.r]

RECURSIVE FoldVals(_, _, _, _)
FoldVals(o, int, vs, i) ==
  IF i > Len(vs) THEN (IF o = "+" THEN 0 ELSE 1)
  ELSE Arith(o, int, vs[i], FoldVals(o, int, vs, i + 1))

\* an element access: subscripts as written (a MultiIndex contributes its component symbols), the flat
\* position C computes, the access record, the value found there
Element(e, c, k) ==
  LET r    == Resolve(c, e.a)
      dims == DimsOf(c, e.a, r)
      mi   == IsMI(e)
      ix   == IF mi THEN EvAll(e.i[1].s, c, 1) ELSE EvAll(e.i, c, 1)
      g    == IF mi THEN Ev(e.i[1].g, c).v ELSE 0
      subs == IF mi /\ Len(ix.v) # Len(dims) THEN <<g>> ELSE ix.v
      f    == IF mi THEN g
              ELSE IF Len(subs) = Len(dims) THEN RowMajor(subs, dims)
              ELSE IF Len(subs) = 1 THEN subs[1] ELSE -1
      ok   == r.lvl >= 0 /\ r.cell.t \in {"p", "c", "a"} /\ Readable(f, dims)
      def  == IF ok /\ r.cell.t = "a" THEN r.cell.f[f + 1] ELSE TRUE
  IN [v   |-> IF ok THEN ReadCell(c, e.a, r, f) ELSE 0,
      sr  |-> ix.r,
      rec |-> AccRec(e.a, subs, k, r, dims, f, def, IF mi THEN e.i[1].z ELSE <<>>, TRUE),
      res |-> r, ok |-> ok, f |-> f]

SymRead(n, c, k) ==
  LET r == Resolve(c, n) IN
  [v |-> IF r.lvl > 0 /\ r.cell.t = "s" THEN r.cell.v ELSE 0,
   rec |-> AccRec(n, <<>>, k, r, <<>>, 0, IF r.lvl > 0 /\ r.cell.t = "s" THEN r.cell.def ELSE TRUE, <<>>, FALSE),
   res |-> r]

Ev(e, c) ==
  CASE e.k = "lit"  -> [v |-> e.v, r |-> <<>>]
    [] e.k = "sym"  -> LET x == SymRead(e.n, c, "r") IN [v |-> x.v, r |-> <<x.rec>>]
    [] e.k = "acc"  -> LET x == Element(e, c, "r") IN [v |-> x.v, r |-> x.sr \o <<x.rec>>]
    [] e.k = "mi"   -> LET x == EvAll(e.s, c, 1) IN [v |-> Ev(e.g, c).v, r |-> x.r]
    [] e.k = "neg"  -> LET x == Ev(e.x[1], c) IN [v |-> IF e.t = "I" THEN 0 - x.v ELSE Mod(P - Mod(x.v)), r |-> x.r]
    [] e.k = "not"  -> LET x == Ev(e.x[1], c) IN [v |-> B2I(x.v = 0), r |-> x.r]
    [] e.k = "cond" -> LET q == Ev(e.x[1], c)
                           y == IF q.v # 0 THEN Ev(e.x[2], c) ELSE Ev(e.x[3], c)
                       IN [v |-> y.v, r |-> q.r \o y.r]
    [] e.k = "bin" /\ e.o = "&&" ->
         LET a == Ev(e.x[1], c) IN
         IF a.v = 0 THEN [v |-> 0, r |-> a.r] ELSE LET b == Ev(e.x[2], c) IN [v |-> B2I(b.v # 0), r |-> a.r \o b.r]
    [] e.k = "bin" /\ e.o = "||" ->
         LET a == Ev(e.x[1], c) IN
         IF a.v # 0 THEN [v |-> 1, r |-> a.r] ELSE LET b == Ev(e.x[2], c) IN [v |-> B2I(b.v # 0), r |-> a.r \o b.r]
    [] e.k = "bin" /\ e.o \in {"<", "<=", ">", ">=", "==", "!="} ->
         LET a == Ev(e.x[1], c)
             b == Ev(e.x[2], c)
         IN [v |-> IF e.x[1].t = "I" /\ e.x[2].t = "I" THEN B2I(Cmp(e.o, a.v, b.v)) ELSE B2I(Cmp(e.o, Mod(a.v), Mod(b.v))),
             r |-> a.r \o b.r]
    [] e.k = "bin" /\ e.o \in {"+", "-", "*", "/"} ->
         LET a == Ev(e.x[1], c)
             b == Ev(e.x[2], c)
         IN [v |-> Arith(e.o, e.t = "I", a.v, b.v), r |-> a.r \o b.r]
    [] e.k = "sum"  -> LET x == EvAll(e.x, c, 1) IN [v |-> FoldVals("+", e.t = "I", x.v, 1), r |-> x.r]
    [] e.k = "prod" -> LET x == EvAll(e.x, c, 1) IN [v |-> FoldVals("*", e.t = "I", x.v, 1), r |-> x.r]
    [] e.k = "fn"   -> LET x == EvAll(e.x, c, 1) IN [v |-> Hash(e.f, x.v), r |-> x.r]

Val(e, c) == Ev(e, c).v

\* a division whose denominator is 0 in Z_p (or Z): value-level results of this run are then outside the model
RECURSIVE DivZero(_, _)
DivZero(e, c) ==
  CASE e.k \in {"lit", "sym", "mi"} -> FALSE
    [] e.k = "acc" -> IF IsMI(e) THEN FALSE ELSE \E j \in 1..Len(e.i) : DivZero(e.i[j], c)
    [] e.k = "bin" /\ e.o = "/" ->
         \/ DivZero(e.x[1], c) \/ DivZero(e.x[2], c)
         \/ (IF e.t = "I" THEN Val(e.x[2], c) = 0 ELSE Mod(Val(e.x[2], c)) = 0)
    [] e.k = "cond" -> DivZero(e.x[1], c) \/ (IF Val(e.x[1], c) # 0 THEN DivZero(e.x[2], c) ELSE DivZero(e.x[3], c))
    [] OTHER -> \E j \in 1..Len(e.x) : DivZero(e.x[j], c)

-----------------------------------------------------------------------------
(* the machine *)
Ctx(K, D, mm) == [code |-> K.code, ext |-> D.ext, pl |-> D.planes[mm.pl], ini |-> mm.ini, fr |-> mm.fr, A |-> mm.A]

Halted(K, mm) == mm.pc > Len(K.code)

Push(fr, f) == Append(fr, f)
Pop(fr)     == SubSeq(fr, 1, Len(fr) - 1)
Top(fr)     == fr[Len(fr)]
Empty       == [x \in {} |-> 0]
Bind(f, n, v) == [x \in (DOMAIN f) \cup {n} |-> IF x = n THEN v ELSE f[x]]

DeclRec(n, dup, ins) ==
  [a |-> n, s |-> <<>>, k |-> "d", lvl |-> IF dup THEN -2 ELSE 1, ty |-> ins.op, dims |-> <<>>, f |-> 0,
   def |-> TRUE, mi |-> <<>>, sub |-> FALSE, static |-> ins.static, const |-> ins.const]

Declare(fr, n, cell) == [fr EXCEPT ![Len(fr)] = Bind(fr[Len(fr)], n, cell)]

ArrayCell(ins, pc) ==
  IF ins.const THEN [t |-> "c", d |-> pc]
  ELSE [t |-> "a", d |-> pc,
        v |-> IF ins.init = "full" THEN ins.vals ELSE [j \in 1..Size(ins.dims) |-> IF ins.init = "first" /\ j = 1 THEN ins.vals[1] ELSE 0],
        f |-> [j \in 1..Size(ins.dims) |-> ins.init # "none"]]

\* a store through lvalue lv: `=` (kind "w") or `+=` (kind "u").  Illegal stores are logged, not performed
\* (a store to A is always performed - it is writable memory - so that value-level checks see its effect).
Store(mm, c, lv, rv, k, int) ==
  IF lv.k = "sym" THEN
     LET x == SymRead(lv.n, c, k)
         v == IF k = "w" THEN rv ELSE Arith("+", int, x.v, rv)
         r == x.res
     IN [fr |-> IF r.lvl > 0 /\ r.cell.t = "s" THEN [mm.fr EXCEPT ![r.lvl][lv.n] = [@ EXCEPT !.v = v, !.def = TRUE]] ELSE mm.fr,
         A  |-> mm.A, log |-> <<x.rec>>]
  ELSE
     LET x == Element(lv, c, k)
         v == IF k = "w" THEN rv ELSE Arith("+", int, x.v, rv)
         r == x.res
     IN [fr |-> IF r.lvl > 0 /\ r.cell.t = "a" /\ x.ok
                THEN [mm.fr EXCEPT ![r.lvl][lv.a] = [@ EXCEPT !.v = [@ EXCEPT ![x.f + 1] = v], !.f = [@ EXCEPT ![x.f + 1] = TRUE]]]
                ELSE mm.fr,
         A  |-> IF r.lvl = 0 /\ lv.a = "A" /\ x.ok THEN [mm.A EXCEPT ![x.f + 1] = v] ELSE mm.A,
         log |-> x.sr \o <<x.rec>>]

Conv(t, v) == IF t = "I" \/ t = "B" THEN v ELSE Mod(v)

Step(K, D, mm) ==
  LET pc  == mm.pc
      ins == K.code[pc]
      c   == Ctx(K, D, mm)
      nx  == [mm EXCEPT !.pc = pc + 1, !.acc = <<>>]
  IN
  CASE ins.op = "vdecl" ->
         LET dup == ins.sym \in DOMAIN Top(mm.fr)
             has == ins.val.k # "none"
             x   == IF has THEN Ev(ins.val, c) ELSE [v |-> 0, r |-> <<>>]
         IN [nx EXCEPT !.fr  = Declare(mm.fr, ins.sym, [t |-> "s", d |-> pc, v |-> Conv(ins.t, x.v), def |-> has]),
                       !.acc = x.r \o <<DeclRec(ins.sym, dup, ins)>>,
                       !.dz  = mm.dz \/ (has /\ ins.hd /\ DivZero(ins.val, c))]
    [] ins.op = "adecl" ->
         LET dup == ins.sym \in DOMAIN Top(mm.fr) IN
         [nx EXCEPT !.fr = Declare(mm.fr, ins.sym, ArrayCell(ins, pc)), !.acc = <<DeclRec(ins.sym, dup, ins)>>]
    [] ins.op \in {"assign", "aadd"} ->
         LET x  == Ev(ins.rhs, c)
             st == Store(mm, c, ins.lhs, Conv(ins.t, x.v), IF ins.op = "assign" THEN "w" ELSE "u", ins.t = "I")
         IN [nx EXCEPT !.fr = st.fr, !.A = st.A, !.acc = x.r \o st.log,
                       !.dz = mm.dz \/ (ins.hd /\ DivZero(ins.rhs, c))]
    [] ins.op = "loop" ->
         LET b  == Ev(ins.b, c)
             e  == Ev(ins.e, c)
             lf == Bind(Empty, ins.i, [t |-> "s", d |-> pc, v |-> b.v, def |-> TRUE])
             rd == b.r \o e.r \o <<DeclRec(ins.i, FALSE, [op |-> "loop", static |-> FALSE, const |-> FALSE])>>
         IN IF b.v < e.v THEN [nx EXCEPT !.fr = Push(Push(mm.fr, lf), Empty), !.acc = rd]
            ELSE [nx EXCEPT !.pc = ins.end + 1, !.acc = rd]
    [] ins.op = "endloop" ->
         LET lp  == K.code[ins.start]
             fr1 == Pop(mm.fr)                                   \* leave the body block
             i1  == Top(fr1)[lp.i].v + 1
             fr2 == [fr1 EXCEPT ![Len(fr1)][lp.i].v = i1]
             e   == Ev(lp.e, [c EXCEPT !.fr = fr2])
         IN IF i1 < e.v THEN [nx EXCEPT !.pc = ins.start + 1, !.fr = Push(fr2, Empty), !.acc = e.r]
            ELSE [nx EXCEPT !.fr = Pop(fr2), !.acc = e.r]
    [] ins.op = "scope_in"  -> [nx EXCEPT !.fr = Push(mm.fr, Empty)]
    [] ins.op = "scope_out" -> [nx EXCEPT !.fr = Pop(mm.fr)]

-----------------------------------------------------------------------------
(* the properties, as predicates on what the last step touched *)
InBoundsA(a) ==
  (a.k \in {"r", "w", "u"} /\ a.sub /\ a.lvl >= 0 /\ a.ty \in {"p", "c", "a"}) =>
     /\ Len(a.s) = Len(a.dims)
     /\ \A j \in 1..Len(a.s) : a.s[j] >= 0 /\ a.s[j] < a.dims[j]
     /\ a.f = RowMajor(a.s, a.dims)                 \* the flat position C computes is the row-major one
     /\ a.f >= 0 /\ a.f < Size(a.dims)
     /\ (a.mi # <<>> /\ Len(a.mi) = Len(a.dims)) => a.mi = a.dims

NoDerefA(K, a) ==
  (K.entity = "cell" /\ a.lvl = 0) => a.a \notin {"entity_local_index", "quadrature_permutation"}

Inputs == {"w", "c", "coordinate_dofs", "entity_local_index", "quadrature_permutation"}

WriteDisciplineA(a) ==
  /\ a.k = "w" => a.lvl > 0 /\ a.ty \in {"s", "a"}
  /\ a.k = "u" => (a.lvl > 0 /\ a.ty \in {"s", "a"}) \/ (a.lvl = 0 /\ a.a = "A")
  /\ a.k = "r" => ~(a.lvl = 0 /\ a.a = "A")
  /\ a.k = "d" => (a.static => a.const)

NoUninitA(a) == a.k \in {"r", "u"} => a.def

ScopeA(a) ==
  /\ a.k \in {"r", "w", "u"} => a.lvl >= 0                                   \* declared, and the declaration is in scope
  /\ (a.k \in {"r", "w", "u"} /\ a.lvl >= 0) => (IF a.sub THEN a.ty \in {"p", "c", "a"} ELSE a.ty = "s")

UniqueA(a) == a.k = "d" => a.lvl # -2

InRanges(f, rs, en) == \E k \in 1..Len(rs) : en[k] /\ rs[k][1] <= f /\ f < rs[k][2]

ReadsEnabledA(D, a) ==
  /\ (a.lvl = 0 /\ a.a = "w" /\ a.k \in {"r", "u"}) => InRanges(a.f, D.woff, D.enabled)
  /\ (a.lvl = 0 /\ a.a = "c" /\ a.k \in {"r", "u"}) => InRanges(a.f, D.coff, [k \in 1..Len(D.coff) |-> TRUE])

\* on failure the offending access is printed so that the harness can name the site
Judge(name, K, mm, Pred(_)) ==
  \A j \in 1..Len(mm.acc) :
     Pred(mm.acc[j]) \/ (PrintT(<<"VIOL", name, K.name, mm.pc, mm.ini, mm.pl, mm.acc[j]>>) /\ FALSE)

-----------------------------------------------------------------------------
(* initial nondeterminism *)
RangeOf(s) == {s[i] : i \in 1..Len(s)}

Vectors(v) ==        \* all vectors choosing one listed value per slot
  LET n == Len(v) IN
  IF n = 0 THEN {<<>>}
  ELSE {f \in [1..n -> UNION {RangeOf(v[i]) : i \in 1..n}] : \A i \in 1..n : f[i] \in RangeOf(v[i])}

Base(v) == [i \in 1..Len(v) |-> v[i][1]]

Inis(K) ==
  IF K.inimode = "list" THEN {[e |-> K.extra[i].e, q |-> K.extra[i].q] : i \in 1..Len(K.extra)}   \* exactly the listed vectors
  ELSE
  IF K.inimode = "all" THEN {[e |-> es, q |-> qs] : es \in Vectors(K.valid.e), qs \in Vectors(K.valid.q)}
  ELSE LET b == [e |-> Base(K.valid.e), q |-> Base(K.valid.q)] IN
       IF K.inimode = "base" THEN {b} \cup {[e |-> K.extra[i].e, q |-> K.extra[i].q] : i \in 1..Len(K.extra)}
       ELSE
       {b}
       \cup {[b EXCEPT !.e[i] = x] : <<i, x>> \in UNION {{<<i, y>> : y \in RangeOf(K.valid.e[i])} : i \in 1..Len(K.valid.e)}}
       \cup {[b EXCEPT !.q[i] = x] : <<i, x>> \in UNION {{<<i, y>> : y \in RangeOf(K.valid.q[i])} : i \in 1..Len(K.valid.q)}}
       \cup {[e |-> K.extra[i].e, q |-> K.extra[i].q] : i \in 1..Len(K.extra)}

InitM(kid, ini, pl, A0) ==
  [kid |-> kid, ini |-> ini, pl |-> pl, pc |-> 1, fr |-> <<Empty>>, A |-> A0, acc |-> <<>>, dz |-> FALSE]

Init ==
  \E kid \in 1..Len(Kernels) :
    \E ini \in Inis(Kernels[kid]) :
      \E pi \in 1..Len(Kernels[kid].runplanes) :
        LET pl == Kernels[kid].runplanes[pi] IN
        m = InitM(kid, ini, pl, Kernels[kid].planes[pl].A0)

Next ==
  LET K == Kernels[m.kid] IN
  /\ ~Halted(K, m)
  /\ m' = Step(K, K, m)

Spec == Init /\ [][Next]_m

KK == Kernels[m.kid]

InBounds            == Judge("InBounds", KK, m, InBoundsA)
NoDeref             == Judge("NoDeref", KK, m, LAMBDA a : NoDerefA(KK, a))
WriteDiscipline     == Judge("WriteDiscipline", KK, m, WriteDisciplineA)
NoUninitialisedRead == Judge("NoUninitialisedRead", KK, m, NoUninitA)
ScopeDiscipline     == Judge("ScopeDiscipline", KK, m, ScopeA)
UniqueNames         == Judge("UniqueNames", KK, m, UniqueA)
ReadsOnlyEnabled    == Judge("ReadsOnlyEnabled", KK, m, LAMBDA a : ReadsEnabledA(KK, a))

\* end of a run: reported so that the harness can count runs, steps outside the value model, and read A
Finished == Halted(KK, m) => PrintT(<<"DONE", KK.name, m.ini, m.pl, m.dz>>)

\* compact error traces
Brief == [kernel |-> KK.name, pc |-> m.pc, ini |-> m.ini, pl |-> m.pl, acc |-> m.acc, depth |-> Len(m.fr)]
=============================================================================
