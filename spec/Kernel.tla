------------------------------- MODULE Kernel -------------------------------
(***************************************************************************)
(* S4 - the generated kernel as a program.                                 *)
(*                                                                         *)
(* A small-step abstract machine that EXECUTES the LNodes AST which FFCx   *)
(* produced for one tabulate_tensor body, under the UFCx memory contract.  *)
(* One TLC state per statement instance: declaration, assignment, `+=`,    *)
(* loop enter / advance / exit, block enter / exit.  The program is the    *)
(* "bytecode" exported from the real AST by harness/kexport.py (a          *)
(* mechanical flattening: every LNodes statement becomes one instruction,  *)
(* expressions stay trees).  Nothing in the machine guards an access: it   *)
(* executes C semantics and LOGS what the step touched (variable m.acc);   *)
(* the properties are invariants over that log, checked at every step:     *)
(*                                                                         *)
(*   InBounds            C08  every subscript of every array access within *)
(*                            the declared shape, flat index within the    *)
(*                            flat extent (tables: their declaration; A,   *)
(*                            w, c, coordinate_dofs, entity_local_index,   *)
(*                            quadrature_permutation: extents computed     *)
(*                            from the FORM by the harness, not FFCx's IR) *)
(*   NoDeref             C08  a cell kernel reads neither entity index nor *)
(*                            permutation                                  *)
(*   WriteDiscipline     C07  only write to a non-local is A[..] += e; A   *)
(*                            is read by nothing else; inputs and const    *)
(*                            arrays are never written; static => const    *)
(*   NoUninitialisedRead C07  every cell read was written in this call     *)
(*   ScopeDiscipline     C19  every identifier resolves to a declaration   *)
(*                            that is in scope, used as what it is         *)
(*   UniqueNames         C19  no identifier declared twice in one scope    *)
(*   ReadsOnlyEnabled    C05  w[i] read => i inside an enabled coefficient *)
(*                                                                         *)
(* Values: residues modulo the prime P = 46337 (P*P < 2^31, TLC integers   *)
(* are 32 bit).  Literals and table entries arrive already mapped (exact   *)
(* ring homomorphism on small dyadic rationals, fixed pseudo-random        *)
(* residue otherwise); math functions are uninterpreted (Hash); `/` is the *)
(* field inverse; comparisons use canonical representatives 0..P-1.        *)
(* INT-typed expressions (subscripts, loop bounds) are plain integers.     *)
(*                                                                         *)
(* Input  IOEnv.S4_INPUT : JSON [kernels |-> <<K, ...>>, ...]              *)
(*   K = [name, itype, entity, ext, enabled, woff, coff, valid, inimode,   *)
(*        extra, runplanes, code, planes]                      (DESIGN B)  *)
(* TLC's initial nondeterminism: kernel x data plane x every valid         *)
(* entity_local_index / quadrature_permutation vector (inimode "all"), or  *)
(* one axis at a time plus the listed combinations (inimode "axes").       *)
(***************************************************************************)
EXTENDS Integers, Sequences, FiniteSets, TLC, Json, IOUtils

P == 46337

Doc     == JsonDeserialize(IOEnv.S4_INPUT)
Kernels == Doc.kernels

VARIABLE m      \* the machine: [kid, ini, pl, pc, fr, A, acc, dz]

-----------------------------------------------------------------------------
(* Z_p *)
Mod(x) == x % P
Sq(x)  == Mod(x * x)
RECURSIVE PowP(_, _)
PowP(b, e) == IF e = 0 THEN 1
              ELSE IF (e % 2) = 1 THEN Mod(Sq(PowP(b, e \div 2)) * b)
              ELSE Sq(PowP(b, e \div 2))
InvP(a) == PowP(Mod(a), P - 2)

\* uninterpreted functions: a fixed hash of the function code and the argument residues
RECURSIVE HashArgs(_, _, _)
HashArgs(h, xs, i) ==
  IF i > Len(xs) THEN h
  ELSE HashArgs(Mod(Mod(h * 31337) + Mod(Mod(xs[i]) * 12347) + 17), xs, i + 1)
Hash(f, xs) == HashArgs(Mod(f * 7919 + 10007), xs, 1)

RECURSIVE ProdSeq(_, _)
ProdSeq(d, i) == IF i > Len(d) THEN 1 ELSE d[i] * ProdSeq(d, i + 1)
Size(d) == ProdSeq(d, 1)

RECURSIVE RowMajorFrom(_, _, _)
RowMajorFrom(s, d, i) == IF i > Len(s) THEN 0 ELSE s[i] * ProdSeq(d, i + 1) + RowMajorFrom(s, d, i + 1)
RowMajor(s, d) == RowMajorFrom(s, d, 1)

-----------------------------------------------------------------------------
(* names, frames, resolution *)
Params == {"A", "w", "c", "coordinate_dofs", "entity_local_index", "quadrature_permutation"}

FrameOf(fr, n) ==
  LET S == {i \in 1..Len(fr) : n \in DOMAIN fr[i]} IN
  IF S = {} THEN 0 ELSE CHOOSE i \in S : \A j \in S : j <= i

\* lvl: frame index (> 0), 0 = kernel parameter, -1 = not declared in any open scope
Resolve(c, n) ==
  LET l == FrameOf(c.fr, n) IN
  IF l > 0 THEN [lvl |-> l, cell |-> c.fr[l][n]]
  ELSE IF n \in Params THEN [lvl |-> 0, cell |-> [t |-> "p", d |-> 0]]
  ELSE [lvl |-> -1, cell |-> [t |-> "?", d |-> 0]]

ParamDims(c, n) ==
  CASE n = "A"  -> c.ext.A
    [] n = "w"  -> <<c.ext.w>>
    [] n = "c"  -> <<c.ext.c>>
    [] n = "coordinate_dofs"        -> <<c.ext.coordinate_dofs>>
    [] n = "entity_local_index"     -> <<c.ext.entity_local_index>>
    [] n = "quadrature_permutation" -> <<c.ext.quadrature_permutation>>

DimsOf(c, n, r) ==
  IF r.lvl = 0 THEN ParamDims(c, n)
  ELSE IF r.lvl > 0 /\ r.cell.t \in {"c", "a"} THEN c.code[r.cell.d].dims
  ELSE <<>>

-----------------------------------------------------------------------------
(* expressions: value *)
IsMI(e) == Len(e.i) = 1 /\ e.i[1].k = "mi"

RECURSIVE Val(_, _)

\* subscripts as written (MultiIndex: its component symbols), and the flat position C computes
SubsOf(e, c, dims) ==
  IF IsMI(e) THEN
     IF Len(e.i[1].s) = Len(dims) THEN [j \in 1..Len(e.i[1].s) |-> Val(e.i[1].s[j], c)]
     ELSE <<Val(e.i[1].g, c)>>
  ELSE [j \in 1..Len(e.i) |-> Val(e.i[j], c)]

FlatOf(e, c, dims, subs) ==
  IF IsMI(e) THEN Val(e.i[1].g, c)
  ELSE IF Len(subs) = Len(dims) THEN RowMajor(subs, dims)
  ELSE IF Len(subs) = 1 THEN subs[1]
  ELSE -1

Readable(f, dims) == f >= 0 /\ f < Size(dims)

ReadCell(c, n, r, f) ==
  IF r.lvl = 0 THEN
     CASE n = "A"  -> c.A[f + 1]
       [] n = "w"  -> c.pl.w[f + 1]
       [] n = "c"  -> c.pl.c[f + 1]
       [] n = "coordinate_dofs"        -> c.pl.x[f + 1]
       [] n = "entity_local_index"     -> c.ini.e[f + 1]
       [] n = "quadrature_permutation" -> c.ini.q[f + 1]
  ELSE IF r.cell.t = "c" THEN c.code[r.cell.d].vals[f + 1]
  ELSE IF r.cell.t = "a" THEN r.cell.v[f + 1]
  ELSE 0

ValAcc(e, c) ==
  LET r    == Resolve(c, e.a)
      dims == DimsOf(c, e.a, r)
      subs == SubsOf(e, c, dims)
      f    == FlatOf(e, c, dims, subs)
  IN IF r.lvl >= 0 /\ r.cell.t \in {"p", "c", "a"} /\ Readable(f, dims) THEN ReadCell(c, e.a, r, f) ELSE 0

Cmp(o, a, b) ==
  CASE o = "<"  -> a < b  [] o = "<=" -> a <= b [] o = ">"  -> a > b
    [] o = ">=" -> a >= b [] o = "==" -> a = b  [] o = "!=" -> a # b

B2I(b) == IF b THEN 1 ELSE 0

RECURSIVE SumVals(_, _, _, _)
SumVals(xs, c, i, int) ==
  IF i > Len(xs) THEN 0
  ELSE IF int THEN Val(xs[i], c) + SumVals(xs, c, i + 1, int)
  ELSE Mod(Mod(Val(xs[i], c)) + SumVals(xs, c, i + 1, int))
RECURSIVE ProdVals(_, _, _, _)
ProdVals(xs, c, i, int) ==
  IF i > Len(xs) THEN 1
  ELSE IF int THEN Val(xs[i], c) * ProdVals(xs, c, i + 1, int)
  ELSE Mod(Mod(Val(xs[i], c)) * ProdVals(xs, c, i + 1, int))

ValBin(e, c) ==
  LET o == e.o
      a == Val(e.x[1], c)
  IN
  IF o \in {"&&", "||"} THEN
       IF o = "&&" THEN (IF a = 0 THEN 0 ELSE B2I(Val(e.x[2], c) # 0))
       ELSE (IF a # 0 THEN 1 ELSE B2I(Val(e.x[2], c) # 0))
  ELSE
  LET b == Val(e.x[2], c) IN
  IF o \in {"<", "<=", ">", ">=", "==", "!="} THEN
       IF e.x[1].t = "I" /\ e.x[2].t = "I" THEN B2I(Cmp(o, a, b)) ELSE B2I(Cmp(o, Mod(a), Mod(b)))
  ELSE IF e.t = "I" THEN
       CASE o = "+" -> a + b [] o = "-" -> a - b [] o = "*" -> a * b
         [] o = "/" -> IF b = 0 THEN 0 ELSE a \div b
  ELSE
       CASE o = "+" -> Mod(Mod(a) + Mod(b))
         [] o = "-" -> Mod(Mod(a) + P - Mod(b))
         [] o = "*" -> Mod(Mod(a) * Mod(b))
         [] o = "/" -> IF Mod(b) = 0 THEN 0 ELSE Mod(Mod(a) * InvP(b))

Val(e, c) ==
  CASE e.k = "lit"  -> e.v
    [] e.k = "sym"  -> LET r == Resolve(c, e.n) IN IF r.lvl > 0 /\ r.cell.t = "s" THEN r.cell.v ELSE 0
    [] e.k = "acc"  -> ValAcc(e, c)
    [] e.k = "mi"   -> Val(e.g, c)
    [] e.k = "neg"  -> IF e.t = "I" THEN 0 - Val(e.x[1], c) ELSE Mod(P - Mod(Val(e.x[1], c)))
    [] e.k = "not"  -> B2I(Val(e.x[1], c) = 0)
    [] e.k = "bin"  -> ValBin(e, c)
    [] e.k = "sum"  -> SumVals(e.x, c, 1, e.t = "I")
    [] e.k = "prod" -> ProdVals(e.x, c, 1, e.t = "I")
    [] e.k = "fn"   -> Hash(e.f, [j \in 1..Len(e.x) |-> Val(e.x[j], c)])
    [] e.k = "cond" -> IF Val(e.x[1], c) # 0 THEN Val(e.x[2], c) ELSE Val(e.x[3], c)

\* a division whose denominator is 0 in Z_p or Z (value-level results of this run are then outside the model)
RECURSIVE DivZero(_, _)
DivZero(e, c) ==
  CASE e.k \in {"lit", "sym"} -> FALSE
    [] e.k = "acc" -> IF IsMI(e) THEN FALSE ELSE \E j \in 1..Len(e.i) : DivZero(e.i[j], c)
    [] e.k = "mi"  -> FALSE
    [] e.k = "bin" /\ e.o = "/" ->
         \/ DivZero(e.x[1], c) \/ DivZero(e.x[2], c)
         \/ (IF e.t = "I" THEN Val(e.x[2], c) = 0 ELSE Mod(Val(e.x[2], c)) = 0)
    [] e.k = "cond" -> DivZero(e.x[1], c) \/ (IF Val(e.x[1], c) # 0 THEN DivZero(e.x[2], c) ELSE DivZero(e.x[3], c))
    [] OTHER -> \E j \in 1..Len(e.x) : DivZero(e.x[j], c)

-----------------------------------------------------------------------------
(* expressions: the accesses their evaluation performs (C evaluation: ?: && || short-circuit) *)
AccRec(n, s, k, r, dims, f, def, mi, sub) ==
  [a |-> n, s |-> s, k |-> k, lvl |-> r.lvl, ty |-> r.cell.t, dims |-> dims, f |-> f, def |-> def, mi |-> mi, sub |-> sub]

RECURSIVE Reads(_, _)
RECURSIVE ReadsAll(_, _, _)
ReadsAll(xs, c, i) == IF i > Len(xs) THEN <<>> ELSE Reads(xs[i], c) \o ReadsAll(xs, c, i + 1)

CellDefined(c, n, r, f, dims) ==
  IF r.lvl > 0 /\ r.cell.t = "a" /\ Readable(f, dims) THEN r.cell.f[f + 1] ELSE TRUE

\* the access record of array element e (kind k), and the reads its subscripts need
AccessOf(e, c, k) ==
  LET r    == Resolve(c, e.a)
      dims == DimsOf(c, e.a, r)
      subs == SubsOf(e, c, dims)
      f    == FlatOf(e, c, dims, subs)
      mi   == IF IsMI(e) THEN e.i[1].z ELSE <<>>
  IN AccRec(e.a, subs, k, r, dims, f, CellDefined(c, e.a, r, f, dims), mi, TRUE)

SubscriptReads(e, c) == IF IsMI(e) THEN ReadsAll(e.i[1].s, c, 1) ELSE ReadsAll(e.i, c, 1)

Reads(e, c) ==
  CASE e.k = "lit"  -> <<>>
    [] e.k = "sym"  -> LET r == Resolve(c, e.n) IN
                       <<AccRec(e.n, <<>>, "r", r, <<>>, 0,
                                IF r.lvl > 0 /\ r.cell.t = "s" THEN r.cell.def ELSE TRUE, <<>>, FALSE)>>
    [] e.k = "acc"  -> SubscriptReads(e, c) \o <<AccessOf(e, c, "r")>>
    [] e.k = "mi"   -> ReadsAll(e.s, c, 1)
    [] e.k = "cond" -> Reads(e.x[1], c) \o (IF Val(e.x[1], c) # 0 THEN Reads(e.x[2], c) ELSE Reads(e.x[3], c))
    [] e.k = "bin" /\ e.o = "&&" -> Reads(e.x[1], c) \o (IF Val(e.x[1], c) = 0 THEN <<>> ELSE Reads(e.x[2], c))
    [] e.k = "bin" /\ e.o = "||" -> Reads(e.x[1], c) \o (IF Val(e.x[1], c) # 0 THEN <<>> ELSE Reads(e.x[2], c))
    [] OTHER -> ReadsAll(e.x, c, 1)

-----------------------------------------------------------------------------
(* the machine *)
Ctx(K, D, mm) == [code |-> K.code, ext |-> D.ext, pl |-> D.planes[mm.pl], ini |-> mm.ini, fr |-> mm.fr, A |-> mm.A]

Halted(K, mm) == mm.pc > Len(K.code)

Push(fr, f) == Append(fr, f)
Pop(fr)     == SubSeq(fr, 1, Len(fr) - 1)
Top(fr)     == fr[Len(fr)]
Empty       == [x \in {} |-> 0]
Bind(f, n, v) == [x \in (DOMAIN f) \cup {n} |-> IF x = n THEN v ELSE f[x]]

DeclRec(n, dup, ins) ==
  [a |-> n, s |-> <<>>, k |-> "d", lvl |-> IF dup THEN -2 ELSE 1, ty |-> ins.op, dims |-> <<>>, f |-> 0,
   def |-> TRUE, mi |-> <<>>, sub |-> FALSE, static |-> ins.static, const |-> ins.const]

Declare(fr, n, cell) == [fr EXCEPT ![Len(fr)] = Bind(fr[Len(fr)], n, cell)]

ArrayCell(ins, pc) ==
  IF ins.const THEN [t |-> "c", d |-> pc]
  ELSE [t |-> "a", d |-> pc,
        v |-> IF ins.init = "full" THEN ins.vals ELSE [j \in 1..Size(ins.dims) |-> IF ins.init = "first" /\ j = 1 THEN ins.vals[1] ELSE 0],
        f |-> [j \in 1..Size(ins.dims) |-> ins.init # "none"]]

\* a store of value v through lvalue lv (kind "w" for =, "u" for +=); illegal stores are logged, not performed
\* (a store to A is always performed - it is writable memory - so that value-level checks see its effect)
Store(mm, c, lv, v, k) ==
  IF lv.k = "sym" THEN
     LET r == Resolve(c, lv.n) IN
     [fr |-> IF r.lvl > 0 /\ r.cell.t = "s" THEN [mm.fr EXCEPT ![r.lvl][lv.n] = [@ EXCEPT !.v = v, !.def = TRUE]] ELSE mm.fr,
      A  |-> mm.A,
      log |-> <<AccRec(lv.n, <<>>, k, r, <<>>, 0, IF r.lvl > 0 /\ r.cell.t = "s" THEN r.cell.def ELSE TRUE, <<>>, FALSE)>>]
  ELSE
     LET a  == AccessOf(lv, c, k)
         r  == Resolve(c, lv.a)
         ok == Readable(a.f, a.dims)
     IN
     [fr |-> IF r.lvl > 0 /\ r.cell.t = "a" /\ ok
             THEN [mm.fr EXCEPT ![r.lvl][lv.a] = [@ EXCEPT !.v = [@ EXCEPT ![a.f + 1] = v], !.f = [@ EXCEPT ![a.f + 1] = TRUE]]]
             ELSE mm.fr,
      A  |-> IF r.lvl = 0 /\ lv.a = "A" /\ ok THEN [mm.A EXCEPT ![a.f + 1] = v] ELSE mm.A,
      log |-> SubscriptReads(lv, c) \o <<a>>]

OldValue(c, lv) == IF lv.k = "sym" THEN Val(lv, c) ELSE ValAcc(lv, c)

Step(K, D, mm) ==
  LET pc  == mm.pc
      ins == K.code[pc]
      c   == Ctx(K, D, mm)
      nx  == [mm EXCEPT !.pc = pc + 1, !.acc = <<>>]
  IN
  CASE ins.op = "vdecl" ->
         LET dup == ins.sym \in DOMAIN Top(mm.fr)
             has == ins.val.k # "none"
             v   == IF has THEN (IF ins.t = "I" \/ ins.t = "B" THEN Val(ins.val, c) ELSE Mod(Val(ins.val, c))) ELSE 0
         IN [nx EXCEPT !.fr  = Declare(mm.fr, ins.sym, [t |-> "s", d |-> pc, v |-> v, def |-> has]),
                       !.acc = (IF has THEN Reads(ins.val, c) ELSE <<>>) \o <<DeclRec(ins.sym, dup, ins)>>,
                       !.dz  = mm.dz \/ (has /\ ins.hd /\ DivZero(ins.val, c))]
    [] ins.op = "adecl" ->
         LET dup == ins.sym \in DOMAIN Top(mm.fr) IN
         [nx EXCEPT !.fr = Declare(mm.fr, ins.sym, ArrayCell(ins, pc)), !.acc = <<DeclRec(ins.sym, dup, ins)>>]
    [] ins.op \in {"assign", "aadd"} ->
         LET rv == Val(ins.rhs, c)
             v  == IF ins.op = "assign" THEN (IF ins.t = "I" \/ ins.t = "B" THEN rv ELSE Mod(rv))
                   ELSE (IF ins.t = "I" THEN OldValue(c, ins.lhs) + rv ELSE Mod(Mod(OldValue(c, ins.lhs)) + Mod(rv)))
             st == Store(mm, c, ins.lhs, v, IF ins.op = "assign" THEN "w" ELSE "u")
         IN [nx EXCEPT !.fr = st.fr, !.A = st.A, !.acc = Reads(ins.rhs, c) \o st.log,
                       !.dz = mm.dz \/ (ins.hd /\ DivZero(ins.rhs, c))]
    [] ins.op = "loop" ->
         LET b  == Val(ins.b, c)
             e  == Val(ins.e, c)
             lf == Bind(Empty, ins.i, [t |-> "s", d |-> pc, v |-> b, def |-> TRUE])
             rd == Reads(ins.b, c) \o Reads(ins.e, c)
                     \o <<[DeclRec(ins.i, FALSE, [op |-> "loop", static |-> FALSE, const |-> FALSE]) EXCEPT !.lvl = 1]>>
         IN IF b < e THEN [nx EXCEPT !.fr = Push(Push(mm.fr, lf), Empty), !.acc = rd]
            ELSE [nx EXCEPT !.pc = ins.end + 1, !.acc = rd]
    [] ins.op = "endloop" ->
         LET lp  == K.code[ins.start]
             fr1 == Pop(mm.fr)                                   \* leave the body block
             i1  == Top(fr1)[lp.i].v + 1
             fr2 == [fr1 EXCEPT ![Len(fr1)][lp.i].v = i1]
             c2  == [c EXCEPT !.fr = fr2]
             e   == Val(lp.e, c2)
         IN IF i1 < e THEN [nx EXCEPT !.pc = ins.start + 1, !.fr = Push(fr2, Empty), !.acc = Reads(lp.e, c2)]
            ELSE [nx EXCEPT !.fr = Pop(fr2), !.acc = Reads(lp.e, c2)]
    [] ins.op = "scope_in"  -> [nx EXCEPT !.fr = Push(mm.fr, Empty)]
    [] ins.op = "scope_out" -> [nx EXCEPT !.fr = Pop(mm.fr)]

-----------------------------------------------------------------------------
(* the properties, as predicates on what the last step touched *)
InBoundsA(a) ==
  (a.k \in {"r", "w", "u"} /\ a.lvl >= 0 /\ a.ty \in {"p", "c", "a"}) =>
     /\ Len(a.s) = Len(a.dims)
     /\ \A j \in 1..Len(a.s) : a.s[j] >= 0 /\ a.s[j] < a.dims[j]
     /\ a.f = RowMajor(a.s, a.dims)                 \* the flat position C computes is the row-major one
     /\ a.f >= 0 /\ a.f < Size(a.dims)
     /\ (a.mi # <<>> /\ Len(a.mi) = Len(a.dims)) => a.mi = a.dims

NoDerefA(K, a) ==
  (K.entity = "cell" /\ a.lvl = 0) => a.a \notin {"entity_local_index", "quadrature_permutation"}

Inputs == {"w", "c", "coordinate_dofs", "entity_local_index", "quadrature_permutation"}

WriteDisciplineA(a) ==
  /\ a.k = "w" => a.lvl > 0 /\ a.ty \in {"s", "a"}
  /\ a.k = "u" => (a.lvl > 0 /\ a.ty \in {"s", "a"}) \/ (a.lvl = 0 /\ a.a = "A")
  /\ a.k = "r" => ~(a.lvl = 0 /\ a.a = "A")
  /\ a.k = "d" => (a.static => a.const)

NoUninitA(a) == a.k \in {"r", "u"} => a.def

ScopeA(a) ==
  /\ a.k \in {"r", "w", "u"} => a.lvl >= 0                                   \* declared, and the declaration is in scope
  /\ (a.k \in {"r", "w", "u"} /\ a.lvl >= 0) => (IF a.sub THEN a.ty \in {"p", "c", "a"} ELSE a.ty = "s")

UniqueA(a) == a.k = "d" => a.lvl # -2

InRanges(f, rs, en) == \E k \in 1..Len(rs) : en[k] /\ rs[k][1] <= f /\ f < rs[k][2]

ReadsEnabledA(D, a) ==
  /\ (a.lvl = 0 /\ a.a = "w" /\ a.k \in {"r", "u"}) => InRanges(a.f, D.woff, D.enabled)
  /\ (a.lvl = 0 /\ a.a = "c" /\ a.k \in {"r", "u"}) => InRanges(a.f, D.coff, [k \in 1..Len(D.coff) |-> TRUE])

AllAcc(mm, Pred(_)) == \A j \in 1..Len(mm.acc) : Pred(mm.acc[j])

\* on failure the offending access is printed so that the harness can name the site
Judge(name, K, mm, Pred(_)) ==
  \A j \in 1..Len(mm.acc) :
     Pred(mm.acc[j]) \/ (PrintT(<<"VIOL", name, K.name, mm.pc, mm.ini, mm.pl, mm.acc[j]>>) /\ FALSE)

-----------------------------------------------------------------------------
(* initial nondeterminism *)
RangeOf(s) == {s[i] : i \in 1..Len(s)}

Vectors(v) ==        \* all vectors choosing one listed value per slot
  LET n == Len(v) IN
  IF n = 0 THEN {<<>>}
  ELSE {f \in [1..n -> UNION {RangeOf(v[i]) : i \in 1..n}] : \A i \in 1..n : f[i] \in RangeOf(v[i])}

Base(v) == [i \in 1..Len(v) |-> v[i][1]]

Inis(K) ==
  IF K.inimode = "all" THEN {[e |-> es, q |-> qs] : es \in Vectors(K.valid.e), qs \in Vectors(K.valid.q)}
  ELSE LET b == [e |-> Base(K.valid.e), q |-> Base(K.valid.q)] IN
       {b}
       \cup {[b EXCEPT !.e[i] = x] : <<i, x>> \in UNION {{<<i, y>> : y \in RangeOf(K.valid.e[i])} : i \in 1..Len(K.valid.e)}}
       \cup {[b EXCEPT !.q[i] = x] : <<i, x>> \in UNION {{<<i, y>> : y \in RangeOf(K.valid.q[i])} : i \in 1..Len(K.valid.q)}}
       \cup {[e |-> K.extra[i].e, q |-> K.extra[i].q] : i \in 1..Len(K.extra)}

InitM(kid, ini, pl, A0) ==
  [kid |-> kid, ini |-> ini, pl |-> pl, pc |-> 1, fr |-> <<Empty>>, A |-> A0, acc |-> <<>>, dz |-> FALSE]

Init ==
  \E kid \in 1..Len(Kernels) :
    \E ini \in Inis(Kernels[kid]) :
      \E pi \in 1..Len(Kernels[kid].runplanes) :
        LET pl == Kernels[kid].runplanes[pi] IN
        m = InitM(kid, ini, pl, Kernels[kid].planes[pl].A0)

Next ==
  LET K == Kernels[m.kid] IN
  /\ ~Halted(K, m)
  /\ m' = Step(K, K, m)

Spec == Init /\ [][Next]_m

KK == Kernels[m.kid]

InBounds            == Judge("InBounds", KK, m, InBoundsA)
NoDeref             == Judge("NoDeref", KK, m, LAMBDA a : NoDerefA(KK, a))
WriteDiscipline     == Judge("WriteDiscipline", KK, m, WriteDisciplineA)
NoUninitialisedRead == Judge("NoUninitialisedRead", KK, m, NoUninitA)
ScopeDiscipline     == Judge("ScopeDiscipline", KK, m, ScopeA)
UniqueNames         == Judge("UniqueNames", KK, m, UniqueA)
ReadsOnlyEnabled    == Judge("ReadsOnlyEnabled", KK, m, LAMBDA a : ReadsEnabledA(KK, a))

\* end of a run: reported so that the harness can count runs, steps outside the value model, and read A
Finished == Halted(KK, m) => PrintT(<<"DONE", KK.name, m.ini, m.pl, m.dz>>)

\* compact error traces
Brief == [kernel |-> KK.name, pc |-> m.pc, ini |-> m.ini, pl |-> m.pl, acc |-> m.acc, depth |-> Len(m.fr)]
=============================================================================
