----------------------------- MODULE Rational -----------------------------
(* Exact arithmetic for the finite-element reference semantics (S5).        *)
(* A rational is a pair <<n, d>> with d > 0 and gcd(|n|, d) = 1.            *)
(* A complex number is a pair <<re, im>> of rationals.                      *)
(* TLC integers are 32-bit: an overflow is a TLC error, which the harness   *)
(* maps to "case outside the model's range" (skipped and counted).          *)
EXTENDS Integers, Sequences

RECURSIVE GCD(_, _)
GCD(a, b) == IF b = 0 THEN a ELSE GCD(b, a % b)
AbsI(a) == IF a < 0 THEN -a ELSE a

Norm(n, d) ==
  IF n = 0 THEN <<0, 1>>
  ELSE LET g == GCD(AbsI(n), AbsI(d))
           s == IF d < 0 THEN -1 ELSE 1
       IN <<s * (n \div g), s * (d \div g)>>

Zero == <<0, 1>>
One  == <<1, 1>>
RInt(k) == <<k, 1>>
RNeg(x) == <<-x[1], x[2]>>
RAbs(x) == <<AbsI(x[1]), x[2]>>
RAdd(x, y) ==
  IF x[1] = 0 THEN y ELSE IF y[1] = 0 THEN x
  ELSE LET g == GCD(x[2], y[2])
       IN Norm(x[1] * (y[2] \div g) + y[1] * (x[2] \div g), (x[2] \div g) * y[2])
RSub(x, y) == RAdd(x, RNeg(y))
RMul(x, y) ==
  IF x[1] = 0 \/ y[1] = 0 THEN Zero
  ELSE LET g1 == GCD(AbsI(x[1]), y[2])
           g2 == GCD(AbsI(y[1]), x[2])
       IN <<(x[1] \div g1) * (y[1] \div g2), (x[2] \div g2) * (y[2] \div g1)>>
RInv(x) == IF x[1] > 0 THEN <<x[2], x[1]>> ELSE <<-x[2], -x[1]>>      \* x # 0
RDiv(x, y) == RMul(x, RInv(y))
RLt(x, y) == x[1] * y[2] < y[1] * x[2]
RLe(x, y) == x[1] * y[2] <= y[1] * x[2]
RSign(x) == IF x[1] > 0 THEN 1 ELSE IF x[1] < 0 THEN -1 ELSE 0

RECURSIVE RSumSeq(_, _)
RSumSeq(s, k) == IF k = 0 THEN Zero ELSE RAdd(RSumSeq(s, k - 1), s[k])
RSum(s) == RSumSeq(s, Len(s))

\* Sum_{k in 1..n} f[k] for a function / sequence-valued expression given as an operator
RECURSIVE RSumTo(_, _)
RSumTo(F(_), n) == IF n = 0 THEN Zero ELSE RAdd(RSumTo(F, n - 1), F(n))

RECURSIVE RPow(_, _)
RPow(x, e) == IF e = 0 THEN One ELSE IF e < 0 THEN RInv(RPow(x, -e)) ELSE RMul(x, RPow(x, e - 1))

\* integer square root by bisection; ISqrt(n) = floor(sqrt(n)), n >= 0
RECURSIVE ISqrtB(_, _, _)
ISqrtB(n, lo, hi) ==          \* invariant lo*lo <= n < (hi+1)*(hi+1)
  IF lo = hi THEN lo
  ELSE LET mid == (lo + hi + 1) \div 2
       IN IF mid <= 46340 /\ mid * mid <= n THEN ISqrtB(n, mid, hi) ELSE ISqrtB(n, lo, mid - 1)
ISqrt(n) == ISqrtB(n, 0, 46340)
IsSquareI(n) == n >= 0 /\ ISqrt(n) * ISqrt(n) = n
RIsSquare(x) == IsSquareI(x[1]) /\ IsSquareI(x[2])
RSqrt(x) == <<ISqrt(x[1]), ISqrt(x[2])>>       \* only when RIsSquare(x)

---------------------------------------------------------------------------
(* complex *)
CZero == <<Zero, Zero>>
COne  == <<One, Zero>>
CReal(x) == <<x, Zero>>
CAdd(a, b) == <<RAdd(a[1], b[1]), RAdd(a[2], b[2])>>
CNeg(a) == <<RNeg(a[1]), RNeg(a[2])>>
CMul(a, b) ==
  IF a[2][1] = 0 /\ b[2][1] = 0 THEN <<RMul(a[1], b[1]), Zero>>
  ELSE <<RSub(RMul(a[1], b[1]), RMul(a[2], b[2])), RAdd(RMul(a[1], b[2]), RMul(a[2], b[1]))>>
CScale(r, a) == <<RMul(r, a[1]), RMul(r, a[2])>>
CConj(a) == <<a[1], RNeg(a[2])>>
CAbs2(a) == RAdd(RMul(a[1], a[1]), RMul(a[2], a[2]))
CInv(a) == LET m == CAbs2(a) IN <<RDiv(a[1], m), RNeg(RDiv(a[2], m))>>
CDiv(a, b) == CMul(a, CInv(b))
CIsZero(a) == a[1][1] = 0 /\ a[2][1] = 0
RECURSIVE CPow(_, _)
CPow(x, e) == IF e = 0 THEN COne ELSE IF e < 0 THEN CInv(CPow(x, -e)) ELSE CMul(x, CPow(x, e - 1))
\* a cheap upper bound of |a| that stays rational: |re| + |im|
CMag(a) == RAdd(RAbs(a[1]), RAbs(a[2]))

---------------------------------------------------------------------------
(* small dense real matrices: sequences of rows of rationals *)
Dot(u, v) == LET F(k) == RMul(u[k], v[k]) IN RSumTo(F, Len(u))
MatT(M) == [c \in 1..Len(M[1]) |-> [r \in 1..Len(M) |-> M[r][c]]]
MatMul(A, B) == [r \in 1..Len(A) |-> [c \in 1..Len(B[1]) |->
                   LET F(k) == RMul(A[r][k], B[k][c]) IN RSumTo(F, Len(B))]]
Det(M) ==
  IF Len(M) = 1 THEN M[1][1]
  ELSE IF Len(M) = 2 THEN RSub(RMul(M[1][1], M[2][2]), RMul(M[1][2], M[2][1]))
  ELSE RAdd(RSub(RMul(M[1][1], RSub(RMul(M[2][2], M[3][3]), RMul(M[2][3], M[3][2]))),
                 RMul(M[1][2], RSub(RMul(M[2][1], M[3][3]), RMul(M[2][3], M[3][1])))),
            RMul(M[1][3], RSub(RMul(M[2][1], M[3][2]), RMul(M[2][2], M[3][1]))))
Minor(M, r, c) ==
  LET n == Len(M)
      rows == [i \in 1..(n - 1) |-> IF i < r THEN i ELSE i + 1]
      cols == [j \in 1..(n - 1) |-> IF j < c THEN j ELSE j + 1]
  IN [i \in 1..(n - 1) |-> [j \in 1..(n - 1) |-> M[rows[i]][cols[j]]]]
Inverse(M) ==        \* square, Det # 0: adjugate / det
  LET n == Len(M)  dt == Det(M)
  IN IF n = 1 THEN <<<<RInv(M[1][1])>>>>
     ELSE [r \in 1..n |-> [c \in 1..n |->
            LET cof == Det(Minor(M, c, r))
                sg == IF (r + c) % 2 = 0 THEN cof ELSE RNeg(cof)
            IN RDiv(sg, dt)]]
=============================================================================
