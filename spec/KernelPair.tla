----------------------------- MODULE KernelPair -----------------------------
(***************************************************************************)
(* S4 - two executions of generated kernels on the machine of Kernel.tla,  *)
(* in lock step, and what must hold between their final element tensors.   *)
(*                                                                         *)
(* Input IOEnv.S4_INPUT : [kernels |-> <<K...>>, pairs |-> <<R...>>] with  *)
(*   R = [mode, a, b, pa, pb, inimode, extra]   a, b kernel indices; pa,   *)
(*        pb data planes of kernel a; inimode/extra: which entity /        *)
(*        permutation vectors TLC ranges over (Kernel!Inis) - for interior *)
(*        facets these must include vectors whose two sides DIFFER, else   *)
(*        the '+' and '-' accesses coincide and programs agree by accident *)
(* Both machines always run on kernel a's DATA (extents, planes), so that  *)
(* two programs are compared on identical inputs by construction.          *)
(*                                                                         *)
(*  mode "equiv"     programs a and b (the optimiser's input and output,   *)
(*                   or one pass applied alone) on plane pa                *)
(*                   Equivalent: identical final A          (C17)          *)
(*  mode "additive"  program a on plane pa and on plane pa with only A0    *)
(*                   taken from plane pb (the spec builds the second       *)
(*                   plane): Additive: A_final - A0 identical   (C07)      *)
(*  mode "repeat"    program a twice in sequence, the second run starting  *)
(*                   from the first run's final A:                         *)
(*                   Repeatable: the second run adds the same T (C07)      *)
(*  mode "disabled"  program a on plane pa and on plane pa whose w cells   *)
(*                   OUTSIDE every enabled coefficient are replaced by w2  *)
(*                   (the spec decides which cells): DisabledIrrelevant:   *)
(*                   identical final A                       (C05)         *)
(* In every mode both machines must satisfy NoUninitialisedRead and the    *)
(* scope discipline at every step (PairClean).                             *)
(* A run in which a denominator was 0 in Z_p is outside the value model:   *)
(* reported as such (<<"PAIR", ..., "dz">>), never judged.                 *)
(***************************************************************************)
EXTENDS Integers, Sequences, FiniteSets, TLC, Json, IOUtils

VARIABLES pid, m1, m2, ph

M == INSTANCE Kernel WITH m <- m1

Kernels == M!Kernels
Pairs   == M!Doc.pairs
P       == M!P

PR == Pairs[pid]
KA == Kernels[PR.a]
KB == Kernels[PR.b]

\* the data the second machine runs on
PlaneB(K, r) ==
  LET a == K.planes[r.pa] IN
  CASE r.mode = "additive" -> [a EXCEPT !.A0 = K.planes[r.pb].A0]
    [] r.mode = "disabled" ->
         [a EXCEPT !.w = [i \in 1..Len(a.w) |-> IF M!InRanges(i - 1, K.woff, K.enabled) THEN a.w[i] ELSE a.w2[i]]]
    [] OTHER -> a

DataB(K, r) == [K EXCEPT !.planes = [@ EXCEPT ![r.pa] = PlaneB(K, r)]]

Init ==
  \E p \in 1..Len(Pairs) :
    LET r == Pairs[p]
        K == Kernels[r.a]
    IN \E ini \in M!Inis([K EXCEPT !.inimode = r.inimode, !.extra = r.extra]) :
         /\ pid = p
         /\ m1 = M!InitM(r.a, ini, r.pa, K.planes[r.pa].A0)
         /\ m2 = M!InitM(r.b, ini, r.pa, PlaneB(K, r).A0)
         /\ ph = IF r.mode = "repeat" THEN "first" ELSE "both"

Next ==
  IF PR.mode = "repeat" THEN
       IF ~M!Halted(KA, m1) THEN m1' = M!Step(KA, KA, m1) /\ UNCHANGED <<pid, m2, ph>>
       ELSE IF ph = "first" THEN /\ m2' = M!InitM(PR.a, m1.ini, m1.pl, m1.A)
                                 /\ ph' = "second" /\ UNCHANGED <<pid, m1>>
       ELSE /\ ~M!Halted(KA, m2)
            /\ m2' = M!Step(KA, KA, m2) /\ UNCHANGED <<pid, m1, ph>>
  ELSE /\ ~(M!Halted(KA, m1) /\ M!Halted(KB, m2))
       /\ m1' = IF M!Halted(KA, m1) THEN m1 ELSE M!Step(KA, KA, m1)
       /\ m2' = IF M!Halted(KB, m2) THEN m2 ELSE M!Step(KB, DataB(KA, PR), m2)
       /\ UNCHANGED <<pid, ph>>

Spec == Init /\ [][Next]_<<pid, m1, m2, ph>>

-----------------------------------------------------------------------------
BothDone == IF PR.mode = "repeat" THEN ph = "second" /\ M!Halted(KA, m2)
            ELSE M!Halted(KA, m1) /\ M!Halted(KB, m2)
InModel  == ~m1.dz /\ ~m2.dz

Diff(x, y) == (x + P - y) % P

Say(what, i) == PrintT(<<"PVIOL", what, PR.mode, KA.name, KB.name, m1.ini, PR.pa, PR.pb, i>>) /\ FALSE

Equivalent ==
  (PR.mode = "equiv" /\ BothDone /\ InModel) =>
     \A i \in 1..Len(m1.A) : m1.A[i] = m2.A[i] \/ Say("Equivalent", i)

Additive ==
  (PR.mode = "additive" /\ BothDone /\ InModel) =>
     \A i \in 1..Len(m1.A) :
        Diff(m1.A[i], KA.planes[PR.pa].A0[i]) = Diff(m2.A[i], KA.planes[PR.pb].A0[i]) \/ Say("Additive", i)

Repeatable ==
  (PR.mode = "repeat" /\ BothDone /\ InModel) =>
     \A i \in 1..Len(m1.A) :
        Diff(m2.A[i], m1.A[i]) = Diff(m1.A[i], KA.planes[PR.pa].A0[i]) \/ Say("Repeatable", i)

DisabledIrrelevant ==
  (PR.mode = "disabled" /\ BothDone /\ InModel) =>
     \A i \in 1..Len(m1.A) : m1.A[i] = m2.A[i] \/ Say("DisabledIrrelevant", i)

\* every step of both machines: no read of an unwritten cell, every name resolves in scope, no double declaration
Clean(K, mm, side) ==
  \A j \in 1..Len(mm.acc) :
     (M!NoUninitA(mm.acc[j]) /\ M!ScopeA(mm.acc[j]) /\ M!UniqueA(mm.acc[j]))
     \/ (PrintT(<<"PVIOL", "PairClean", PR.mode, K.name, side, mm.ini, mm.pc, mm.acc[j]>>) /\ FALSE)
PairClean == Clean(KA, m1, 1) /\ Clean(IF PR.mode = "repeat" THEN KA ELSE KB, m2, 2)

Finished ==
  BothDone => PrintT(<<"PAIR", PR.mode, KA.name, KB.name, m1.ini, PR.pa, PR.pb, IF InModel THEN "ok" ELSE "dz">>)

Brief == [mode |-> PR.mode, a |-> KA.name, b |-> KB.name, ini |-> m1.ini, pc1 |-> m1.pc, pc2 |-> m2.pc, ph |-> ph]
=============================================================================
