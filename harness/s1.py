"""Engine S1: JitCache.tla <-> real jit.py processes (serves C14, C15, part of C19)."""

from __future__ import annotations

import json
import random
import re
import subprocess
from concurrent.futures import ThreadPoolExecutor
from pathlib import Path

from . import tlc
from .common import NCPU, PY, MachineryError, child_env, scratch

PROCS = ["p1", "p2", "p3"]

C14_INVS = ["MutualExclusion", "HolderHasLock", "OneBuild", "MarkerImpliesComplete", "LoadPointComplete",
            "SameObjects", "ReturnedLoaded", "Reuse", "NoHang", "NoTimeoutWhenTimely"]
C15_INVS = ["FailureReleasesLock", "GlobalStateRestored", "MarkerImpliesComplete", "LoadPointComplete",
            "NoHang", "ReturnedLoaded", "UnfaultedNeverFails"]
ACTION_PROPS = ["NoPartialLoad", "NextBuildsAfresh"]
# which observed property names belong to which listed property
OWNER = {"MutualExclusion": "C14", "OneBuild": "C14", "MarkerImpliesComplete": "C14", "LoadPointComplete": "C14",
         "SameObjects": "C14", "ReturnedLoaded": "C14", "Reuse": "C14", "NoHang": "C15", "NoPartialLoad": "C14",
         "ResultsCorrect": "C14", "FailureReleasesLock": "C15", "GlobalStateRestored": "C15",
         "NextBuildsAfresh": "C15", "UnfaultedNeverFails": "C15"}


def cfg(procs=3, keys=1, max_polls=2, max_req=5, max_kills=1, max_fails=1, fixed=True, timely=False,
        invs=None, props=None, spec="Spec", view=True, strings=False, fixed_marker=True):
    q = (lambda s: f'"{s}"') if strings else (lambda s: s)
    ps = ", ".join(q(f"p{i + 1}") for i in range(procs))
    ks = ", ".join(q(f"k{i + 1}") for i in range(keys))
    lines = [f"SPECIFICATION {spec}", "CONSTANTS", f"  Proc = {{{ps}}}", f"  Key = {{{ks}}}",
             f"  MaxPolls = {max_polls}", f"  MaxReq = {max_req}", f"  MaxKills = {max_kills}",
             f"  MaxFails = {max_fails}", f"  FixedHandlers = {'TRUE' if fixed else 'FALSE'}",
             f"  FixedMarker = {'TRUE' if fixed_marker else 'FALSE'}",
             f"  Timely = {'TRUE' if timely else 'FALSE'}"]
    if view:
        lines.append("VIEW view")
    for i in invs if invs is not None else ["TypeOK", *sorted(set(C14_INVS + C15_INVS))]:
        lines.append(f"INVARIANT {i}")
    for p in props if props is not None else ACTION_PROPS:
        lines.append(f"PROPERTY {p}")
    return "\n".join(lines) + "\n"


def model_check(chk, name, coverage=False, timeout=1500, **kw):
    d = tlc.stage(name, ["JitCache"])
    r = tlc.run(d, "JitCache", cfg_text=cfg(**kw), coverage=coverage, timeout=timeout)
    tlc.must_ok(r, name)
    chk.add(states=r.distinct, transitions=r.generated)
    chk.note(f"TLC {name}: {r.generated} generated, {r.distinct} distinct, depth {r.depth}, "
             f"{r.wall_s:.1f}s, verdict={'ok' if r.ok else r.violated}")
    return r


# ---------------------------------------------------------------------------
# spec -> code: behaviours from TLC simulation

_HDR = re.compile(r"^\\\* <(\w+)(?:\(([^)]*)\))? line", re.M)


def parse_behaviour(text: str):
    """One -simulate file -> list of (action, args, state dict)."""
    out = []
    parts = re.split(r"^\\\* <", text, flags=re.M)[1:]
    for part in parts:
        m = re.match(r"(\w+)(?:\(([^)]*)\))? line", part)
        act = m.group(1)
        args = [a.strip().strip('"') for a in m.group(2).split(",")] if m.group(2) else []
        body = part.split("==", 1)[1]
        body = body.split("\n\n")[0] if "\n\n\n" not in body else body.split("\n\n\n")[0]
        state = {}
        for cj in re.split(r"^/\\ ", body.strip(), flags=re.M):
            cj = cj.strip()
            if not cj or cj.startswith("===="):
                continue
            var, val = cj.split("=", 1)
            val = val.split("\n====")[0]
            state[var.strip()] = tlc.parse_tla(val.strip())
        out.append((act, args, state))
    return out


def parse_counterexample(out: str):
    """TLC's printed error trace -> list of (action, args, state dict)."""
    res = []
    parts = re.split(r"^State \d+: <", out, flags=re.M)[1:]
    for part in parts:
        m = re.match(r"(\w+)(?:\(([^)]*)\))? line", part)
        if not m:                                     # "Initial predicate>"
            act, args = "Init", []
        else:
            act = m.group(1)
            args = [a.strip().strip('"') for a in m.group(2).split(",")] if m.group(2) else []
        body = part.split("\n", 1)[1]
        body = re.split(r"\n\s*\n", body)[0]
        state = {}
        for cj in re.split(r"^/\\ ", body.strip(), flags=re.M):
            cj = cj.strip()
            if not cj:
                continue
            var, val = cj.split("=", 1)
            state[var.strip()] = tlc.parse_tla(val.strip())
        res.append((act, args, state))
    return res


def job_from_behaviour(beh, P, K, max_polls, tail=None):
    steps = []
    for act, args, st in beh:
        if act == "Init":
            continue
        s_ = {"act": act, "p": args[0], "expect": expect_of(st, P, K)}
        if act == "Request":
            s_["k"], s_["f"] = args[1], args[2]
        steps.append(s_)
    j = {"mode": "schedule", "procs": P, "keys": K, "max_polls": max_polls, "steps": steps}
    if tail:
        j["tail"] = tail
    return j


def target_schedules(targets, procs=3, keys=1, max_polls=2, max_req=3, max_kills=1, max_fails=1, tails=None):
    """For each reachability target (a TLA+ formula over JitCache's variables that should be *refuted*),
    ask TLC for the shortest behaviour reaching it; returns replay jobs (one per target x tail)."""
    P = [f"p{i + 1}" for i in range(procs)]
    K = [f"k{i + 1}" for i in range(keys)]

    def one(item):
        name, formula = item
        mod = "JitTarget"
        text = (f"---- MODULE {mod} ----\nEXTENDS JitCache\nTarget == {formula}\n====\n")
        d = tlc.stage("tgt-" + re.sub(r"\W+", "_", name), ["JitCache"], {f"{mod}.tla": text})
        c = cfg(procs, keys, max_polls, max_req, max_kills, max_fails, invs=["Target"], props=[], view=False)
        r = tlc.run(d, mod, cfg_text=c, workers=2, timeout=600)
        if r.violated != "Target":
            return name, None, r
        return name, parse_counterexample(r.out), r

    jobs, unreachable, gen = [], [], 0
    with ThreadPoolExecutor(6) as ex:
        for name, beh, r in ex.map(one, targets):
            gen += r.generated
            if beh is None:
                unreachable.append(name)
                continue
            for tl in tails or [None]:
                j = job_from_behaviour(beh, P, K, max_polls, tl)
                j["target"] = name
                jobs.append(j)
    return jobs, unreachable, gen


def expect_of(state, procs, keys):
    fs = {k: dict(state["fs"][k]) for k in keys}
    pr = {p: {"pc": state["pc"][p], "hand": state["hand"][p], "out": state["out"][p], "cwd": state["cwd"][p],
              "polls": state["polls"][p], "loaded": state["loaded"][p]} for p in procs}
    return {"fs": fs, "procs": pr}


def simulate_schedules(n, depth, seed, procs=3, keys=1, max_polls=2, max_req=5, max_kills=1, max_fails=1):
    """Ask TLC for n random behaviours of JitCache and turn each into a replay job."""
    d = tlc.stage("sim", ["JitCache"])
    per = max(1, (n + NCPU - 1) // NCPU)
    r = tlc.run(d, "JitCache", cfg_text=cfg(procs, keys, max_polls, max_req, max_kills, max_fails,
                                            invs=[], props=[], view=False),
                simulate=f"file={d}/tr,num={per}", depth=depth, seed=seed, workers=min(NCPU, n))
    tlc.must_ok(r, "simulate")
    P = [f"p{i + 1}" for i in range(procs)]
    K = [f"k{i + 1}" for i in range(keys)]
    jobs = []
    for f in sorted(d.glob("tr_*")):
        beh = parse_behaviour(f.read_text())
        steps = []
        for act, args, st in beh[1:]:
            s = {"act": act, "p": args[0], "expect": expect_of(st, P, K)}
            if act == "Request":
                s["k"], s["f"] = args[1], args[2]
            steps.append(s)
        if steps:
            jobs.append({"mode": "schedule", "procs": P, "keys": K, "max_polls": max_polls, "steps": steps})
    return jobs, r


def cover_key(job):
    """What a schedule exercises: (action, control points of the other processes) pairs."""
    ks = set()
    prev = None
    for s in job["steps"]:
        others = tuple(sorted(v["pc"] for p, v in (prev or s["expect"])["procs"].items() if p != s["p"]))
        ks.add((s["act"], others))
        if s["act"] == "Kill" and prev:
            ks.add(("KillAt", prev["procs"][s["p"]]["pc"]))
        prev = s["expect"]
    return ks


def select_covering(jobs, limit):
    """Greedy cover: prefer schedules adding the most unseen (action, context) pairs."""
    chosen, seen = [], set()
    pool = [(j, cover_key(j)) for j in jobs]
    while pool and len(chosen) < limit:
        pool.sort(key=lambda jc: -len(jc[1] - seen))
        j, c = pool.pop(0)
        if not (c - seen) and len(chosen) >= limit // 2:
            break
        chosen.append(j)
        seen |= c
    return chosen, seen


def random_jobs(n, seed, procs=3, keys=1, max_polls=2, nsteps=70, max_req=6, max_kills=1, max_fails=1, p_fail=0.3):
    rnd = random.Random(seed)
    P = [f"p{i + 1}" for i in range(procs)]
    K = [f"k{i + 1}" for i in range(keys)]
    return [{"mode": "random", "seed": rnd.randrange(1 << 30), "procs": P, "keys": K, "max_polls": max_polls,
             "nsteps": nsteps, "max_req": max_req, "max_kills": max_kills, "max_fails": max_fails,
             "p_fail": p_fail} for _ in range(n)]


def run_jobs(jobs, nworkers=None):
    """Run jobs on real processes (one zygote worker per core)."""
    for i, j in enumerate(jobs):
        j["id"] = i + 1
        j.setdefault("variant", "form" if i % 3 else "expr")     # every third execution goes through compile_expressions
    nworkers = max(1, min(nworkers or NCPU, len(jobs)))
    d = scratch("jitjobs")
    chunks = [jobs[i::nworkers] for i in range(nworkers)]

    def one(i):
        jf, of = d / f"jobs{i}.json", d / f"out{i}.json"
        jf.write_text(json.dumps(chunks[i]))
        p = subprocess.run([PY, "-m", "harness.jitdrv.worker", str(jf), str(of)], env=child_env(),
                           capture_output=True, text=True, timeout=3600)
        if p.returncode != 0 or not of.exists():
            raise MachineryError(f"jit worker failed: {p.stderr[-2000:]}")
        return json.loads(of.read_text())

    with ThreadPoolExecutor(nworkers) as ex:
        res = [r for rs in ex.map(one, range(nworkers)) for r in rs]
    res.sort(key=lambda r: r["id"])
    errs = [r for r in res if "error" in r]
    if errs:
        raise MachineryError(f"jit driver error: {errs[0]['error']}\n{errs[0].get('tb', '')}")
    return res


# ---------------------------------------------------------------------------
# code -> spec: trace validation by TLC

_ACT = {"request": "Request", "kill": "Kill", "codegen": "Codegen", "ccsrc": "CcSource", "cc": "CcObject",
        "link": "LinkBegin", "linkend": "LinkEnd", "replace": "FailRename", "exists": "Poll", "sleep": "Sleep",
        "end": "Return"}


def normalise(trace, procs, keys):
    """Worker trace -> the uniform line records JitCacheTrace.tla reads."""
    lines = []
    last_end = {p: "idle" for p in procs}
    for ln in trace:
        a, e = ln["args"], ln["ev"]
        if e == "open" and a.get("mode") == "x" and a.get("file") in ("c", "cached"):
            act = "TryLock" if a["file"] == "c" else "WriteMarker"
        elif e == "load":
            act = "LoadBuilder" if a["role"] == "builder" else "LoadWaiter"
        elif e == "exists" and a.get("file") != "cached":
            act = "other"
        elif e == "exists" and a.get("role") == "builder":
            act = "CheckMarker"
        elif e in ("replace", "rename") and a.get("dst") == "cached":
            act = "WriteMarker"
        elif e == "replace" and not (a.get("file") == "c" and a.get("dst") == "failed"):
            act = "other"
        else:
            act = _ACT.get(e, "other")
        if e == "end":
            last_end[ln["proc"]] = ("returned" if a["outcome"] == "returned" else
                                    "raised_timeout" if a["exc"] == "TimeoutError" else "raised_fail")
        if e == "request":
            last_end[ln["proc"]] = "idle"
        procs_ = {}
        for p in procs:
            d = ln["procs"][p]
            pc = d["at"]
            if pc == "idle":
                pc = last_end[p]
            procs_[p] = {"pc": pc, "key": d["key"], "polls": d["polls"], "loaded": d["loaded"],
                         "hand": d["hand"], "out": d["out"], "cwd": d["cwd"]}
        lines.append({
            "proc": ln["proc"], "ev": e, "act": act, "res": str(ln["res"]),
            "key": a.get("key") or ln["procs"][ln["proc"]]["key"], "fault": a.get("fault", "none"),
            "file": a.get("file", ""), "mode": a.get("mode", ""),
            "outcome": a.get("outcome", ""), "exc": a.get("exc", ""),
            "result_ok": bool(a.get("result_ok", True)), "complete": bool(a.get("complete", True)),
            "fs": {k: ln["fs"][k] for k in keys}, "procs": procs_})
    return lines


def validate(traces, mode, procs=3, keys=1, max_polls=2, fixed=True):
    """traces: list of normalised traces.  Returns per trace {consumed, length, viol: [(l, name)]}."""
    if not traces:
        return [], None
    d = tlc.stage("trace-" + mode, ["JitCache", "JitCacheTrace"])
    tf = d / "traces.json"
    tf.write_text(json.dumps(traces))
    c = cfg(procs, keys, max_polls, max_req=10**6, max_kills=10**6, max_fails=10**6, fixed=fixed,
            invs=["Judge"], props=[], spec="TSpec", view=False, strings=True)
    r = tlc.run(d, "JitCacheTrace", cfg_text=c, workers=1, env={"TRACE_FILE": str(tf), "TRACE_MODE": mode},
                timeout=1800)
    tlc.must_ok(r, f"trace validation ({mode})")
    res = [{"consumed": 0, "length": len(t), "viol": []} for t in traces]
    for s in r.printed:
        if not s.startswith("<<"):
            continue
        v = tlc.parse_tla(s)
        if v[0] == "AT":
            res[v[1] - 1]["consumed"] = max(res[v[1] - 1]["consumed"], v[2] - 1)
        elif v[0] == "VIOL":
            res[v[1] - 1]["viol"].append((v[2] - 1, v[3]))
    for x in res:
        x["viol"] = sorted(set(x["viol"]))
    return res, r


def first_violations(v):
    """name -> first line index at which it is reported."""
    out = {}
    for ln, name in v["viol"]:
        out.setdefault(name, ln)
    return out


# ---------------------------------------------------------------------------
# the two checks built on this engine

CRASH_POINTS = ["trylock", "gen", "ccsrc", "ccobj", "link", "linking", "mark", "publish", "bload", "frename",
                "poll", "sleep", "wload", "ret", "raise_fail", "raise_timeout"]


def _abbrev(trace):
    return [f"{ln['proc']}:{ln['act'] if ln['act'] != 'other' else ln['ev']}"
            + (f"({ln['fault']})" if ln["act"] == "Request" and ln["fault"] != "none" else "")
            + (f"={ln['res']}" if ln["res"] not in ("ok", "none") else "") for ln in trace]


def judge(chk, results, traces, procs, keys, max_polls, own):
    """Validate recorded traces (strict = conformance, observe = properties) and report."""
    strict, r1 = validate(traces, "strict", procs, keys, max_polls)
    obs, r2 = validate(traces, "observe", procs, keys, max_polls)
    chk.add(states=r1.distinct + r2.distinct, transitions=r1.generated + r2.generated,
            traces_validated_against_impl=len(traces))
    ndrift = nacc = 0
    for i, (res, tr) in enumerate(zip(results, traces)):
        s, o = strict[i], obs[i]
        if o["consumed"] != o["length"]:
            raise MachineryError(f"observe-mode validation stopped at line {o['consumed']} of trace {i}")
        if s["consumed"] == s["length"] and not res.get("drift"):
            nacc += 1
        else:
            ndrift += 1
            at = s["consumed"]
            why = res.get("drift") or {"why": f"JitCache has no step for line {at + 1}: {_abbrev(tr[at:at + 1])}"}
            chk.note(f"conformance drift in trace {i} ({res['mode']}): {why}")
        for name, ln in first_violations(o).items():
            line = tr[ln - 1]
            key = f"{name}:{line['act'] if line['act'] != 'other' else line['ev']}:{line['res']}"
            what = (f"{name} is false in the state observed after operation {ln} "
                    f"({line['proc']} {line['ev']} -> {line['res']}) of a real execution")
            faulty_prefix = any(x["act"] == "Kill" or (x["act"] == "Request" and x["fault"] != "none") for x in tr[:ln])
            mine = OWNER.get(name) == own or (own == "C15" and faulty_prefix and name in (
                "LoadPointComplete", "NoPartialLoad", "ResultsCorrect", "MarkerImpliesComplete", "ReturnedLoaded"))
            if mine:
                chk.violation(key, what, {"property_invariant": name, "line": ln, "job": {k: v for k, v in res.items() if k != 'trace'},
                                          "trace_prefix": tr[:ln], "abbrev": _abbrev(tr[:ln])})
            else:
                chk.note(f"(belongs to {OWNER.get(name)}) {what}")
    chk.add(conformance_accepted=nacc, conformance_drift=ndrift)
    return strict, obs


def design_must_hold(chk, name, **kw):
    r = model_check(chk, name, **kw)
    if not r.ok:
        raise MachineryError(f"design spec JitCache.tla violates {r.violated} in config {name}:\n" +
                             "\n".join(r.error_trace[:60]))
    return r


def liveness(chk):
    d = tlc.stage("live", ["JitCache"])
    c = cfg(3, 1, max_polls=2, max_req=3, max_kills=0, max_fails=1, invs=[], props=["AllEnd"], spec="FairSpec", view=False)
    r = tlc.run(d, "JitCache", cfg_text=c, timeout=900)
    tlc.must_ok(r, "liveness")
    if not r.ok:
        raise MachineryError(f"design spec: liveness AllEnd fails: {r.violated}")
    chk.add(states=r.distinct, transitions=r.generated)
    chk.note(f"TLC liveness AllEnd under FairSpec: {r.distinct} distinct states, ok")


def run_check(chk, own):
    quick = chk.tier == "quick"
    seed = chk.seed
    P, K = PROCS, ["k1"]
    results = []
    if own == "C14":
        # design level: all interleavings
        design_must_hold(chk, "c14-timely", procs=3, keys=1, max_polls=9, max_req=3 if quick else 4, max_kills=0,
                         max_fails=0, timely=True)
        r = design_must_hold(chk, "c14-faulty", coverage=True, procs=3, keys=1, max_polls=2, max_req=4 if quick else 5,
                             max_kills=1, max_fails=1)
        dead = [a for a, (d, t) in r.coverage.items() if t == 0 and a in
                ("TryLock", "Codegen", "CcSource", "CcObject", "LinkBegin", "LinkEnd", "CheckMarker", "WriteMarker", "LoadBuilder",
                 "FailRename", "Poll", "Sleep", "LoadWaiter", "Return", "Kill", "Request")]
        if dead:
            raise MachineryError(f"vacuity: actions never taken: {dead}")
        chk.add(action_coverage={a: t for a, (d, t) in r.coverage.items() if a[0].isupper() and t})
        if not quick:
            design_must_hold(chk, "c14-2keys", procs=3, keys=2, max_polls=2, max_req=3, max_kills=1, max_fails=1, timeout=5400)
            design_must_hold(chk, "c14-4procs", procs=4, keys=1, max_polls=2, max_req=4, max_kills=1, max_fails=1, timeout=5400)
        liveness(chk)
        # spec -> code: TLC behaviours replayed on real processes
        jobs, rs = simulate_schedules(160 if quick else 1500, 45, seed + 1, max_kills=0, max_fails=0)
        jobs2, _ = simulate_schedules(96 if quick else 1500, 45, seed + 2, max_kills=1, max_fails=1)
        sel, seen = select_covering(jobs, 12 if quick else 120)
        sel2, seen2 = select_covering(jobs2, 8 if quick else 120)
        chk.add(schedule_contexts_covered=len(seen | seen2))
        rj = random_jobs(10 if quick else 200, seed + 3, max_kills=0, max_fails=0) + \
            random_jobs(6 if quick else 150, seed + 4)
        allj = sel + sel2 + rj
        if not quick:
            j2, _ = simulate_schedules(300, 60, seed + 5, keys=2, max_req=6)
            s2, _ = select_covering(j2, 60)
            results += _run_and_judge(chk, s2 + random_jobs(60, seed + 6, keys=2), 3, 2, 2, own)
        results += _run_and_judge(chk, allj, 3, 1, 2, own)
    else:
        design_must_hold(chk, "c15-faults", coverage=False, procs=3, keys=1, max_polls=2, max_req=4 if quick else 5,
                         max_kills=1 if quick else 2, max_fails=1, timeout=5400)
        if not quick:
            design_must_hold(chk, "c15-2keys", procs=3, keys=2, max_polls=2, max_req=3, max_kills=1, max_fails=1, timeout=5400)
        # fault enumeration by TLC: the shortest behaviour reaching each crash point / failure kind
        targets = [(f"kill@{x}", f'NeverKilledAt("{x}")') for x in CRASH_POINTS] + \
                  [(f"fail:{f}", f'NeverFails("{f}")') for f in ("codegen", "cc", "link", "marker", "echo")]
        later1 = [["req", "k1", "none"], ["drain"]]
        tails = [later1 + later1]
        if not quick:
            tails += [[["req", "k1", "none"], ["steps", 3], ["req", "k1", "none"], ["drain"], ["req", "k1", "none"], ["drain"]],
                      [["req", "k1", "cc"], ["drain"], ["req", "k1", "none"], ["drain"]],
                      [["req", "k1", "codegen"], ["steps", 2], ["req", "k1", "none"], ["drain"]]]
        tj, unreachable, gen = target_schedules(targets, tails=tails)
        if unreachable:
            raise MachineryError(f"fault targets unreachable in JitCache.tla: {unreachable}")
        chk.add(transitions=gen, crash_points=len(CRASH_POINTS), fault_kinds=5, later_request_tails=len(tails))
        if not quick:
            tj3, unr3, gen3 = target_schedules([("markerclash", "NeverMarkerClash")])
            chk.note(f"WriteMarker never finds an existing marker (design): unreachable={unr3}")
        jobs2, _ = simulate_schedules(64 if quick else 1500, 45, seed + 7, max_kills=1, max_fails=1)
        sel2, seen2 = select_covering(jobs2, 6 if quick else 150)
        rj = random_jobs(8 if quick else 300, seed + 8, max_req=7, max_kills=1, max_fails=2, p_fail=0.5)
        results += _run_and_judge(chk, tj + sel2 + rj, 3, 1, 2, own)
    # non-vacuity of the binding, measured: which actions the real executions performed
    acts = {}
    for _, tr in results:
        for ln in tr:
            acts[ln["act"]] = acts.get(ln["act"], 0) + 1
    chk.add(real_actions=acts, distinct_nontrivial=len({tuple(_abbrev(tr)) for _, tr in results}),
            evaluations=len(results),
            rule="one case = one execution of 3 real processes calling jit.compile_forms on a shared cache "
                 "directory under a TLC-generated or seeded-random schedule; distinct = distinct operation sequences",
            samples=[_abbrev(tr) for _, tr in results[:3]])
    chk.assumptions += [
        "file-system atomicity of open(..,'x'), rename, os.replace (local POSIX fs)",
        "time.sleep is virtual: 'within the timeout' is 'within MaxPolls polls'",
        "fault injection at the code-generation boundary (wrapped compile_ufl_objects) and in the CC wrapper",
        "one process runs at a time (serialised schedule); each intercepted call is atomic"]


def _run_and_judge(chk, jobs, procs, keys, max_polls, own):
    res = run_jobs(jobs, nworkers=6)
    P = [f"p{i + 1}" for i in range(procs)]
    K = [f"k{i + 1}" for i in range(keys)]
    traces = [normalise(r["trace"], P, K) for r in res]
    judge(chk, res, traces, procs, keys, max_polls, own)
    return list(zip(res, traces))


def replay(chk, path, own):
    """Re-execute the job of a recorded violation on real processes and judge it again."""
    doc = json.loads(Path(path).read_text())
    job = doc["payload"]["job"]
    tr0 = doc["payload"]["trace_prefix"]
    procs = sorted(tr0[0]["procs"])
    keys = sorted(tr0[0]["fs"])
    # the schedule actually performed, as a random-free schedule job
    steps = []
    for ln in tr0:
        if ln["act"] == "Request":
            steps.append({"act": "Request", "p": ln["proc"], "k": ln["key"], "f": ln["fault"]})
        elif ln["act"] == "Kill":
            steps.append({"act": "Kill", "p": ln["proc"]})
        else:
            steps.append({"act": ln["act"], "p": ln["proc"], "free": True})
    j = {"mode": "schedule", "procs": procs, "keys": keys, "max_polls": 2, "steps": steps}
    res = run_jobs([j], nworkers=1)
    traces = [normalise(r["trace"], procs, keys) for r in res]
    judge(chk, res, traces, len(procs), len(keys), 2, own)
    chk.add(evaluations=1, distinct_nontrivial=1, samples=[_abbrev(traces[0])], rule="replay of one recorded execution")
