"""Maximal-munch tokeniser for the Python text emitted by the numba formatter (Python reference, ch. 2).

tokenize(text) -> list of (type, text):
    "kw" keyword   "id" name   "int" / "flt" / "imag" number   "op" operator or delimiter
    "nl" NEWLINE   "indent" INDENT   "dedent" DEDENT   "bad" anything that is no Python token (e.g. `!`)
Blank and comment-only lines produce nothing; inside (), [], {} line ends and indentation are ignored
(implicit line joining); indentation is tracked with the usual stack, tabs advance to multiples of 8.
Operators are matched longest-first.
"""

from __future__ import annotations

import keyword
import re

OPS = sorted([
    "+", "-", "*", "**", "/", "//", "%", "@", "<<", ">>", "&", "|", "^", "~", ":=", "<", ">", "<=", ">=", "==", "!=",
    "(", ")", "[", "]", "{", "}", ",", ":", ".", ";", "=", "->", "+=", "-=", "*=", "/=", "//=", "%=", "@=", "&=",
    "|=", "^=", ">>=", "<<=", "**=", "...",
], key=len, reverse=True)

_ID = re.compile(r"[A-Za-z_][A-Za-z0-9_]*")
_NUM = re.compile(
    r"(?:(?:[0-9](?:_?[0-9])*)?\.[0-9](?:_?[0-9])*|[0-9](?:_?[0-9])*\.?)(?:[eE][+-]?[0-9](?:_?[0-9])*)?[jJ]?"
    r"|0[xX][0-9a-fA-F_]+|0[oO][0-7_]+|0[bB][01_]+")


def _classify(w: str) -> str:
    if w[-1] in "jJ":
        return "imag"
    if w[:2].lower() in ("0x", "0o", "0b"):
        return "int"
    if "." in w or "e" in w.lower():
        return "flt"
    if len(w) > 1 and w[0] == "0" and set(w) - set("0_"):
        return "bad"                      # leading zeros are not allowed in decimal integers
    return "int"


def tokenize(text: str) -> list[tuple[str, str]]:
    toks: list[tuple[str, str]] = []
    indents = [0]
    depth = 0
    lines = text.split("\n")
    for line in lines:
        i, n = 0, len(line)
        if depth == 0:
            col = 0
            while i < n and line[i] in " \t\f":
                col = (col // 8 + 1) * 8 if line[i] == "\t" else (0 if line[i] == "\f" else col + 1)
                i += 1
            if i >= n or line[i] == "#" or line[i] == "\r":
                continue                  # blank / comment-only line
            if col > indents[-1]:
                indents.append(col)
                toks.append(("indent", ""))
            else:
                while col < indents[-1]:
                    indents.pop()
                    toks.append(("dedent", ""))
                if col != indents[-1]:
                    toks.append(("bad", "inconsistent dedent"))
        while i < n:
            c = line[i]
            if c in " \t\f\r":
                i += 1
                continue
            if c == "#":
                break
            m = _ID.match(line, i)
            if m:
                w = m.group(0)
                toks.append(("kw" if keyword.iskeyword(w) else "id", w))
                i = m.end()
                continue
            m = _NUM.match(line, i)
            if m and (c.isdigit() or (c == "." and i + 1 < n and line[i + 1].isdigit())):
                w = m.group(0)
                e = m.end()
                if e < n and (line[e].isalnum() or line[e] == "_"):
                    m2 = _ID.match(line, e)
                    w += m2.group(0) if m2 else line[e]
                    toks.append(("bad", w))
                    i = e + (len(m2.group(0)) if m2 else 1)
                    continue
                toks.append((_classify(w), w))
                i = e
                continue
            for p in OPS:
                if line.startswith(p, i):
                    toks.append(("op", p))
                    if p in "([{":
                        depth += 1
                    elif p in ")]}":
                        depth = max(0, depth - 1)
                    i += len(p)
                    break
            else:
                toks.append(("bad", c))
                i += 1
        if depth == 0 and toks and toks[-1][0] not in ("nl", "indent", "dedent"):
            toks.append(("nl", ""))
    if toks and toks[-1][0] not in ("nl", "dedent"):
        toks.append(("nl", ""))
    while len(indents) > 1:
        indents.pop()
        toks.append(("dedent", ""))
    return toks
