"""Corpus of UFL forms / expressions whose generated kernels engine S4 executes on Kernel.tla.

Every entry is a function returning  (objects, options)  where objects is a list of ufl.Form or of
(ufl expression, points) pairs and options a dict of ffcx options (sum_factorization, part, scalar_type).
Entries are looked up by name (`build(name)`), so worker processes rebuild them from fresh UFL objects.

    ENTRIES   name -> (tier, kind)        tier "quick" | "thorough" ; kind "form" | "expr"
    names(tier)                           entries of the quick tier, or quick + thorough
    build(name) -> (objects, options)
    demo_files()                          /repo/demo/*.py (thorough tier, through ufl.algorithms.load_ufl_file)

Only UFL/basix are used here (ffcx is not imported).
"""

from __future__ import annotations

from pathlib import Path

import numpy as np

from .common import REPO

GDIM = {"interval": 1, "triangle": 2, "quadrilateral": 2, "tetrahedron": 3, "hexahedron": 3, "prism": 3, "pyramid": 3}

ENTRIES: dict[str, tuple[str, str]] = {}
_BUILDERS = {}


def entry(tier: str, kind: str = "form"):
    def deco(fn):
        ENTRIES[fn.__name__] = (tier, kind)
        _BUILDERS[fn.__name__] = fn
        return fn
    return deco


def names(tier: str) -> list[str]:
    return [n for n, (t, _) in ENTRIES.items() if t == "quick" or tier == "thorough"]


def build(name: str):
    objs, opts = _BUILDERS[name]()
    return list(objs), dict(opts)


def demo_files() -> list[Path]:
    return sorted(p for p in (REPO / "demo").glob("*.py") if not p.name.startswith("test_"))


def load_demo(path: Path):
    """-> (forms, expressions) of one demo file, fresh UFL objects."""
    import ufl.algorithms  # noqa: PLC0415

    d = ufl.algorithms.load_ufl_file(str(path))
    return list(d.forms), list(d.expressions)


# ---------------------------------------------------------------------------------------------
def _U():
    import basix  # noqa: PLC0415
    import basix.ufl as bu  # noqa: PLC0415
    import ufl  # noqa: PLC0415

    return ufl, basix, bu


def mesh(cell, deg=1, gdim=None):
    ufl, _, bu = _U()
    return ufl.Mesh(bu.element("Lagrange", cell, deg, shape=(gdim or GDIM[cell],)))


def space(m, fam, deg, shape=None, **kw):
    ufl, _, bu = _U()
    cell = m.ufl_cell().cellname
    return ufl.FunctionSpace(m, bu.element(fam, cell, deg, shape=shape, **kw) if shape else bu.element(fam, cell, deg, **kw))


def tp_mesh(cell):
    """Tensor-product coordinate element (needed by sum factorisation)."""
    ufl, basix, bu = _U()
    ct = getattr(basix.CellType, cell)
    e = bu.wrap_element(basix.create_tp_element(basix.ElementFamily.P, ct, 1, basix.LagrangeVariant.gll_warped))
    return ufl.Mesh(bu.blocked_element(e, shape=(GDIM[cell],)))


def tp_space(m, deg):
    ufl, basix, bu = _U()
    ct = getattr(basix.CellType, m.ufl_cell().cellname)
    return ufl.FunctionSpace(m, bu.wrap_element(
        basix.create_tp_element(basix.ElementFamily.P, ct, deg, basix.LagrangeVariant.gll_warped)))


def tt(V):
    ufl, _, _ = _U()
    return ufl.TrialFunction(V), ufl.TestFunction(V)


# ------------------------------------------------------------------------------ cell integrals
@entry("quick")
def mass_p1_interval():
    ufl, _, _ = _U()
    m = mesh("interval")
    u, v = tt(space(m, "Lagrange", 1))
    return [u * v * ufl.dx], {}


@entry("quick")
def poisson_p2_triangle():
    ufl, _, _ = _U()
    m = mesh("triangle")
    V = space(m, "Lagrange", 2)
    u, v = tt(V)
    f = ufl.Coefficient(V)
    return [f * ufl.inner(ufl.grad(u), ufl.grad(v)) * ufl.dx, f * v * ufl.dx], {}


@entry("quick")
def elasticity_vp1_triangle():
    ufl, _, _ = _U()
    m = mesh("triangle")
    V = space(m, "Lagrange", 1, shape=(2,))
    u, v = tt(V)
    eps = lambda w: ufl.sym(ufl.grad(w))  # noqa: E731
    mu = ufl.Constant(m)
    return [2 * mu * ufl.inner(eps(u), eps(v)) * ufl.dx + ufl.div(u) * ufl.div(v) * ufl.dx], {}


@entry("quick")
def stokes_th_triangle():
    ufl, _, bu = _U()
    m = mesh("triangle")
    W = ufl.FunctionSpace(m, bu.mixed_element([bu.element("Lagrange", "triangle", 2, shape=(2,)),
                                               bu.element("Lagrange", "triangle", 1)]))
    (u, p), (v, q) = ufl.TrialFunctions(W), ufl.TestFunctions(W)
    a = (ufl.inner(ufl.grad(u), ufl.grad(v)) - p * ufl.div(v) + q * ufl.div(u)) * ufl.dx
    return [a], {}


@entry("quick")
def hcurl_n1_triangle():
    ufl, _, _ = _U()
    m = mesh("triangle")
    u, v = tt(space(m, "N1curl", 1))
    return [(ufl.inner(u, v) + ufl.inner(ufl.curl(u), ufl.curl(v))) * ufl.dx], {}


@entry("quick")
def hdiv_rt_triangle():
    ufl, _, _ = _U()
    m = mesh("triangle")
    V = space(m, "RT", 1)
    u, v = tt(V)
    g = ufl.Coefficient(space(m, "Lagrange", 1))
    return [(g * ufl.inner(u, v) + ufl.div(u) * ufl.div(v)) * ufl.dx], {}


@entry("quick")
def poisson_p1_tetrahedron():
    ufl, _, _ = _U()
    m = mesh("tetrahedron")
    V = space(m, "Lagrange", 1)
    u, v = tt(V)
    f = ufl.Coefficient(V)
    return [ufl.inner(ufl.grad(u), ufl.grad(v)) * ufl.dx, f * v * ufl.dx], {}


@entry("thorough")
def hcurl_n1_tetrahedron():
    ufl, _, _ = _U()
    m = mesh("tetrahedron")
    u, v = tt(space(m, "N1curl", 1))
    return [(ufl.inner(u, v) + ufl.inner(ufl.curl(u), ufl.curl(v))) * ufl.dx], {}


@entry("quick")
def q1_quadrilateral():
    ufl, _, _ = _U()
    m = mesh("quadrilateral")
    V = space(m, "Q", 1)
    u, v = tt(V)
    return [(u * v + ufl.inner(ufl.grad(u), ufl.grad(v))) * ufl.dx], {}


@entry("quick")
def q2_quadrilateral_sumfact():
    ufl, _, _ = _U()
    m = tp_mesh("quadrilateral")
    V = tp_space(m, 2)
    u, v = tt(V)
    f = ufl.Coefficient(V)
    return [f * u * v * ufl.dx, f * v * ufl.dx], {"sum_factorization": True}


@entry("quick")
def q1_hexahedron():
    ufl, _, _ = _U()
    m = mesh("hexahedron")
    u, v = tt(space(m, "Q", 1))
    return [u * v * ufl.dx(degree=1)], {}


@entry("quick")
def q1_hexahedron_sumfact():
    ufl, _, _ = _U()
    m = tp_mesh("hexahedron")
    V = tp_space(m, 1)
    v = ufl.TestFunction(V)
    f = ufl.Coefficient(V)
    return [f * v * ufl.dx], {"sum_factorization": True}


@entry("thorough")
def q2_hexahedron_sumfact():
    ufl, _, _ = _U()
    m = tp_mesh("hexahedron")
    V = tp_space(m, 2)
    u, v = tt(V)
    return [ufl.inner(ufl.grad(u), ufl.grad(v)) * ufl.dx], {"sum_factorization": True}


@entry("thorough")
def q2_hexahedron():
    ufl, _, _ = _U()
    m = mesh("hexahedron")
    V = space(m, "Q", 2)
    u, v = tt(V)
    return [u * v * ufl.dx], {}


@entry("quick")
def manifold_p1_triangle_3d():
    ufl, _, _ = _U()
    m = mesh("triangle", gdim=3)
    V = space(m, "Lagrange", 1)
    u, v = tt(V)
    return [(u * v + ufl.inner(ufl.grad(u), ufl.grad(v))) * ufl.dx], {}


@entry("quick")
def p2_geometry_triangle():
    ufl, _, _ = _U()
    m = mesh("triangle", deg=2)
    V = space(m, "Lagrange", 1)
    u, v = tt(V)
    x = ufl.SpatialCoordinate(m)
    return [x[0] * u * v * ufl.dx], {}


# ------------------------------------------------------------- facet / vertex / several types
@entry("quick")
def facets_p1_interval():
    ufl, _, _ = _U()
    m = mesh("interval")
    V = space(m, "Discontinuous Lagrange", 1)
    u, v = tt(V)
    f = ufl.Coefficient(V)
    return [f * u * v * ufl.ds + ufl.avg(f) * ufl.jump(u) * ufl.jump(v) * ufl.dS], {}


@entry("quick")
def facets_dg1_triangle():
    ufl, _, _ = _U()
    m = mesh("triangle")
    V = space(m, "Discontinuous Lagrange", 1)
    u, v = tt(V)
    n = ufl.FacetNormal(m)
    a = (ufl.inner(u, v) * ufl.ds + ufl.inner(u("+"), v("-")) * ufl.dS
         + ufl.inner(ufl.jump(u, n), ufl.avg(ufl.grad(v))) * ufl.dS
         + ufl.inner(ufl.avg(ufl.grad(u)), ufl.jump(v, n)) * ufl.dS)
    return [a], {}


@entry("quick")
def facets_p2_triangle_coeff():
    ufl, _, _ = _U()
    m = mesh("triangle")
    V = space(m, "Lagrange", 2)
    u, v = tt(V)
    f = ufl.Coefficient(V)
    g = ufl.Coefficient(space(m, "Lagrange", 1))
    return [f * u * v * ufl.ds + ufl.avg(f) * g("-") * ufl.jump(u) * ufl.jump(v) * ufl.dS], {}


@entry("quick")
def facets_p1_tetrahedron():
    ufl, _, _ = _U()
    m = mesh("tetrahedron")
    V = space(m, "Lagrange", 1)
    u, v = tt(V)
    f = ufl.Coefficient(V)
    n = ufl.FacetNormal(m)
    return [f * u * v * ufl.ds + f("+") * ufl.inner(ufl.jump(ufl.grad(u), n), ufl.jump(ufl.grad(v), n)) * ufl.dS], {}


@entry("quick")
def facets_q1_quadrilateral():
    ufl, _, _ = _U()
    m = mesh("quadrilateral")
    V = space(m, "Q", 1)
    u, v = tt(V)
    f = ufl.Coefficient(V)
    return [f * u * v * ufl.ds + ufl.avg(f) * ufl.jump(u) * ufl.jump(v) * ufl.dS], {}


@entry("quick")
def facets_q1_hexahedron():
    ufl, _, _ = _U()
    m = mesh("hexahedron")
    V = space(m, "Q", 1)
    v = ufl.TestFunction(V)
    f = ufl.Coefficient(V)
    return [f * v * ufl.ds(degree=1) + ufl.avg(f) * ufl.jump(v) * ufl.dS(degree=2)], {}


@entry("thorough")
def facets_n1_tetrahedron():
    ufl, _, _ = _U()
    m = mesh("tetrahedron")
    V = space(m, "N1curl", 1)
    u, v = tt(V)
    n = ufl.FacetNormal(m)
    return [ufl.inner(ufl.cross(n, u), ufl.cross(n, v)) * ufl.ds
            + ufl.inner(ufl.cross(n("+"), ufl.jump(u)), ufl.cross(n("+"), ufl.jump(v))) * ufl.dS], {}


@entry("quick")
def prism_facets():
    ufl, _, _ = _U()
    m = mesh("prism")
    V = space(m, "Lagrange", 1)
    v = ufl.TestFunction(V)
    f = ufl.Coefficient(V)
    return [f * v * ufl.dx(degree=1) + f * v * ufl.ds(degree=1)], {}


@entry("quick")
def vertex_p1():
    ufl, _, _ = _U()
    out = []
    for cell in ("interval", "triangle"):
        m = mesh(cell)
        V = space(m, "Lagrange", 1)
        u, v = tt(V)
        f = ufl.Coefficient(V)
        out.append(f * u * v * ufl.dP)
    return out, {}


@entry("quick")
def all_types_triangle():
    """cell + exterior + interior + vertex integrals with subdomain ids in one form."""
    ufl, _, _ = _U()
    m = mesh("triangle")
    V = space(m, "Lagrange", 1)
    u, v = tt(V)
    f = ufl.Coefficient(V)
    k = ufl.Constant(m)
    a = (k * u * v * ufl.dx(1) + f * u * v * ufl.dx(2) + u * v * ufl.ds(3) + f * u * v * ufl.ds
         + ufl.avg(u) * ufl.avg(v) * ufl.dS + f * u * v * ufl.dP)
    return [a], {}


# ------------------------------------------- bilinear interior-facet forms (both restrictions of one table)
def _dS_bilinear(cell, fam, degrees):
    """jump-jump, avg-avg and u('+')v('-') + u('-')v('-'): the SAME facet-dependent trial/test table is read
    through entity_local_index[0]/quadrature_permutation[0] and through [1] with the same scalar factor."""
    ufl, _, _ = _U()
    forms = []
    for deg in degrees:
        m = mesh(cell)
        V = space(m, fam, deg)
        u, v = tt(V)
        forms += [ufl.jump(u) * ufl.jump(v) * ufl.dS, ufl.avg(u) * ufl.avg(v) * ufl.dS,
                  (u("+") * v("-") + u("-") * v("-")) * ufl.dS]
    return forms


@entry("quick")
def dS_bilinear_triangle():
    return _dS_bilinear("triangle", "Lagrange", (1, 2)), {}


@entry("quick")
def dS_bilinear_tetrahedron():
    return _dS_bilinear("tetrahedron", "Lagrange", (1,)), {}


@entry("quick")
def dS_bilinear_quadrilateral():
    return _dS_bilinear("quadrilateral", "Q", (1,)), {}


@entry("thorough")
def dS_bilinear_p2_tet_q2_quad():
    return _dS_bilinear("tetrahedron", "Lagrange", (2,)) + _dS_bilinear("quadrilateral", "Q", (2,)), {}


@entry("quick")
def q1_quadrilateral_sumfact_bilinear():
    ufl, _, _ = _U()
    m = tp_mesh("quadrilateral")
    u, v = tt(tp_space(m, 1))
    return [ufl.inner(ufl.grad(u), ufl.grad(v)) * ufl.dx], {"sum_factorization": True}


# -------------------------------------------------------- coefficients, constants, quadrature
@entry("quick")
def coefficient_dropout():
    """g drops out by differentiation; h is used in only one of two integrals; z is multiplied away."""
    ufl, _, _ = _U()
    m = mesh("triangle")
    V1, V2 = space(m, "Lagrange", 1), space(m, "Lagrange", 2)
    f, g, h = ufl.Coefficient(V2), ufl.Coefficient(V1), ufl.Coefficient(V1)
    z = ufl.Coefficient(space(m, "Lagrange", 1, shape=(2,)))
    v = ufl.TestFunction(V1)
    F = (f * f * g + h * g) * ufl.dx(1) + (f * g) * ufl.dx(2) + ufl.inner(z, z) * ufl.dx(2)
    J = ufl.derivative(F, g, v)           # linear in g -> g and z disappear; h only in dx(1)
    M = f * g * ufl.dx(1) + h * ufl.dx(2) + g * ufl.dS
    return [J, M], {}


@entry("quick")
def tensor_constants():
    ufl, _, _ = _U()
    m = mesh("triangle")
    V = space(m, "Lagrange", 1)
    u, v = tt(V)
    k = ufl.Constant(m)
    b = ufl.Constant(m, shape=(2,))
    K = ufl.Constant(m, shape=(2, 2))
    t3 = ufl.Constant(m, shape=(3,))
    a = (ufl.inner(K * ufl.grad(u), ufl.grad(v)) + ufl.inner(b, ufl.grad(u)) * v + k * u * v) * ufl.dx \
        + t3[2] * u * v * ufl.dx(7) + K[1, 0] * u * v * ufl.ds
    return [a], {}


@entry("quick")
def multi_degree():
    """several quadrature degrees / schemes in ONE integral (same subdomain) -> several rules in one kernel."""
    ufl, _, _ = _U()
    m = mesh("triangle")
    V = space(m, "Lagrange", 1)
    u, v = tt(V)
    f, g = ufl.Coefficient(V), ufl.Coefficient(V)
    a = f * u * v * ufl.dx(degree=1) + g * u * v * ufl.dx(degree=3) + u * v * ufl.dx(degree=1, scheme="vertex")
    L = f * v * ufl.ds(degree=1) + g * v * ufl.ds(degree=4)
    return [a, L], {}


@entry("quick")
def geometry_tables_in_one_rule_only():
    """two quadrature rules in one kernel, a table-backed geometric quantity (reference normal, reference cell volume,
    facet area) only in the integrand of ONE of them - in both positions of UFL's integrand order"""
    ufl, _, _ = _U()
    m = mesh("triangle")
    V = space(m, "Lagrange", 1)
    v = ufl.TestFunction(V)
    x, n = ufl.SpatialCoordinate(m), ufl.FacetNormal(m)
    L1 = n[0] * v * ufl.ds(degree=1) + x[0] ** 2 * v * ufl.ds(degree=3)
    L2 = v * ufl.ds(degree=1) + ufl.FacetArea(m) * x[0] ** 2 * n[1] * v * ufl.ds(degree=3)
    L3 = ufl.CellVolume(m) * v * ufl.dx(degree=1) + x[0] ** 2 * v * ufl.dx(degree=3)
    L4 = v * ufl.dx(degree=1) + ufl.CellVolume(m) * x[1] ** 2 * v * ufl.dx(degree=3)
    return [L1, L2, L3, L4], {}


@entry("quick")
def same_size_rules():
    """different rules with the SAME number of points, same integrand structure, in one integral: anything cached
    per rule size (temporaries, tables, weights) collides here and nowhere else."""
    ufl, _, _ = _U()
    m = mesh("triangle")
    V = space(m, "Lagrange", 1)
    u, v = tt(V)
    f = ufl.Coefficient(V)
    md = {"quadrature_rule": "custom",
          "quadrature_points": np.array([[0.25, 0.5], [0.5, 0.125], [0.125, 0.125]]),
          "quadrature_weights": np.array([0.25, 0.125, 0.125])}
    L = f * v * ufl.dx(degree=2) + f * v * ufl.dx(scheme="vertex") + f * v * ufl.dx(metadata=md)
    a = f * u * v * ufl.dx(degree=2) + f * u * v * ufl.dx(scheme="vertex")
    Lf = f * v * ufl.ds(degree=3) + f * v * ufl.ds(scheme="vertex")
    return [L, a, Lf], {}


@entry("quick")
def custom_rule():
    ufl, _, _ = _U()
    m = mesh("triangle")
    V = space(m, "Lagrange", 1)
    u, v = tt(V)
    md = {"quadrature_rule": "custom",
          "quadrature_points": np.array([[0.25, 0.5], [0.5, 0.125], [0.125, 0.125]]),
          "quadrature_weights": np.array([0.25, 0.125, 0.125])}
    return [u * v * ufl.dx(metadata=md)], {}


@entry("quick")
def diagonal_part():
    ufl, _, _ = _U()
    m = mesh("triangle")
    V = space(m, "Lagrange", 2)
    u, v = tt(V)
    f = ufl.Coefficient(V)
    return [f * ufl.inner(ufl.grad(u), ufl.grad(v)) * ufl.dx + u * v * ufl.ds], {"part": "diagonal"}


@entry("quick")
def nonlinear_math():
    ufl, _, _ = _U()
    m = mesh("triangle")
    V = space(m, "Lagrange", 1)
    v = ufl.TestFunction(V)
    f, g = ufl.Coefficient(V), ufl.Coefficient(V)
    c = ufl.conditional(ufl.And(ufl.lt(f, g), ufl.Not(ufl.ge(f, 2.0))), ufl.sqrt(1 + f * f), ufl.exp(-g))
    F = (c + ufl.max_value(f, g) * ufl.sin(f) / (2 + ufl.cos(g)) + abs(f) ** 2.5 + ufl.bessel_J(1, f)) * v * ufl.dx(degree=2)
    return [F], {}


@entry("quick")
def hyperelastic_small():
    ufl, _, _ = _U()
    m = mesh("triangle")
    V = space(m, "Lagrange", 1, shape=(2,))
    u = ufl.Coefficient(V)
    v = ufl.TestFunction(V)
    Fd = ufl.Identity(2) + ufl.grad(u)
    C = Fd.T * Fd
    J = ufl.det(Fd)
    mu, lm = ufl.Constant(m), ufl.Constant(m)
    psi = (mu / 2) * (ufl.tr(C) - 2) - mu * ufl.ln(J) + (lm / 2) * ufl.ln(J) ** 2
    return [ufl.derivative(psi * ufl.dx(degree=2), u, v)], {}


@entry("thorough")
def hyperelastic_tet_jacobian():
    ufl, _, _ = _U()
    m = mesh("tetrahedron")
    V = space(m, "Lagrange", 1, shape=(3,))
    u = ufl.Coefficient(V)
    v, du = ufl.TestFunction(V), ufl.TrialFunction(V)
    Fd = ufl.Identity(3) + ufl.grad(u)
    C = Fd.T * Fd
    J = ufl.det(Fd)
    psi = 0.5 * (ufl.tr(C) - 3) - ufl.ln(J) + 2.0 * ufl.ln(J) ** 2
    F = ufl.derivative(psi * ufl.dx(degree=2), u, v)
    return [ufl.derivative(F, u, du)], {}


@entry("quick")
def quadrature_element():
    ufl, _, bu = _U()
    m = mesh("triangle")
    V = space(m, "Lagrange", 1)
    v = ufl.TestFunction(V)
    Q = ufl.FunctionSpace(m, bu.quadrature_element("triangle", degree=2))
    q = ufl.Coefficient(Q)
    return [q * v * ufl.dx], {}


@entry("thorough")
def complex_sesquilinear():
    ufl, _, _ = _U()
    m = mesh("triangle")
    V = space(m, "Lagrange", 1)
    u, v = tt(V)
    f = ufl.Coefficient(V)
    return [f * ufl.inner(ufl.grad(u), ufl.grad(v)) * ufl.dx + (1 + 2j) * ufl.inner(u, v) * ufl.ds], {"scalar_type": "complex128"}


@entry("thorough")
def p3_triangle_dS():
    ufl, _, _ = _U()
    m = mesh("triangle")
    V = space(m, "Lagrange", 3)
    u, v = tt(V)
    return [ufl.jump(ufl.grad(u)[0]) * ufl.jump(ufl.grad(v)[0]) * ufl.dS], {}


@entry("thorough")
def facets_q2_hexahedron():
    ufl, _, _ = _U()
    m = mesh("hexahedron")
    V = space(m, "Q", 2)
    v = ufl.TestFunction(V)
    f = ufl.Coefficient(V)
    return [ufl.avg(f) * ufl.jump(v) * ufl.dS], {}


# ---------------------------------------------------------------------------- expressions
@entry("quick", "expr")
def expr_grad_coefficient():
    ufl, _, _ = _U()
    m = mesh("triangle")
    f = ufl.Coefficient(space(m, "Lagrange", 2))
    k = ufl.Constant(m)
    pts = np.array([[0.0, 0.0], [1.0, 0.0], [0.0, 1.0], [0.25, 0.5]])
    return [(k * ufl.grad(f), pts)], {}


@entry("quick", "expr")
def expr_with_argument():
    ufl, _, _ = _U()
    m = mesh("triangle")
    V = space(m, "Lagrange", 1, shape=(2,))
    u = ufl.TrialFunction(V)
    f = ufl.Coefficient(space(m, "Lagrange", 1))
    pts = np.array([[0.25, 0.25], [0.5, 0.125]])
    return [(f * ufl.sym(ufl.grad(u)), pts)], {}


@entry("quick", "expr")
def expr_facet_points():
    ufl, _, _ = _U()
    m = mesh("triangle")
    V = space(m, "Lagrange", 2)
    f = ufl.Coefficient(V)
    u = ufl.TrialFunction(V)
    n = ufl.FacetNormal(m)
    pts = np.array([[0.25], [0.75]])
    return [(ufl.inner(ufl.grad(f), n), pts), (ufl.inner(ufl.grad(u), n), pts)], {}


@entry("quick", "expr")
def expr_facet_points_uniform_tables():
    """expressions with an Argument at FACET points whose tables are the same on every facet (derivatives of P1 on
    simplices): the table keeps one entity slot, so the entity index must not be used to address it."""
    ufl, _, _ = _U()
    out = []
    for cell, pts in (("triangle", np.array([[0.25], [0.75]])), ("tetrahedron", np.array([[0.25, 0.25], [0.5, 0.125]]))):
        m = mesh(cell)
        V = space(m, "Lagrange", 1)
        u, f = ufl.TrialFunction(V), ufl.Coefficient(V)
        n = ufl.FacetNormal(m)
        out += [(ufl.grad(u), pts), (f * ufl.inner(ufl.grad(u), n), pts)]
    return out, {}


@entry("quick", "expr")
def expr_complex_comparison_of_computed_real_value():
    """complex scalar type, a comparison whose operand is a *computed* real value: the intermediate holding it must
    not be of the complex type (C has no < for complex numbers); integer-valued conditional in a quotient"""
    ufl, _, _ = _U()
    m = mesh("triangle")
    f = ufl.Coefficient(space(m, "Lagrange", 1))
    x = ufl.SpatialCoordinate(m)
    c = ufl.conditional(ufl.lt(x[0] * x[0] + x[1], 0.5), 1, 2)
    pts = np.array([[0.25, 0.25], [0.5, 0.125]])
    return [(c * f, pts), (ufl.conditional(ufl.gt(ufl.real(f) * x[0], 0.25), f, ufl.conj(f)) / c, pts)], {"scalar_type": "complex128"}


@entry("quick")
def facets_vp1_triangle_minus():
    """interior-facet integral on a BLOCKED (vector-valued) space with '-' restrictions of arguments and of a
    coefficient: the '-' halves of A and w start at the (blocked) element dimension"""
    ufl, _, _ = _U()
    m = mesh("triangle")
    V = space(m, "Lagrange", 1, shape=(2,))
    u, v = tt(V)
    f = ufl.Coefficient(V)
    a = ufl.inner(ufl.jump(u), ufl.jump(v)) * ufl.dS + ufl.inner(u("-"), v("+")) * ufl.dS
    L = ufl.inner(f("-"), v("+")) * ufl.dS + ufl.inner(f("+"), v("-")) * ufl.dS
    return [a, L], {}


@entry("quick", "expr")
def expr_zero_components():
    """expressions with identically zero components (a literal zero in a vector, the Hessian of a P1 function): every
    component is accumulated into A, also the ones that add nothing"""
    ufl, _, _ = _U()
    m = mesh("triangle")
    V = space(m, "Lagrange", 1)
    f, u = ufl.Coefficient(V), ufl.TrialFunction(V)
    pts = np.array([[0.25, 0.25], [0.5, 0.125]])
    return [(ufl.as_vector((f.dx(0), f.dx(1), 0)), pts), (ufl.grad(ufl.grad(u)), pts), (ufl.as_vector((0 * f, f)), pts)], {}


@entry("quick", "expr")
def expr_interval_two_coefficients():
    ufl, _, _ = _U()
    m = mesh("interval")
    V = space(m, "Lagrange", 2)
    f, g = ufl.Coefficient(V), ufl.Coefficient(space(m, "Lagrange", 1))
    pts = np.array([[0.0], [0.5], [1.0]])
    return [(ufl.grad(f)[0] * g, pts), (ufl.as_vector([g, f * g]), pts)], {}


# ------------------------------------------------------------------- unsupported constructs (C19)
# Each returns (objects, options, kind).  FFCx must reject them with a Python exception before any C compiler runs.
UNSUPPORTED = {}


def unsupported(fn):
    UNSUPPORTED[fn.__name__] = fn
    return fn


@unsupported
def custom_integral_type():
    ufl, _, _ = _U()
    m = mesh("triangle")
    u, v = tt(space(m, "Lagrange", 1))
    return [u * v * ufl.Measure("dc", domain=m)], {}, "form"


@unsupported
def cutcell_integral_type():
    ufl, _, _ = _U()
    m = mesh("triangle")
    u, v = tt(space(m, "Lagrange", 1))
    return [u * v * ufl.Measure("dC", domain=m)], {}, "form"


@unsupported
def vertex_integral_discontinuous():
    ufl, _, _ = _U()
    m = mesh("triangle")
    u, v = tt(space(m, "Discontinuous Lagrange", 1))
    return [u * v * ufl.dP], {}, "form"


@unsupported
def empty_form():
    ufl, _, _ = _U()
    return [ufl.Form([])], {}, "form"


@unsupported
def interior_facet_on_prism():
    ufl, _, _ = _U()
    m = mesh("prism")
    V = space(m, "Lagrange", 1)
    v = ufl.TestFunction(V)
    f = ufl.Coefficient(V)
    return [ufl.avg(f) * ufl.avg(v) * ufl.dS], {}, "form"


@unsupported
def expression_two_arguments():
    ufl, _, _ = _U()
    m = mesh("triangle")
    u, v = tt(space(m, "Lagrange", 1))
    return [(u * v, np.array([[0.25, 0.25]]))], {}, "expr"


@unsupported
def codimension_three():
    ufl, _, bu = _U()
    m = mesh("tetrahedron")
    pm = ufl.Mesh(bu.element("Lagrange", "point", 0, shape=(3,)))
    V = space(m, "Lagrange", 1)
    Q = ufl.FunctionSpace(pm, bu.element("Lagrange", "point", 0))
    u, q = ufl.TrialFunction(V), ufl.TestFunction(Q)
    return [u * q * ufl.Measure("dx", domain=m)], {}, "form"


@unsupported
def same_type_and_id_on_two_integration_domains():
    """two meshes, an integral of the same type and subdomain id over each: the ufcx_form cannot tell them apart"""
    ufl, _, _ = _U()
    m1, m2 = mesh("triangle"), mesh("triangle")
    f, g = ufl.Coefficient(space(m1, "Lagrange", 1)), ufl.Coefficient(space(m2, "Lagrange", 1))
    return [f * ufl.dx(domain=m1) + g * g * ufl.dx(domain=m2)], {}, "form"


@unsupported
def erf_of_complex_coefficient():
    """C has no complex error function: erf(w0) with a double _Complex w0 converts silently to the real part"""
    ufl, _, _ = _U()
    m = mesh("triangle")
    V = space(m, "Lagrange", 1)
    v, f = ufl.TestFunction(V), ufl.Coefficient(V)
    return [ufl.erf(f) * ufl.conj(v) * ufl.dx], {"scalar_type": "complex128"}, "form"


@unsupported
def bessel_of_complex_coefficient():
    """jn / yn are real functions: jn(1, w0) with a complex w0 converts silently to the real part"""
    ufl, _, _ = _U()
    m = mesh("triangle")
    V = space(m, "Lagrange", 1)
    v, f = ufl.TestFunction(V), ufl.Coefficient(V)
    return [ufl.bessel_J(1, f) * ufl.conj(v) * ufl.dx], {"scalar_type": "complex64"}, "form"


@unsupported
def restricted_coefficient_in_expression():
    """an expression has one cell: f('-') / avg(f) would address a second cell's half of w that does not exist"""
    ufl, _, _ = _U()
    m = mesh("triangle")
    f = ufl.Coefficient(space(m, "Lagrange", 1))
    return [(f("-") + ufl.avg(f), np.array([[0.25], [0.5]]))], {}, "expr"


@unsupported
def modified_bessel_functions():
    """bessel_I / bessel_K have no counterpart in C's math library"""
    ufl, _, _ = _U()
    m = mesh("triangle")
    V = space(m, "Lagrange", 1)
    v, f = ufl.TestFunction(V), ufl.Coefficient(V)
    return [(ufl.bessel_I(1, f) + ufl.bessel_K(0, 2 + f * f)) * v * ufl.dx], {}, "form"


@unsupported
def expression_argument_plus_coefficient():
    """u + f is not linear in the argument u: there is no tensor A[point][component][dof] that represents it
    (forms with such an integrand are rejected by UFL's arity check)"""
    ufl, _, _ = _U()
    m = mesh("triangle")
    V = space(m, "Lagrange", 1)
    u, f = ufl.TrialFunction(V), ufl.Coefficient(V)
    return [(u + f, np.array([[0.25, 0.25], [0.5, 0.125]]))], {}, "expr"


@unsupported
def sum_factorization_without_tensor_product_element():
    ufl, _, _ = _U()
    m = mesh("hexahedron")
    u, v = tt(space(m, "Q", 1))
    return [u * v * ufl.dx], {"sum_factorization": True}, "form"


@unsupported
def facet_expression_of_cell_facet_quantity_on_cell_points():
    ufl, _, _ = _U()
    m = mesh("triangle")
    n = ufl.FacetNormal(m)
    f = ufl.Coefficient(space(m, "Lagrange", 1))
    return [(f * n[0], np.array([[0.25, 0.25]]))], {}, "expr"
