"""Realise abstract cases of spec/FormSpace.tla as real UFL forms (fresh UFL objects every time)."""

from __future__ import annotations

import random
from fractions import Fraction as Fr

import numpy as np

from .basisx import OutOfModel
from .common import ensure_repo_on_path

TDIM = {"interval": 1, "triangle": 2, "quadrilateral": 2, "tetrahedron": 3, "hexahedron": 3, "prism": 3}

# hand-picked rational rules; deliberately including ones that are exact for nothing:
# "adds exactly the quadrature approximation" must hold for whatever rule the user supplies.
CUSTOM = {
    "interval": [([[Fr(0)], [Fr(1, 2)], [Fr(1)]], [Fr(1, 6), Fr(2, 3), Fr(1, 6)]),
                 ([[Fr(1, 4)], [Fr(5, 8)]], [Fr(3, 8), Fr(1, 2)])],
    "triangle": [([[Fr(1, 6), Fr(1, 6)], [Fr(2, 3), Fr(1, 6)], [Fr(1, 6), Fr(2, 3)]], [Fr(1, 6)] * 3),
                 ([[Fr(1, 2), Fr(0)], [Fr(1, 2), Fr(1, 2)], [Fr(0), Fr(1, 2)]], [Fr(1, 6)] * 3),
                 ([[Fr(1, 4), Fr(1, 2)], [Fr(1, 2), Fr(1, 8)]], [Fr(1, 4), Fr(1, 8)]),
                 ([[Fr(1, 3), Fr(1, 3)], [Fr(1, 5), Fr(1, 5)], [Fr(3, 5), Fr(1, 5)], [Fr(1, 5), Fr(3, 5)]],
                  [Fr(-27, 96), Fr(25, 96), Fr(25, 96), Fr(25, 96)])],
    "quadrilateral": [([[x, y] for x in (Fr(0), Fr(1, 2), Fr(1)) for y in (Fr(0), Fr(1, 2), Fr(1))],
                       [a * b for a in (Fr(1, 6), Fr(2, 3), Fr(1, 6)) for b in (Fr(1, 6), Fr(2, 3), Fr(1, 6))]),
                      ([[Fr(1, 4), Fr(1, 2)], [Fr(3, 4), Fr(1, 4)], [Fr(1, 2), Fr(3, 4)]], [Fr(1, 4), Fr(1, 2), Fr(1, 8)])],
    "tetrahedron": [([[Fr(1, 4)] * 3, [Fr(1, 6), Fr(1, 6), Fr(1, 6)], [Fr(1, 2), Fr(1, 6), Fr(1, 6)],
                      [Fr(1, 6), Fr(1, 2), Fr(1, 6)], [Fr(1, 6), Fr(1, 6), Fr(1, 2)]],
                     [Fr(-2, 15), Fr(3, 40), Fr(3, 40), Fr(3, 40), Fr(3, 40)]),
                    ([[Fr(1, 4), Fr(1, 4), Fr(1, 4)], [Fr(1, 8), Fr(1, 2), Fr(1, 4)]], [Fr(1, 8), Fr(1, 16)])],
    "hexahedron": [([[x, y, z] for x in (Fr(0), Fr(1)) for y in (Fr(0), Fr(1)) for z in (Fr(1, 2),)], [Fr(1, 4)] * 4),
                   ([[Fr(1, 4), Fr(1, 2), Fr(1, 2)], [Fr(1, 2), Fr(1, 4), Fr(3, 4)]], [Fr(1, 4), Fr(1, 2)])],
    "vertex": [([[]], [Fr(1)])],
}


def custom_md(cell, which):
    pts, wts = CUSTOM[cell][which % len(CUSTOM[cell])]
    td = len(pts[0])
    return {"quadrature_rule": "custom",
            "quadrature_points": np.array([[float(c) for c in p] for p in pts], dtype=np.float64).reshape(len(pts), td),
            "quadrature_weights": np.array([float(w) for w in wts], dtype=np.float64)}


def make_element(kind, cell, gdim):
    import basix
    import basix.ufl as bu

    eq = dict(lagrange_variant=basix.LagrangeVariant.equispaced)
    if kind == "P1":
        return bu.element("Lagrange", cell, 1)
    if kind == "P2":
        return bu.element("Lagrange", cell, 2)
    if kind == "P3":
        return bu.element("Lagrange", cell, 3, **eq)
    if kind == "DG0":
        return bu.element("DG", cell, 0)
    if kind == "DG1":
        return bu.element("DG", cell, 1)
    if kind == "vP1":
        return bu.element("Lagrange", cell, 1, shape=(gdim,))
    if kind == "vP2":
        return bu.element("Lagrange", cell, 2, shape=(gdim,))
    if kind == "symP1":
        return bu.element("Lagrange", cell, 1, shape=(gdim, gdim), symmetry=True)
    if kind == "TH":
        return bu.mixed_element([bu.element("Lagrange", cell, 2, shape=(gdim,)), bu.element("Lagrange", cell, 1)])
    if kind == "RT1":
        return bu.element("RT", cell, 1)
    if kind == "N1":
        return bu.element("N1curl", cell, 1)
    if kind == "BDM1":
        return bu.element("BDM", cell, 1)
    if kind == "RTxDG0":
        return bu.mixed_element([bu.element("RT", cell, 1), bu.element("DG", cell, 0)])
    if kind == "RTCF1":
        return bu.element("RTCF", cell, 1)
    if kind == "RTCE1":
        return bu.element("RTCE", cell, 1)
    if kind == "iso":
        return bu.element("iso", cell, 1)
    if kind == "bubble":
        return bu.enriched_element([bu.element("Lagrange", cell, 1), bu.element("Bubble", cell, TDIM[cell] + 1)])
    if kind == "real":
        return bu.real_element(cell, ())
    if kind == "quad":
        return bu.quadrature_element(cell, degree=2)
    raise ValueError(kind)


def realise(case, seed=0):
    """abstract case (dict from FormSpace.tla) -> dict(form=, exact_ok=, case=)."""
    ensure_repo_on_path()
    import basix.ufl as bu
    import ufl
    from ufl import conditional, div, dot, dx, grad, inner

    rnd = random.Random(seed)
    cell, ek, term, rule, geom, xdeg = (case[k] for k in ("cell", "elem", "term", "rule", "geom", "xdeg"))
    td = TDIM[cell]
    gd = td + 1 if geom == "manifold" else td
    dom = ufl.Mesh(bu.element("Lagrange", cell, xdeg, shape=(gd,)))
    el = make_element(ek, cell, gd)
    V = ufl.FunctionSpace(dom, el)
    u, v = ufl.TrialFunction(V), ufl.TestFunction(V)
    x = ufl.SpatialCoordinate(dom)
    which = rnd.randrange(8)
    if rule == "custom":
        md = custom_md(cell, which)
        dX = dx(metadata=md)
    elif rule == "vertex":
        dX = dx(scheme="vertex", degree=1)
    else:
        dX = dx

    def coef(kind):
        return ufl.Coefficient(ufl.FunctionSpace(dom, make_element(kind, cell, gd)))

    if term == "mass":
        form = inner(u, v) * dX
    elif term == "stiff":
        form = inner(grad(u), grad(v)) * dX
    elif term == "conv":
        b = coef("vP1")
        form = inner(dot(b, grad(u)), v) * dX
    elif term == "coefmass":
        f = coef("DG0" if ek in ("DG0", "real") else "P1")
        form = f * inner(u, v) * dX
    elif term == "xmass":
        form = x[0] * inner(u, v) * dX
    elif term == "cten":
        C = ufl.Constant(dom, shape=(gd, gd))
        form = inner(dot(grad(u), C), grad(v)) * dX
    elif term == "divdiv":
        form = inner(div(u), div(v)) * dX
    elif term == "curlcurl":
        form = inner(ufl.curl(u), ufl.curl(v)) * dX
    elif term == "mixeddiv":
        a, p = ufl.split(u)
        b, q = ufl.split(v)
        if ek == "TH":
            form = (inner(grad(a), grad(b)) - inner(p, div(b)) - inner(div(a), q)) * dX
        else:
            form = (inner(a, b) + inner(p, div(b)) + inner(div(a), q)) * dX
    elif term == "load":
        F = ufl.Coefficient(V)
        form = inner(F, v) * dX
    elif term == "gradload":
        F = ufl.Coefficient(V)
        form = inner(grad(F), grad(v)) * dX
    elif term == "energy":
        F = ufl.Coefficient(V)
        form = inner(F, F) * dX
    elif term == "xint":
        F = ufl.Coefficient(V)
        form = x[0] * x[gd - 1] * F * dX
    elif term == "deriv":
        F = ufl.Coefficient(V)
        form = ufl.derivative(inner(F**2, v) * dX, F, u)
    elif term == "cond":
        F, G = ufl.Coefficient(V), coef("P1")
        c1 = conditional(ufl.lt(F, 0.5), 2, 0.5)
        c2 = conditional(ufl.And(ufl.gt(x[0], 0.25), ufl.Not(ufl.le(G, 1.5))), inner(u, v), 3 * inner(u, v))
        # integer-valued conditionals in quotients (UFL's / is true division): a piecewise-constant coefficient
        # kappa in {1, 4} used as 1/kappa, and an integer-valued conditional halved
        kappa = conditional(ufl.gt(x[0], 0.25), 1, 4)
        c3 = inner(u, v) / kappa + (conditional(ufl.lt(G, 0.5), 1, 3) / 2) * inner(u, v)
        # the same argument-dependent product once divided by a coefficient expression and once plain
        c4 = inner(u, v) / (3 + G * G) + inner(u, v)
        # a power (with a negative exponent) of an integer-valued conditional is not an integer
        c5 = conditional(ufl.gt(G, 0.5), 1, 3) ** -1 * inner(u, v)
        form = (c1 * inner(u, v) + c2 + c3 + c4 + c5) * dX
    elif term == "absmax":
        F, G = ufl.Coefficient(V), coef("P1")
        form = (abs(F) * inner(u, v) + ufl.max_value(F, G) * inner(u, v) + ufl.min_value(F, 2) * inner(u, v)) * dX
    elif term == "tworules":
        f, g = coef("P1"), coef("P1")
        d1 = dx(metadata=custom_md(cell, which))
        d2 = dx(metadata=custom_md(cell, which + 1))
        form = f * inner(u, v) * d1 + g * inner(grad(u), grad(v)) * d2 + inner(u, v) * d1
    elif term == "hess":
        form = inner(grad(grad(u)), grad(grad(v))) * dX
    elif term in ("mathfn", "mathfn2", "cmathfn", "bessel"):
        # one transcendental factor per product, so that the dyadic function tables of the oracle stay small
        F, G = ufl.Coefficient(V), coef("P1")
        K = ufl.Constant(dom)
        fam = {"mathfn": [ufl.sin(F), ufl.exp(G / 4), ufl.cos(x[0]), ufl.ln(2 + F * F), ufl.atan(K * F), ufl.tanh(G),
                          ufl.cosh(F / 2), ufl.sinh(K / 2), ufl.tan(F / 8)],
               "mathfn2": [ufl.erf(F), ufl.atan2(F, 1 + G * G), (2 + F * F) ** 1.5, (1 + G * G) ** 2.5, (1 + F * F) ** 3.5 / 16,
                           (2 + G * G) ** -0.5, ufl.acos(F / 4),
                           ufl.asin(G / 4), ufl.sqrt(1 + F * F)],
               "bessel": [ufl.bessel_J(1, F), ufl.bessel_Y(0, 1 + G * G), ufl.bessel_J(0, G / 2)],
               "cmathfn": [ufl.exp(F / 4), ufl.sin(G), ufl.cos(K), ufl.sqrt(F), ufl.ln(4 + G), ufl.sinh(F / 2),
                           ufl.tan(G / 8), ufl.cosh(K / 2), ufl.tanh(F / 4)]}[term]
        rnd.shuffle(fam)
        pick = fam[:3]
        if term == "cmathfn":
            # a real-typed base (part of a coefficient, geometry) raised to a complex literal: the result is complex
            pick = pick[:2] + [rnd.choice([(2 + ufl.real(G) * ufl.real(G)) ** (0.5 + 1.5j), (3 + x[0] * x[0]) ** 0.5j,
                                           (1 + ufl.imag(F) * ufl.imag(F)) ** (1 - 0.5j)])]
        form = sum((k + 1) * f_ for k, f_ in enumerate(pick)) * inner(u, v) * dX
    elif term == "cerf":
        # functions that exist for real arguments only in C (erf, jn), applied to a complex-valued coefficient
        F = ufl.Coefficient(V)
        form = (ufl.erf(F / 2) + 2 * ufl.bessel_J(1, F / 2)) * inner(u, v) * dX
    elif term == "geo":
        h = ufl.CellDiameter(dom)
        q_ = h * ufl.MinCellEdgeLength(dom) + ufl.MaxCellEdgeLength(dom)
        if cell in ("interval", "triangle"):
            q_ = q_ + ufl.Circumradius(dom) * ufl.CellVolume(dom)
        form = q_ * inner(u, v) * dX
    elif term == "sesq":
        F, G = coef("P1"), coef("P1")
        K = ufl.Constant(dom)
        form = (inner(F * u, G * v) + inner(grad(u), K * grad(v)) + inner(u, K * G * v)) * dX
    elif term == "ccond":
        F, G = ufl.Coefficient(V), coef("P1")
        K = ufl.Constant(dom)
        c1 = conditional(ufl.lt(x[0], 0.125), 1.0, F)                 # real-typed true branch, complex false branch
        c2 = conditional(ufl.gt(x[gd - 1], 0.125), G, x[0])           # and the other way round
        c3 = conditional(ufl.lt(ufl.real(G), 0.5), K, 2.0)
        c4 = conditional(ufl.ge(x[0], 0.375), ufl.real(F), ufl.conj(K) * F)
        form = (c1 + c2 + c3 + c4) * inner(u, v) * dX
    elif term == "cplx":
        F, G = ufl.Coefficient(V), coef("P1")
        K = ufl.Constant(dom)
        form = (inner(ufl.conj(F) * u, v) + ufl.real(G) * inner(u, v) + ufl.imag(G) * K * inner(u, v)
                + abs(K) * inner(u, v) + inner(grad(u), ufl.conj(K) * grad(v))
                + (2 + 1j) * G * inner(u, v) + inner(u, (0.5 - 1.5j) * F * v)           # complex literals as factors, either side
                + (1 + ufl.imag(x[0]) + 2 * ufl.real(x[gd - 1])) * G * inner(u, v)) * dX   # complex parts of real-typed geometry
    else:
        raise ValueError(term)
    return {"form": form, "exact_ok": rule == "exact", "case": case, "gdim": gd, "tdim": td}


FACET_CELL = {"interval": "vertex", "triangle": "interval", "quadrilateral": "interval", "tetrahedron": "triangle",
              "hexahedron": "quadrilateral"}


RIDGE_CELL = {"triangle": "vertex", "quadrilateral": "vertex", "tetrahedron": "interval", "hexahedron": "interval",
              "prism": "interval"}


def realise_facet(item):
    """FCASE of FormSpace.tla -> form with one facet / vertex / ridge integral."""
    ensure_repo_on_path()
    import basix.ufl as bu
    import ufl
    from ufl import avg, dot, grad, inner, jump

    case = item["case"]
    rnd = random.Random(item["seed"])
    cell, ek, term, meas, rule = (case[k] for k in ("cell", "elem", "term", "measure", "rule"))
    td = TDIM[cell]
    dom = ufl.Mesh(bu.element("Lagrange", cell, 1, shape=(td,)))
    V = ufl.FunctionSpace(dom, make_element(ek, cell, td))
    u, v = ufl.TrialFunction(V), ufl.TestFunction(V)
    x, n = ufl.SpatialCoordinate(dom), ufl.FacetNormal(dom)
    M = {"ds": ufl.ds, "dS": ufl.dS, "dP": ufl.dP, "dr": ufl.Measure("ridge")}[meas]
    which = rnd.randrange(8)
    which = item.get("custom_which", which)          # a particular rule of CUSTOM[...] (e.g. the asymmetric interval rule)
    if rule == "custom":
        dM = M(metadata=custom_md(RIDGE_CELL[cell] if meas == "dr" else FACET_CELL[cell], which))
    elif rule == "vertex":
        dM = M(scheme="vertex", degree=1)
    else:
        dM = M

    def coef(kind):
        return ufl.Coefficient(ufl.FunctionSpace(dom, make_element(kind, cell, td)))

    if term == "mass":
        form = inner(u, v) * dM
    elif term == "flux":
        form = inner(dot(grad(u), n), v) * dM
    elif term == "coef":
        form = coef("P1") * inner(u, v) * dM
    elif term == "xw":
        form = x[0] * u * v * dM if meas == "dr" else x[0] * n[td - 1] * u * v * dM      # no facet normal on a ridge
    elif term == "rgrad":
        form = inner(grad(u), grad(v)) * dM
    elif term == "nload":
        form = dot(coef("vP1"), n) * v * dM
    elif term == "fload":
        form = inner(ufl.Coefficient(V), v) * dM
    elif term == "area":
        form = coef("P1") * dM
    elif term == "jump":
        form = inner(jump(u), jump(v)) * dM
    elif term == "avgflux":
        form = inner(dot(avg(grad(u)), n("+")), jump(v)) * dM
    elif term == "pm":
        form = inner(u("+"), v("-")) * dM + 2 * inner(u("-"), v("-")) * dM
    elif term == "coefpm":
        f, g = coef("P1"), coef("DG0")
        form = f("+") * g("-") * inner(u("-"), v("+")) * dM
    elif term == "jumpload":
        form = inner(jump(ufl.Coefficient(V)), avg(v)) * dM
    elif term == "njump":
        form = dot(jump(u, n), jump(v, n)) * dM
    elif term in ("geods", "geodS"):
        simplex = cell in ("interval", "triangle")
        if term == "geods":
            q_ = ufl.CellDiameter(dom) + ufl.MinCellEdgeLength(dom) * ufl.MaxCellEdgeLength(dom)
            if simplex:
                q_ = q_ + ufl.Circumradius(dom) + ufl.FacetArea(dom) * ufl.CellVolume(dom)
            form = q_ * inner(u, v) * dM
        else:
            hm = ufl.CellDiameter(dom)("-") + 2 * ufl.MaxCellEdgeLength(dom)("+") * ufl.MinCellEdgeLength(dom)("-")
            if simplex:
                hm = hm + ufl.Circumradius(dom)("-") + 3 * ufl.Circumradius(dom)("+") + ufl.CellVolume(dom)("-") * ufl.FacetArea(dom)("+")
            form = hm * inner(jump(u), jump(v)) * dM + ufl.avg(ufl.CellDiameter(dom)) * inner(u("-"), v("+")) * dM
    else:
        raise ValueError(term)
    return {"form": form, "exact_ok": rule == "exact", "case": case, "gdim": td, "tdim": td}


EXPR_POINTS = {
    "interval": [[Fr(1, 4)], [Fr(1, 2)], [Fr(1)]],
    "triangle": [[Fr(1, 4), Fr(1, 4)], [Fr(1, 2), Fr(1, 4)], [Fr(0), Fr(1)]],
    "quadrilateral": [[Fr(1, 4), Fr(1, 2)], [Fr(1), Fr(1, 4)], [Fr(1, 2), Fr(1, 2)]],
    "tetrahedron": [[Fr(1, 4), Fr(1, 4), Fr(1, 4)], [Fr(1, 2), Fr(0), Fr(1, 4)]],
    "hexahedron": [[Fr(1, 4), Fr(1, 2), Fr(1, 2)], [Fr(1), Fr(1, 4), Fr(0)]],
    "vertex": [[]],
}


def realise_expr(item):
    """ECASE of FormSpace.tla -> (UFL expression, reference points)."""
    ensure_repo_on_path()
    import basix
    import basix.ufl as bu
    import ufl
    from ufl import dot, grad, outer, sym

    case = item["case"]
    cell, ek, term, pk, geom = (case[k] for k in ("cell", "elem", "term", "pts", "geom"))
    td = TDIM[cell]
    gd = td + 1 if geom == "manifold" else td
    dom = ufl.Mesh(bu.element("Lagrange", cell, 1, shape=(gd,)))
    V = ufl.FunctionSpace(dom, make_element(ek, cell, gd))
    u = ufl.TrialFunction(V)          # an Argument; expressions accept one
    f = ufl.Coefficient(V)
    x, n = ufl.SpatialCoordinate(dom), ufl.FacetNormal(dom)

    def coef(kind):
        return ufl.Coefficient(ufl.FunctionSpace(dom, make_element(kind, cell, gd)))

    if term == "u":
        e = u
    elif term == "gradu":
        e = grad(u)
    elif term == "fgradu":
        e = dot(coef("vP1"), grad(u))
    elif term == "symgrad":
        e = sym(grad(u))
    elif term == "x":
        e = x
    elif term == "n":
        e = n
    elif term == "f":
        e = f
    elif term == "gradf":
        e = grad(f)
    elif term == "cgradf":
        e = dot(ufl.Constant(dom, shape=(gd, gd)), grad(f))
    elif term == "hessf":
        e = grad(grad(f))
    elif term == "absf":
        e = abs(f) * x[0] + ufl.max_value(f, 1)
    elif term == "condu":
        # the argument inside both branches of a conditional (and in one branch only)
        s0 = Fr(3, 8)
        e = ufl.conditional(ufl.lt(x[0], float(s0)), 2 * u, 3 * u) + ufl.conditional(ufl.gt(f, 0.5), u, 0 * u) * f
    elif term == "cconj":
        # complex-part operators in an expression (they must survive for every complex scalar type)
        g2 = coef("P1")
        e = ufl.conj(f) * g2 + ufl.real(g2) + 2 * ufl.imag(f)
    elif term == "fu":
        e = coef("P1") * u
    elif term == "outer":
        e = outer(f, f)
    elif term == "elim":
        # the first coefficient (piecewise constant) disappears under the gradient, the second one survives
        k0 = ufl.Coefficient(ufl.FunctionSpace(dom, make_element("DG0", cell, gd)))
        g2 = ufl.Coefficient(V)
        e = grad(k0 + g2) + grad(k0)
    elif term == "celim":
        # the first constant disappears under the gradient, the second survives: the kernel reads it at its position
        # among the constants of the expression as written, and the descriptor must count both
        K0, K1 = ufl.Constant(dom), ufl.Constant(dom)
        e = grad(K0 + K1 * f) + grad(K0 * K0)
    elif term == "fg":
        e = coef("P1") * f + coef("DG0")
    elif term == "un":
        e = u * n
    else:
        raise ValueError(term)
    if pk == "cell":
        pts = EXPR_POINTS[cell]
    elif pk == "facet":
        pts = {"interval": [[Fr(1, 4)], [Fr(5, 8)], [Fr(1)]],
               "triangle": [[Fr(1, 4), Fr(1, 2)], [Fr(1, 8), Fr(1, 4)]],
               "quadrilateral": [[Fr(1, 4), Fr(1, 2)], [Fr(1), Fr(1, 8)]]}[FACET_CELL[cell]]     # not symmetric under the facet's symmetries
    else:
        el2 = basix.create_element(basix.ElementFamily.P, basix.CellType[cell], 2, basix.LagrangeVariant.equispaced)
        pts = [[Fr(float(c)).limit_denominator(64) for c in p] for p in el2.points]
    P = np.array([[float(c) for c in p] for p in pts], dtype=np.float64).reshape(len(pts), len(pts[0]))
    return {"expr": e, "points": P, "case": case}


def realise_tp(item):
    """Tensor-product (sum-factorisable) elements on quadrilaterals / hexahedra: item['tp'] = dict(cell, degree, term)."""
    ensure_repo_on_path()
    import basix
    import basix.ufl as bu
    import ufl
    from ufl import ds, dx, grad, inner

    t = item["tp"]
    cell, deg, term = t["cell"], t["degree"], t["term"]
    ct = basix.CellType[cell]
    td = TDIM[cell]

    def tp(d, shape=None):
        e = bu.wrap_element(basix.create_tp_element(basix.ElementFamily.P, ct, d, basix.LagrangeVariant.gll_warped))
        return e if shape is None else bu.blocked_element(e, shape=shape)

    dom = ufl.Mesh(tp(1, (td,)))
    V = ufl.FunctionSpace(dom, tp(deg))
    u, v = ufl.TrialFunction(V), ufl.TestFunction(V)
    x = ufl.SpatialCoordinate(dom)
    if term == "mass":
        form = inner(u, v) * dx
    elif term == "stiff":
        form = inner(grad(u), grad(v)) * dx
    elif term == "coefmass":
        form = ufl.Coefficient(ufl.FunctionSpace(dom, tp(1))) * inner(u, v) * dx
    elif term == "xmass":
        form = x[0] * inner(u, v) * dx
    elif term == "load":
        form = inner(ufl.Coefficient(V), v) * dx
    elif term == "withds":
        form = inner(u, v) * dx + inner(u, v) * ds
    elif term == "vcoef":
        # a blocked tensor-product coefficient (block size > 1): its dof index is block_size * flattened index + component
        Vv = ufl.FunctionSpace(dom, tp(deg, (td,)))
        fv = ufl.Coefficient(Vv)
        form = fv[0] * inner(u, v) * dx + inner(fv[td - 1] * grad(u)[0], v) * dx
    elif term == "gllcoef":
        # arguments on the GLL-warped basis, coefficient on the equispaced basis of the same degree (irrational
        # bases: no exact oracle; used for the law T[sum_factorization=True] = T[sum_factorization=False])
        def tpv(d, variant):
            return bu.wrap_element(basix.create_tp_element(basix.ElementFamily.P, ct, d, variant))
        Vc = ufl.FunctionSpace(dom, tpv(deg, basix.LagrangeVariant.equispaced))
        form = ufl.Coefficient(Vc) * inner(u, v) * dx + inner(ufl.grad(ufl.Coefficient(Vc)), ufl.grad(v)) * u * dx
    elif term == "gllscheme":
        # a non-default quadrature scheme requested through the metadata (GLL: lumped mass): the factorised kernel
        # must use the same rule as the plain one (law T[sf=1] = T[sf=0]; GLL points are irrational from 4 points on)
        # (degree 2 deg - 1: GLL with deg + 1 points = the nodes of the basis, the lumped mass matrix; the Gauss rule of
        #  that degree has deg points and gives a different, also inexact, value)
        md = {"quadrature_rule": "GLL", "quadrature_degree": max(1, 2 * deg - 1)}
        form = ufl.Coefficient(V) * inner(u, v) * dx(metadata=md) + inner(grad(u), grad(v)) * dx(metadata=md)
    elif term == "twodegrees":
        # two quadrature degrees in one cell integral (both polynomial, both exact)
        form = inner(u, v) * dx(degree=2 * deg) + ufl.Coefficient(ufl.FunctionSpace(dom, tp(1))) * inner(u, v) * dx(degree=2 * deg + 2)
    else:
        raise ValueError(term)
    return {"form": form, "exact_ok": True, "case": t}


def realise_multirule(item):
    """Several different rules meeting in one integral (same subdomain): every integrand has a degree above
    each custom rule's exactness, so assigning a rule to the wrong integrand changes the exact value."""
    ensure_repo_on_path()
    import basix.ufl as bu
    import ufl
    from ufl import dx, grad, inner

    cell, var = item["mr"]["cell"], item["mr"]["variant"]
    td = TDIM[cell]
    dom = ufl.Mesh(bu.element("Lagrange", cell, 1, shape=(td,)))
    V = ufl.FunctionSpace(dom, make_element("P2" if var % 2 == 0 else "P1", cell, td))
    u, v = ufl.TrialFunction(V), ufl.TestFunction(V)
    f = ufl.Coefficient(ufl.FunctionSpace(dom, make_element("P2", cell, td)))
    g = ufl.Coefficient(ufl.FunctionSpace(dom, make_element("P1", cell, td)))
    x = ufl.SpatialCoordinate(dom)
    dA = dx(metadata=custom_md(cell, var))
    dB = dx(metadata=custom_md(cell, var + 1))
    dV = dx(scheme="vertex", degree=1)
    shared = f * g                                   # a sub-expression shared between rules
    form = shared * inner(u, v) * dA + shared * inner(grad(u), grad(v)) * dB + x[0] * g * inner(u, v) * dV
    if var % 3 == 0:
        form = form + inner(u, v) * dx               # default rule, polynomial: exact
    if var % 3 == 1:
        form = form + g * g * inner(u, v) * dA       # same rule twice
    if item["mr"].get("onepoint"):
        # a one-point rule next to a many-point rule: every table of the one-point rule is trivially
        # "constant over its points", yet the coefficient must still be re-evaluated in the other rule's loop
        c0 = [Fr(1, 3)] * td if cell in ("triangle", "tetrahedron") else [Fr(1, 2)] * td
        one = {"quadrature_rule": "custom", "quadrature_points": np.array([[float(c) for c in c0]]),
               "quadrature_weights": np.array([0.5])}
        form = f * inner(u, v) * dx(metadata=one) + f * g * inner(u, v) * dA
        if item["mr"]["onepoint"] in (2, 3):
            # two DIFFERENT one-point rules: the value is "constant over the points" in both, at different points
            c1 = [c / 2 for c in c0]
            two = {"quadrature_rule": "custom", "quadrature_points": np.array([[float(c) for c in c1]]),
                   "quadrature_weights": np.array([0.25])}
            form = f * inner(u, v) * dx(metadata=one) + f * g * inner(u, v) * dx(metadata=two)
            if item["mr"]["onepoint"] == 3:
                form = form + g * f * inner(grad(u), grad(v)) * dA
    if item["mr"].get("samepoints"):
        # two rules on byte-identical points with different weights (and the vertex scheme next to a custom rule
        # sitting in the vertices): rules must be told apart by their weights too
        pts, wts = CUSTOM[cell][var % len(CUSTOM[cell])]
        w2 = list(reversed(wts)) if len(set(wts)) > 1 else [2 * w for w in wts]
        other = {"quadrature_rule": "custom",
                 "quadrature_points": np.array([[float(c) for c in p_] for p_ in pts], dtype=np.float64).reshape(len(pts), td),
                 "quadrature_weights": np.array([float(w) for w in w2], dtype=np.float64)}
        form = f * g * inner(u, v) * dA + g * inner(u, v) * dx(metadata=other)
        if var % 2 == 1:
            import basix
            vx = basix.cell.geometry(basix.CellType[cell])
            atv = {"quadrature_rule": "custom", "quadrature_points": np.array(vx, dtype=np.float64),
                   "quadrature_weights": np.array([(k + 1) / 16 for k in range(len(vx))], dtype=np.float64)}
            form = form + f * inner(u, v) * dV + g * inner(grad(u), grad(v)) * dx(metadata=atv)
    if item["mr"].get("samesize"):
        # the same integrand under two different rules with the same number of points (the second is the first
        # shrunk towards the origin): anything cached per rule *size* instead of per rule is shared wrongly
        pts, wts = CUSTOM[cell][var % len(CUSTOM[cell])]
        half = {"quadrature_rule": "custom",
                "quadrature_points": np.array([[float(c / 2) for c in p_] for p_ in pts], dtype=np.float64).reshape(len(pts), td),
                "quadrature_weights": np.array([float(w) for w in wts], dtype=np.float64)}
        form = f * g * inner(u, v) * dA + f * g * inner(u, v) * dx(metadata=half)
        if var % 2 == 1:
            form = form + g * inner(grad(u), grad(v)) * dA + g * inner(grad(u), grad(v)) * dx(metadata=half)
    return {"form": form, "exact_ok": True, "case": item["mr"]}


def realise_facet_multirule(item):
    """Several rules meeting in one FACET integral (same subdomain): vertex scheme, a custom facet rule and the
    default rule in every combination of two; each part has its own integrand so a rule applied to the wrong part
    (or on the wrong sub-entity type) changes the value."""
    ensure_repo_on_path()
    import basix.ufl as bu
    import ufl
    from ufl import inner

    cell, var, meas = item["fm"]["cell"], item["fm"]["variant"], item["fm"]["measure"]
    td = TDIM[cell]
    dom = ufl.Mesh(bu.element("Lagrange", cell, 1, shape=(td,)))
    V = ufl.FunctionSpace(dom, make_element("P1", cell, td))
    u, v = ufl.TrialFunction(V), ufl.TestFunction(V)
    f = ufl.Coefficient(ufl.FunctionSpace(dom, make_element("P2", cell, td)))
    g = ufl.Coefficient(V)
    M = {"ds": ufl.ds, "dS": ufl.dS}[meas]
    dV = M(scheme="vertex", degree=1)
    dC = M(metadata=custom_md(FACET_CELL[cell], var))
    dC2 = M(metadata=custom_md(FACET_CELL[cell], var + 1))
    dD = M                                             # default rule: polynomial integrands on affine cells -> exact
    r = (lambda e: e("+")) if meas == "dS" else (lambda e: e)
    m = (lambda e: e("-")) if meas == "dS" else (lambda e: e)
    integrands = [lambda: r(f) * inner(r(u), m(v)), lambda: m(f) * r(g) * inner(m(u), r(v)),
                  lambda: r(g) * inner(r(u), r(v)), lambda: m(g) * inner(m(u), m(v))]
    if (var // 6) % 2:
        # UFL orders the integrals of one subdomain by their integrands, so which rule comes first depends on them:
        # every combination of rules is built with both assignments of integrands to rules
        integrands.reverse()
    measures = {"V": dV, "C": dC, "C2": dC2, "D": dD}
    parts = {k: (lambda k=k, i=i: integrands[i]() * measures[k]) for i, k in enumerate(("V", "C", "C2", "D"))}
    combos = [("V", "C"), ("D", "V"), ("C", "D"), ("V", "C", "D"), ("C", "C2"), ("V", "C2", "C")]
    form = sum((parts[k]() for k in combos[var % len(combos)][1:]), parts[combos[var % len(combos)][0]]())
    return {"form": form, "exact_ok": True, "case": item["fm"]}


def realise_c05(item):
    """Forms whose coefficients survive, drop out or are used by only some integrals; constants of several shapes."""
    ensure_repo_on_path()
    import basix.ufl as bu
    import ufl
    from ufl import derivative, ds, dx, grad, inner

    v_ = item["c05"]
    cell, var = v_["cell"], v_["variant"]
    td = TDIM[cell]
    rnd = random.Random(item["seed"])
    dom = ufl.Mesh(bu.element("Lagrange", cell, 1, shape=(td,)))
    kinds = ["P1", "P2", "vP1", "DG0"]
    rnd.shuffle(kinds)
    spaces = [ufl.FunctionSpace(dom, make_element(k, cell, td)) for k in kinds]
    f = [ufl.Coefficient(S) for S in spaces]              # original coefficient order f0..f3
    V = ufl.FunctionSpace(dom, make_element("P1", cell, td))
    u, v = ufl.TrialFunction(V), ufl.TestFunction(V)
    k0 = ufl.Constant(dom)
    k1 = ufl.Constant(dom, shape=(td,))
    k2 = ufl.Constant(dom, shape=(td, td))

    def sc(g):                                            # a scalar out of any coefficient
        return g if g.ufl_shape == () else g[0]

    dA = dx(metadata=custom_md(cell, var))
    dF = ds(metadata=custom_md(FACET_CELL[cell], var)) if cell != "interval" else ds
    if var % 6 == 5 and cell != "interval":
        # several interior-facet groups after a cell group: every group has its own doubled offsets
        from ufl import avg, dS
        form = (sc(f[0]) * sc(f[1]) * v * dA + sc(f[0])("+") * sc(f[1])("-") * avg(v) * dS(1)
                + sc(f[2])("-") * sc(f[1])("+") * k0 * avg(v) * dS(2) + sc(f[1]) * v * dF)
        # the piecewise-constant coefficient on the '-' side, alone (its single value is addressed directly)
        dg0 = f[kinds.index("DG0")]
        form = form + dg0("-") * v("+") * dS(1) + dg0("-") * dg0("+") * v("-") * dS(2)
        if cell in ("triangle", "tetrahedron"):
            # a MIXED-element coefficient (Taylor-Hood) on the '-' side: every sub-element's '-' half starts at the
            # dimension of the whole element
            th = ufl.Coefficient(ufl.FunctionSpace(dom, make_element("TH", cell, td)))
            thu, thp = ufl.split(th)
            form = form + (thp("-") + 2 * thu[td - 1]("-") + 3 * thp("+")) * v("+") * dS(1)
    elif var % 5 == 4:
        # a constant that vanishes in preprocessing (source term of the differentiated functional) while others
        # survive: the descriptor and the kernels must both keep counting it (original constant order)
        u = ufl.TrialFunction(f[1].ufl_function_space())
        F = k0 * v * dA + k1[td - 1] * sc(f[1]) * sc(f[0]) * v * dA + k2[0, td - 1] * sc(f[1]) * v * dF
        form = derivative(F, f[1], u)
    elif var % 4 == 0:
        # f1 cancels by differentiation (the functional is linear in it), f3 unused, f0 only on dx, f2 only on ds
        u = ufl.TrialFunction(f[1].ufl_function_space())
        F = sc(f[1]) * sc(f[0]) * v * dA + sc(f[2]) * sc(f[1]) * v * dF
        form = derivative(F, f[1], u) + k0 * sc(u) * k2[0, td - 1] * v * dA
    elif var % 4 == 1:
        # f0 multiplied by zero, f2 differentiated away entirely, f1 and f3 used in different integrals
        u = ufl.TrialFunction(f[2].ufl_function_space())
        form = ((0 * sc(f[0]) + sc(f[1])) * sc(u) * v * dA + derivative(sc(f[2]) * v * dA, f[2], u)
                + sc(f[3]) * k1[td - 1] * sc(u) * v * dF)
    elif var % 4 == 2:
        # all used, constants in mixed order, rank 1
        form = (sc(f[3]) * k2[0, td - 1] + sc(f[0]) * k1[0]) * v * dA + sc(f[1]) * sc(f[2]) * k0 * v * dF
    else:
        # rank 0, only the last two coefficients survive
        form = sc(f[2]) * sc(f[3]) * k1[0] * dA + sc(f[3]) * k2[td - 1, 0] * dF
    if var % 2 == 0 and form.arguments() and len(form.arguments()) == 1 and not (var % 6 == 5 and cell != "interval"):
        # tensor constants with unequal extents: component (i, j[, k]) lives at its row-major position in c
        k3 = ufl.Constant(dom, shape=(2, 3))
        k4 = ufl.Constant(dom, shape=(3, 1, 2))
        form = form + (k3[1, 0] + 2 * k3[0, 2] + 3 * k3[1, 2] + 5 * k4[2, 0, 1] + 7 * k4[1, 0, 0]) * form.arguments()[0] * dA
    fd = ufl.algorithms.compute_form_data(form, do_append_everywhere_integrals=False)
    return {"form": form, "exact_ok": True, "case": v_, "expect_positions": list(fd.original_coefficient_positions),
            "expect_constants": [list(c.ufl_shape) for c in form.constants()]}


def realise_underint(item):
    """An explicit low quadrature degree on an integrand of higher degree: the kernel must apply exactly the
    requested rule (basix default rules of degree 0-2 have rational points, so the oracle evaluates that rule)."""
    ensure_repo_on_path()
    import basix.ufl as bu
    import ufl
    from ufl import dx, inner

    cell, q, rank = item["ui"]["cell"], item["ui"]["q"], item["ui"]["rank"]
    td = TDIM[cell]
    dom = ufl.Mesh(bu.element("Lagrange", cell, 1, shape=(td,)))
    V = ufl.FunctionSpace(dom, make_element("P2", cell, td))
    u, v = ufl.TrialFunction(V), ufl.TestFunction(V)
    f = ufl.Coefficient(V)
    dq = dx(degree=q) if item["ui"].get("how", "degree") == "degree" else dx(metadata={"quadrature_degree": q})
    form = {0: f * f * dq, 1: f * inner(f, v) * dq, 2: f * inner(u, v) * dq}[rank]
    return {"form": form, "exact_ok": False, "case": item["ui"]}


def realise_thdiv(item):
    """Taylor-Hood space with a term that couples the components of the vector sub-element (div-div)."""
    ensure_repo_on_path()
    import basix.ufl as bu
    import ufl
    from ufl import div, dx, inner

    cell = item["th"]["cell"]
    td = TDIM[cell]
    dom = ufl.Mesh(bu.element("Lagrange", cell, 1, shape=(td,)))
    V = ufl.FunctionSpace(dom, make_element("TH", cell, td))
    u, v = ufl.TrialFunction(V), ufl.TestFunction(V)
    a_, p_ = ufl.split(u)
    b_, q_ = ufl.split(v)
    dX = dx(metadata=custom_md(cell, item["th"].get("rule", 0)))
    form = (inner(div(a_), div(b_)) + inner(p_, q_) + inner(a_, b_)) * dX
    if item["th"].get("coef"):
        # coefficient g (first in the form's order) only in the off-diagonal blocks, f only in the diagonal ones
        g = ufl.Coefficient(ufl.FunctionSpace(dom, make_element("P1", cell, td)))
        f = ufl.Coefficient(ufl.FunctionSpace(dom, make_element("P1", cell, td)))
        form = (f * inner(a_, b_) + f * inner(p_, q_) + g * inner(p_, div(b_)) + g * inner(div(a_), q_)) * dX
    if item["th"].get("coupled"):
        form = form + (inner(p_, div(b_)) + 2 * inner(div(a_), q_)) * dX      # off-diagonal blocks of the mixed space
    return {"form": form, "exact_ok": True, "case": item["th"]}


def realise_mixedmeta(item):
    """Integrals on one subdomain where only some carry an explicit degree: each integral must get its own
    degree (the explicit low one, and the estimate of its own integrand for the one without metadata)."""
    ensure_repo_on_path()
    import basix.ufl as bu
    import ufl
    from ufl import dx, inner

    cell, var = item["mm"]["cell"], item["mm"]["variant"]
    td = TDIM[cell]
    dom = ufl.Mesh(bu.element("Lagrange", cell, 1, shape=(td,)))
    V = ufl.FunctionSpace(dom, make_element("P1", cell, td))
    v = ufl.TestFunction(V)
    x = ufl.SpatialCoordinate(dom)
    f = ufl.Coefficient(ufl.FunctionSpace(dom, make_element("P2", cell, td)))
    low = dx(degree=1) if var % 2 == 0 else dx(metadata={"quadrature_degree": 0})
    hi = x[0] ** 3 * x[td - 1]                      # degree 4: only integrated exactly with its own estimate
    if var % 3 == 0:
        form = f * f * low + hi * dx                # rank 0
    elif var % 3 == 1:
        form = f * inner(f, v) * low + hi * v * dx  # rank 1
    else:
        form = hi * v * dx + f * f * v * low + x[0] * v * dx(degree=2)
    if item["mm"].get("qe"):
        # a term whose rule is that of a quadrature element next to terms with their own degree: the element's
        # points and weights belong to that term only (both orders of the integrands, UFL sorts by them)
        pts, wts = CUSTOM[cell][var % len(CUSTOM[cell])]
        qel = bu.quadrature_element(cell, points=np.array([[float(c) for c in p_] for p_ in pts], dtype=np.float64).reshape(len(pts), td),
                                    weights=np.array([float(w) for w in wts], dtype=np.float64))
        q = ufl.Coefficient(ufl.FunctionSpace(dom, qel))
        a_, b_ = (q * v, hi * v) if var % 2 == 0 else (q * x[0] ** 2 * v, x[td - 1] * v)
        form = a_ * dx + b_ * dx(degree=5) + f * v * dx(degree=3)      # (degree 3 integrates P2 x P1 exactly)
    return {"form": form, "exact_ok": True, "case": item["mm"]}
