"""CC wrapper: reports the compile / link boundaries of a JIT build to the scheduler and parks there.

Invoked by distutils as  CC="<python> -S -E ccwrap.py"  with gcc's arguments.  Environment:
JITDRV_SOCK (unix socket of the scheduler), JITDRV_PROC (logical process name),
JITDRV_FAULT ("cc": the compile step fails; "link": the link step fails half way).
Linking is done into a temporary file which is then copied to the real output in two halves,
so that "the shared object is partly written" is a state the scheduler can hold.
"""
import json
import os
import socket
import subprocess
import sys

REAL_CC = os.environ.get("JITDRV_REAL_CC", "gcc")


def main():
    argv = sys.argv[1:]
    sockpath = os.environ.get("JITDRV_SOCK")
    if not sockpath:
        os.execvp(REAL_CC, [REAL_CC, *argv])
    proc = os.environ.get("JITDRV_PROC", "?")
    fault = os.environ.get("JITDRV_FAULT", "none")
    s = socket.socket(socket.AF_UNIX, socket.SOCK_STREAM)
    s.connect(sockpath)
    f = s.makefile("rwb", buffering=0)

    def send(d):
        d["proc"] = proc
        d["src"] = "cc"
        d["cwd_path"] = os.getcwd()
        f.write((json.dumps(d) + "\n").encode())

    def park(ev, **kw):
        send(dict(ev=ev, phase="pre", **kw))
        line = f.readline()
        if not line:
            os._exit(137)
        return json.loads(line)

    def post(ev, res, **kw):
        send(dict(ev=ev, phase="post", res=res, **kw))

    if "-c" in argv:
        out = argv[argv.index("-o") + 1] if "-o" in argv else ""
        park("cc", out=os.path.abspath(out))
        if fault == "cc":
            sys.stderr.write("ccwrap: injected compiler failure\n")
            post("cc", "fail")
            return 1
        rc = subprocess.call([REAL_CC, *argv])
        post("cc", "ok" if rc == 0 else "fail", rc=rc)
        return rc
    if "-shared" in argv and "-o" in argv:
        i = argv.index("-o")
        out = os.path.abspath(argv[i + 1])
        tmp = out + ".~link%d" % os.getpid()
        park("link", out=out)
        a2 = list(argv)
        a2[i + 1] = tmp
        if fault == "link":
            # the request named a library that does not exist: the failure is simulated half way (below)
            a2 = [x for x in a2 if x != "-lffcxverif_missing"]
        rc = subprocess.call([REAL_CC, *a2])
        if rc != 0:
            post("link", "fail", rc=rc)
            return rc
        data = open(tmp, "rb").read()
        os.unlink(tmp)
        half = len(data) // 2
        with open(out, "wb") as g:
            g.write(data[:half])
            g.flush()
            post("link", "partial", size=half)
            park("linkend", out=out)
            if fault == "link":
                sys.stderr.write("ccwrap: injected linker failure\n")
                post("linkend", "fail")
                return 1
            g.write(data[half:])
        os.chmod(out, 0o755)
        post("linkend", "ok", size=len(data))
        return 0
    return subprocess.call([REAL_CC, *argv])


if __name__ == "__main__":
    sys.exit(main())
