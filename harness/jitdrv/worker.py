"""S1 binding: real OS processes running the unmodified ffcx JIT under a step-wise scheduler.

Run as  /venv/bin/python -m harness.jitdrv.worker <jobs.json> <out.json>  (PYTHONPATH has the
implementation under test first).  This process imports ffcx once (it is the zygote), then for
every job forks fresh children - each a real process calling
ffcx.codegeneration.jit.compile_forms on a shared cache directory - and releases them one
intercepted call at a time.  Interposition is from outside the code under test:

  jit.open, jit.os, jit.time, jit.importlib   module globals of ffcx.codegeneration.jit -> proxies
  ffcx.compiler.compile_ufl_objects           wrapped (code generation begin/end, fault injection)
  cffi.recompiler.make_c_source               wrapped (the source replaces the lock file)
  CC=ccwrap.py                                compile / link boundaries, half-written .so

Every proxy reports a "pre" message and blocks until the scheduler answers; then performs the
real operation and reports "post".  One child runs at a time, so the recorded order is the
real order, and the directory projection is taken while every child is parked.
"""

from __future__ import annotations

import hashlib
import json
import os
import random
import selectors
import shutil
import signal
import socket
import sys
import tempfile
import time
from pathlib import Path

HERE = Path(__file__).resolve().parent
WATCHDOG_S = 180

# ---------------------------------------------------------------------------
# forms (one per module key); built once in the zygote


def make_forms():
    import basix.ufl
    import ufl

    dom = ufl.Mesh(basix.ufl.element("Lagrange", "interval", 1, shape=(1,)))
    V = ufl.FunctionSpace(dom, basix.ufl.element("Lagrange", "interval", 1))
    u, v = ufl.TrialFunction(V), ufl.TestFunction(V)
    import numpy as np
    f = ufl.Coefficient(V)
    pts = np.array([[0.25], [0.75]])
    # per module key: the request as a form (compile_forms) and as an expression (compile_expressions) -
    # the two entry points duplicate the lock / failure handling in jit.py
    return {
        "k1": {"form": (u * v * ufl.dx, [[1 / 3, 1 / 6], [1 / 6, 1 / 3]]),
               "expr": ((f, pts), [2.5, 1.5])},
        "k2": {"form": (ufl.inner(ufl.grad(u), ufl.grad(v)) * ufl.dx, [[1.0, -1.0], [-1.0, 1.0]]),
               "expr": ((ufl.grad(f), pts), [-2.0, -2.0])},
    }


# ---------------------------------------------------------------------------
# child side


class Chan:
    def __init__(self, sockpath, proc):
        self.s = socket.socket(socket.AF_UNIX, socket.SOCK_STREAM)
        self.s.connect(sockpath)
        self.f = self.s.makefile("rwb", buffering=0)
        self.proc = proc

    def send(self, d):
        d["proc"] = self.proc
        d["src"] = "py"
        self.f.write((json.dumps(d) + "\n").encode())

    def recv(self):
        line = self.f.readline()
        if not line:
            os._exit(0)
        return json.loads(line)


def child_main(proc, sockpath, cache_dir, forms, max_polls, opt_flags):
    import logging

    os.setsid()
    signal.signal(signal.SIGINT, signal.SIG_DFL)
    ch = Chan(sockpath, proc)
    import cffi.recompiler
    import numpy as np

    import ffcx.codegeneration.jit as jit
    import ffcx.compiler

    st = {"fault": "none", "key": None, "orig": None}
    root = logging.getLogger()

    def pystate():
        o = st["orig"]
        if o is None:
            return {"hand": "orig", "out": "orig", "cwd": "orig"}
        hs = root.handlers
        same = len(hs) == len(o[0]) and all(a is b for a, b in zip(hs, o[0]))
        return {"hand": "orig" if same else "tmp",
                "out": "orig" if sys.stdout is o[1] else "tmp",
                "cwd": "orig" if os.getcwd() == o[2] else "tmp"}

    def park(ev, **kw):
        ch.send(dict(ev=ev, phase="pre", key=st["key"], **pystate(), **kw))
        return ch.recv()

    def post(ev, res, **kw):
        ch.send(dict(ev=ev, phase="post", key=st["key"], res=res, **kw))

    def kind(path):
        p = str(path)
        for suf, k in ((".c.cached", "cached"), (".c.failed", "failed"), (".c", "c"), (".o", "o"), (".so", "so")):
            if p.endswith(suf):
                return k
        return "other"

    # ------------------------------------------------------------------
    # Interposition at the level every Python file operation goes through (builtins.open, os.open, os.stat,
    # os.rename/replace/unlink, time.sleep, importlib.util.module_from_spec), so that an implementation that
    # reaches the lock / marker files through pathlib, os.open or anything else is observed just the same.
    # Only the protocol's own files (<k>.c, <k>.c.cached, <k>.c.failed in the cache directory) are reported;
    # calls made from inside cffi / distutils / the loader (the build itself) and from inside a
    # higher-level hook are passed through.
    import builtins
    import importlib
    import importlib.machinery
    import importlib.util

    depth = [0]
    cache_prefix = os.path.realpath(cache_dir) + os.sep

    def watched(path):
        try:
            p = os.fspath(path)
        except TypeError:
            return None
        if isinstance(p, bytes):
            p = p.decode()
        if depth[0] or not os.path.realpath(p).startswith(cache_prefix):
            return None
        k = kind(p)
        if k not in ("c", "cached", "failed"):
            return None
        f = sys._getframe(2)
        while f is not None:
            mod = f.f_globals.get("__name__", "")
            if mod.split(".")[0] in ("cffi", "distutils", "setuptools", "_distutils_hack", "importlib", "subprocess"):
                return None
            f = f.f_back
        return k

    def hooked(name, k, path, call, extra=None, okres="ok"):
        park(name, file=k, path=str(path), **(extra or {}))
        depth[0] += 1
        try:
            r = call()
        except FileExistsError:
            depth[0] -= 1
            post(name, "exists", file=k, **(extra or {}))
            raise
        except OSError as e:
            depth[0] -= 1
            post(name, "err:" + type(e).__name__, file=k, **(extra or {}))
            raise
        depth[0] -= 1
        post(name, okres(r) if callable(okres) else okres, file=k, **(extra or {}))
        return r

    real_open = builtins.open

    class FailingWriter:
        """A file whose write raises ENOSPC (fault "marker": the ready marker's content cannot be written)."""

        def __init__(self, f):
            self._f = f

        def write(self, data):
            import errno
            raise OSError(errno.ENOSPC, "injected: no space left on device")

        def __getattr__(self, name):
            return getattr(self._f, name)

        def __enter__(self):
            return self

        def __exit__(self, *exc):
            self._f.close()
            return False

    def marker_payload(file, mode):
        """Is this the file the ready marker's content goes to (the marker itself or a temporary next to it)?"""
        if isinstance(file, int) or not any(ch in mode for ch in "wxa+"):
            return False
        try:
            p = os.fspath(file)
        except TypeError:
            return False
        p = p.decode() if isinstance(p, bytes) else p
        return os.path.realpath(p).startswith(cache_prefix) and ".c.cached" in os.path.basename(p) and not depth[0]

    def open_proxy(file, mode="r", *a, **kw):
        k = watched(file) if not isinstance(file, int) else None
        inject = st["fault"] == "marker" and marker_payload(file, mode)
        if k is None:
            f = real_open(file, mode, *a, **kw)
            return FailingWriter(f) if inject else f
        m = "x" if "x" in mode else "w" if any(ch in mode for ch in "wa+") else "r"
        f = hooked("open", k, file, lambda: real_open(file, mode, *a, **kw), {"mode": m})
        return FailingWriter(f) if inject else f

    real_os_open = os.open

    def os_open_proxy(path, flags, *a, **kw):
        k = watched(path)
        if k is None:
            return real_os_open(path, flags, *a, **kw)
        m = ("x" if flags & os.O_EXCL and flags & os.O_CREAT else
             "w" if flags & (os.O_CREAT | os.O_WRONLY | os.O_RDWR | os.O_TRUNC | os.O_APPEND) else "r")
        return hooked("open", k, path, lambda: real_os_open(path, flags, *a, **kw), {"mode": m})

    real_stat = os.stat

    def stat_proxy(path, *a, **kw):
        k = watched(path) if not isinstance(path, int) else None
        if k is None:
            return real_stat(path, *a, **kw)
        park("exists", file=k, path=str(path))
        depth[0] += 1
        try:
            r = real_stat(path, *a, **kw)
        except OSError:
            depth[0] -= 1
            post("exists", "false", file=k)
            raise
        depth[0] -= 1
        post("exists", "true", file=k)
        return r

    def two(name, real):
        def f(a, b, *x, **kw):
            k = watched(a) or watched(b)
            if k is None:
                return real(a, b, *x, **kw)
            return hooked(name, kind(a), a, lambda: real(a, b, *x, **kw), {"dst": kind(b)})
        return f

    def one(name, real):
        def f(a, *x, **kw):
            k = watched(a)
            if k is None:
                return real(a, *x, **kw)
            return hooked(name, k, a, lambda: real(a, *x, **kw))
        return f

    builtins.open = open_proxy
    import io as _io
    _io.open = open_proxy
    os.open = os_open_proxy
    os.stat = stat_proxy
    os.replace = two("replace", os.replace)
    os.rename = two("rename", os.rename)
    os.unlink = one("remove", os.unlink)
    os.remove = one("remove", os.remove)

    real_print = builtins.print

    def print_proxy(*a, **kw):
        # fault "echo": the request was made with cffi_verbose=True and echoing the build log fails
        # (e.g. stdout is a pipe whose reader has gone)
        if st["fault"] == "echo" and sys._getframe(1).f_globals.get("__name__", "") == "ffcx.codegeneration.jit":
            raise BrokenPipeError(32, "injected: broken pipe while echoing the build log")
        return real_print(*a, **kw)

    builtins.print = print_proxy

    real_sleep = time.sleep

    def sleep_proxy(secs):
        f = sys._getframe(1)
        if not f.f_globals.get("__name__", "").startswith("ffcx"):
            return real_sleep(secs)
        park("sleep", secs=int(secs))
        post("sleep", "ok")

    time.sleep = sleep_proxy

    real_mfs = importlib.util.module_from_spec

    def mfs_proxy(spec):
        if not str(getattr(spec, "origin", "")).startswith(cache_prefix):
            return real_mfs(spec)
        try:
            sha = hashlib.sha1(real_open(spec.origin, "rb").read()).hexdigest()
        except OSError:
            sha = "unreadable"
        park("load", file="so", path=str(spec.origin), sha=sha)
        depth[0] += 1
        try:
            m = real_mfs(spec)
        except BaseException as e:
            depth[0] -= 1
            post("load", "err:" + type(e).__name__)
            raise
        depth[0] -= 1
        post("load", "ok", sha=sha)
        return m

    importlib.util.module_from_spec = mfs_proxy

    real_codegen = ffcx.compiler.compile_ufl_objects

    def codegen_proxy(*a, **kw):
        park("codegen")
        if st["fault"] == "codegen":
            post("codegen", "fail")
            raise RuntimeError("injected code generation failure")
        depth[0] += 1
        try:
            r = real_codegen(*a, **kw)
        except BaseException as e:
            depth[0] -= 1
            post("codegen", "fail:" + type(e).__name__)
            raise
        depth[0] -= 1
        post("codegen", "ok")
        return r

    ffcx.compiler.compile_ufl_objects = codegen_proxy

    real_mcs = cffi.recompiler.make_c_source

    def mcs_proxy(ffi, module_name, preamble, target_c_file, verbose=False):
        park("ccsrc", file=kind(target_c_file), path=str(target_c_file))
        depth[0] += 1
        try:
            r = real_mcs(ffi, module_name, preamble, target_c_file, verbose=verbose)
        finally:
            depth[0] -= 1
        post("ccsrc", "ok")
        return r

    cffi.recompiler.make_c_source = mcs_proxy

    os.environ["CC"] = f"{sys.executable} -S -E {HERE / 'ccwrap.py'}"
    os.environ["JITDRV_SOCK"] = sockpath
    os.environ["JITDRV_PROC"] = proc

    ch.send({"ev": "hello", "phase": "pre"})
    while True:
        cmd = ch.recv()
        if cmd.get("cmd") != "request":
            os._exit(0)
        k, f = cmd["key"], cmd["fault"]
        variant = cmd.get("variant", "form")
        st["fault"], st["key"] = f, k
        os.environ["JITDRV_FAULT"] = f
        st["orig"] = (list(root.handlers), sys.stdout, os.getcwd())
        obj, expect = forms[k][variant]
        outcome, exc, result_ok = "returned", "", True
        # the user-level cause of an injected link failure: a library that does not exist (ccwrap.py drops it
        # from the real link and simulates the half-written failure); requests without a fault pass None
        bad_libs = ["ffcxverif_missing"] if f == "link" else None
        try:
            x = np.array([0.0, 0, 0, 1.0, 0, 0])
            if variant == "form":
                objs, mod, _ = jit.compile_forms(
                    [obj], options={"scalar_type": "float64"}, cache_dir=cache_dir,
                    timeout=max_polls, cffi_extra_compile_args=list(opt_flags), cffi_libraries=bad_libs,
                    cffi_verbose=(f == "echo"))
                ffi = mod.ffi
                integral = objs[0].form_integrals[0]
                A = np.zeros((2, 2))
                integral.tabulate_tensor_float64(
                    ffi.cast("double *", A.ctypes.data), ffi.NULL, ffi.NULL,
                    ffi.cast("double *", x.ctypes.data), ffi.NULL, ffi.NULL, ffi.NULL)
            else:
                objs, mod, _ = jit.compile_expressions(
                    [obj], options={"scalar_type": "float64"}, cache_dir=cache_dir,
                    timeout=max_polls, cffi_extra_compile_args=list(opt_flags), cffi_libraries=bad_libs,
                    cffi_verbose=(f == "echo"))
                ffi = mod.ffi
                A = np.zeros(2)
                w = np.array([3.0, 1.0])          # f(X) = 3 (1 - X) + X on the reference interval
                ent = np.zeros(1, dtype=np.intc)
                perm = np.zeros(1, dtype=np.uint8)
                objs[0].tabulate_tensor_float64(
                    ffi.cast("double *", A.ctypes.data), ffi.cast("double *", w.ctypes.data), ffi.NULL,
                    ffi.cast("double *", x.ctypes.data), ffi.cast("int *", ent.ctypes.data),
                    ffi.cast("uint8_t *", perm.ctypes.data), ffi.NULL)
            result_ok = bool(np.allclose(A, np.array(expect), rtol=1e-12, atol=1e-14))
        except TimeoutError:
            outcome, exc = "raised", "TimeoutError"
        except BaseException as e:  # noqa: BLE001
            outcome, exc = "raised", type(e).__name__
        park("end", outcome=outcome, exc=exc, result_ok=result_ok)
        post("end", "ok")
        st["key"] = None
        ch.send({"ev": "idle", "phase": "pre"})


# ---------------------------------------------------------------------------
# scheduler side

EV2ACTION = {"codegen": "Codegen", "ccsrc": "CcSource", "cc": "CcObject", "link": "LinkBegin",
             "linkend": "LinkEnd", "replace": "FailRename", "exists": "Poll", "sleep": "Sleep",
             "end": "Return"}


class Sched:
    def __init__(self, forms, procs, keys, max_polls, opt_flags=("-O0",), variant="form"):
        self.variant = variant
        self.forms, self.procs, self.keys, self.max_polls = forms, procs, keys, max_polls
        self.opt_flags = opt_flags
        self.dir = Path(tempfile.mkdtemp(prefix="jitdrv-"))
        self.cache = self.dir / "cache"
        self.sockpath = str(self.dir / "s")
        self.lst = socket.socket(socket.AF_UNIX, socket.SOCK_STREAM)
        self.lst.bind(self.sockpath)
        self.lst.listen(16)
        self.sel = selectors.DefaultSelector()
        self.sel.register(self.lst, selectors.EVENT_READ, ("listen", None))
        self.pid = {}
        self.conn = {}            # proc -> list of file objects (py first)
        self.parked = {}          # proc -> (fileobj, event) | None
        self.state = {p: "unborn" for p in procs}     # unborn | idle | active | dead
        self.py = {p: {"hand": "orig", "out": "orig", "cwd": "orig"} for p in procs}
        self.polls = {p: 0 for p in procs}
        self.loaded = {p: 0 for p in procs}
        self.reqkey = {p: keys[0] for p in procs}
        self.isbuilder = {p: False for p in procs}
        self.base = {}
        self.gen = {k: 0 for k in keys}
        self.markgen = {k: 0 for k in keys}
        self.owner = {k: "none" for k in keys}
        self.complete_sha = {k: None for k in keys}
        self.trace = []
        self.orig_cwd = os.getcwd()
        self.bufs = {}

    # -- process management
    def spawn(self, p):
        pid = os.fork()
        if pid == 0:
            try:
                self.lst.close()
                child_main(p, self.sockpath, str(self.cache), self.forms, self.max_polls, self.opt_flags)
            finally:
                os._exit(0)
        self.pid[p] = pid
        self.state[p] = "idle"
        self._pump(p)     # until hello

    def close(self):
        for p, pid in self.pid.items():
            try:
                os.killpg(pid, signal.SIGKILL)
            except OSError:
                pass
        for p, pid in self.pid.items():
            try:
                os.waitpid(pid, 0)
            except OSError:
                pass
        try:
            self.sel.close()
            self.lst.close()
        except OSError:
            pass
        shutil.rmtree(self.dir, ignore_errors=True)

    # -- message pump: run until process p parks (sends a pre message) or dies
    def _pump(self, p):
        posts = []
        t_end = time.time() + WATCHDOG_S
        while True:
            evs = self.sel.select(timeout=5)
            if not evs and time.time() > t_end:
                raise RuntimeError(f"watchdog: {p} neither parked nor ended in {WATCHDOG_S}s")
            for key_, _ in evs:
                tag, who = key_.data
                if tag == "listen":
                    c, _ = self.lst.accept()
                    self.sel.register(c, selectors.EVENT_READ, ("conn", None))
                    self.bufs[c] = b""
                    continue
                c = key_.fileobj
                data = c.recv(65536)
                if not data:
                    self.sel.unregister(c)
                    c.close()
                    self.bufs.pop(c, None)
                    if who is not None and self.conn.get(who, [None])[0] is c:
                        self.state[who] = "dead"
                        self.parked[who] = None
                        if who == p:
                            return posts, None
                    continue
                self.bufs[c] += data
                while b"\n" in self.bufs[c]:
                    line, self.bufs[c] = self.bufs[c].split(b"\n", 1)
                    m = json.loads(line)
                    q = m["proc"]
                    if key_.data[1] is None:
                        self.sel.modify(c, selectors.EVENT_READ, ("conn", q))
                        key_ = self.sel.get_key(c)
                        if m["src"] == "py":
                            self.conn[q] = [c]
                    if m["phase"] == "post":
                        posts.append(m)
                    else:
                        self.parked[q] = (c, m)
                        if m["src"] == "py" and "hand" in m:
                            self.py[q] = {k: m[k] for k in ("hand", "out", "cwd")}
                        elif m["src"] == "cc":
                            self.py[q]["cwd"] = "orig" if m.get("cwd_path") == self.orig_cwd else "tmp"
                        if q == p:
                            return posts, m

    def _go(self, p, reply):
        c, _ = self.parked[p]
        self.parked[p] = None
        c.sendall((json.dumps(reply) + "\n").encode())

    # -- projection of the cache directory (all children parked)
    def project(self):
        fs = {}
        for k in self.keys:
            b = self.base.get(k)
            d = {"c": "absent", "owner": self.owner[k], "cached": False, "failed": False, "obj": False,
                 "so": "absent", "gen": self.gen[k], "markgen": self.markgen[k]}
            if b is not None:
                cp = Path(b + ".c")
                if cp.exists():
                    d["c"] = "lock" if cp.stat().st_size == 0 else "src"
                d["cached"] = Path(b + ".c.cached").exists()
                d["failed"] = Path(b + ".c.failed").exists()
                d["obj"] = Path(b + ".o").exists()
                sos = [f for f in Path(b).parent.glob(Path(b).name + ".*.so")]
                if sos:
                    sha = hashlib.sha1(sos[0].read_bytes()).hexdigest()
                    d["so"] = "complete" if sha == self.complete_sha[k] else "partial"
            fs[k] = d
        return fs

    def park_kind(self, p):
        if self.state[p] in ("unborn", "idle"):
            return "idle"
        if self.state[p] == "dead":
            return "dead"
        m = self.parked[p][1]
        e = m["ev"]
        if e == "open":
            return {"c": "trylock", "cached": "mark"}.get(m["file"], "open:" + m["file"]) if m["mode"] == "x" else f"open:{m['file']}:{m['mode']}"
        if e == "load":
            return "bload" if self.isbuilder[p] else "wload"
        if e == "exists" and m["file"] != "cached":
            return "exists:" + m["file"]
        if e == "exists" and self.isbuilder[p]:
            return "mark"                       # the builder looks whether a marker exists already
        if e in ("replace", "rename") and m.get("dst") == "cached":
            return "publish"                    # the finished marker is renamed into place
        if e == "end":
            if m["outcome"] == "returned":
                return "ret"
            return "raise_timeout" if m["exc"] == "TimeoutError" else "raise_fail"
        return {"codegen": "gen", "ccsrc": "ccsrc", "cc": "ccobj", "link": "link", "linkend": "linking",
                "replace": "frename", "exists": "poll", "sleep": "sleep"}.get(e, e)

    def snapshot(self):
        return {"fs": self.project(),
                "procs": {p: {"at": self.park_kind(p), "key": self.reqkey[p], "polls": self.polls[p],
                              "loaded": self.loaded[p], **self.py[p]} for p in self.procs}}

    # -- the three kinds of scheduler step
    def request(self, p, k, f):
        if self.state[p] == "unborn":
            self.spawn(p)
        assert self.state[p] == "idle", (p, self.state[p])
        self.state[p] = "active"
        self.reqkey[p], self.polls[p], self.loaded[p] = k, 0, 0
        self.isbuilder[p] = False
        self.py[p] = {"hand": "orig", "out": "orig", "cwd": "orig"}
        sawc = self.project()[k]["cached"]
        self._go_idle(p, {"cmd": "request", "key": k, "fault": f, "variant": self.variant})
        posts, nxt = self._pump(p)
        self._record(p, "request", {"key": k, "fault": f, "sawCached": sawc}, "ok")

    def _go_idle(self, p, reply):
        c = self.conn[p][0]
        self.parked[p] = None
        c.sendall((json.dumps(reply) + "\n").encode())

    def kill(self, p):
        at = self.park_kind(p)
        try:
            os.killpg(self.pid[p], signal.SIGKILL)
        except OSError:
            pass
        try:
            os.waitpid(self.pid[p], 0)
        except OSError:
            pass
        # drain closed connections
        t0 = time.time()
        while self.state[p] != "dead" and time.time() - t0 < 10:
            self._pump_nowait()
        self.state[p] = "dead"
        self.parked[p] = None
        self._record(p, "kill", {"at": at}, "ok")

    def _pump_nowait(self):
        for key_, _ in self.sel.select(timeout=0.2):
            tag, who = key_.data
            if tag == "listen":
                continue
            c = key_.fileobj
            try:
                data = c.recv(65536)
            except OSError:
                data = b""
            if not data:
                self.sel.unregister(c)
                c.close()
                if who is not None and self.conn.get(who, [None])[0] is c:
                    self.state[who] = "dead"

    def step(self, p):
        """Release p for exactly one intercepted operation; returns the recorded line."""
        c, m = self.parked[p]
        ev, k = m["ev"], self.reqkey[p]
        args = {a: m[a] for a in ("file", "mode", "dst", "sha", "outcome", "exc", "result_ok") if a in m}
        if ev == "exists":
            args["role"] = "builder" if self.isbuilder[p] else "waiter"
        if "path" in m and m.get("file") == "c" and k not in self.base:
            self.base[k] = m["path"][:-2]
        if ev == "load":
            args["role"] = "builder" if self.isbuilder[p] else "waiter"
        self._go(p, {"act": "go"})
        posts, nxt = self._pump(p)
        res = next((x["res"] for x in posts if x["ev"] == ev), "none")
        # bookkeeping that defines the abstract state
        was_absent = (self.trace[-1]["fs"][k]["c"] == "absent") if self.trace else True
        if ev == "open" and m["file"] == "c" and res == "ok" and (m["mode"] == "x" or (m["mode"] == "w" and was_absent)):
            self.owner[k] = p            # whoever created the present <k>.c
            self.isbuilder[p] = True
        if ev in ("replace", "rename", "remove") and m["file"] == "c" and res == "ok":
            self.owner[k] = "none"
        if ev == "link":
            self.gen[k] += 1
            self.complete_sha[k] = None
        if ev == "linkend" and res == "ok":
            sos = list(Path(self.base[k]).parent.glob(Path(self.base[k]).name + ".*.so"))
            self.complete_sha[k] = hashlib.sha1(sos[0].read_bytes()).hexdigest()
        if ((ev == "open" and m["file"] == "cached" and m["mode"] in ("x", "w"))
                or (ev in ("replace", "rename") and m.get("dst") == "cached")) and res == "ok":
            self.markgen[k] = self.gen[k]
        if ev == "sleep":
            self.polls[p] += 1
        if ev == "load":
            ok = res == "ok" and m["sha"] == self.complete_sha[k]
            self.loaded[p] = self.gen[k] if ok else -1
            args["complete"] = bool(m["sha"] == self.complete_sha[k])
        if ev == "end":
            self.state[p] = "idle"     # the child goes on to send "idle"
        return self._record(p, ev, args, res)

    def _record(self, p, ev, args, res):
        line = {"seq": len(self.trace) + 1, "proc": p, "ev": ev, "args": args, "res": res, **self.snapshot()}
        self.trace.append(line)
        return line

    def live(self):
        return [p for p in self.procs if self.state[p] == "active" and self.parked.get(p)]


def action_of(line):
    """The JitCache action a recorded line corresponds to (None = not a protocol action)."""
    e, a = line["ev"], line["args"]
    if e == "request":
        return "Request"
    if e == "kill":
        return "Kill"
    if e == "open" and a.get("mode") == "x":
        return {"c": "TryLock", "cached": "WriteMarker"}.get(a["file"])
    if e == "load":
        return "LoadBuilder" if a["role"] == "builder" else "LoadWaiter"
    if e in ("replace", "rename") and a.get("dst") == "cached":
        return "WriteMarker"
    if e == "exists" and a.get("file") == "cached" and a.get("role") == "builder":
        return "CheckMarker"
    return EV2ACTION.get(e)


PC2PARK = {"returned": "idle", "raised_fail": "idle", "raised_timeout": "idle"}


def run_schedule(forms, job):
    """Replay a TLC behaviour: job = {procs, keys, max_polls, steps: [{act, p, k?, f?, expect}]}."""
    s = Sched(forms, job["procs"], job["keys"], job["max_polls"], variant=job.get("variant", "form"))
    drift = None
    try:
        for i, stp in enumerate(job["steps"]):
            a, p = stp["act"], stp["p"]
            if drift is None:
                if a == "Request":
                    s.request(p, stp["k"], stp["f"])
                elif a == "Kill":
                    s.kill(p)
                else:
                    if not (s.state[p] == "active" and s.parked.get(p)):
                        drift = {"step": i, "why": f"{p} not parked where the spec takes {a}", "at": s.park_kind(p)}
                        continue
                    line = s.step(p)
                    got = action_of(line)
                    if got != a:
                        drift = {"step": i, "why": f"spec action {a}({p}) but the code performed {got} ({line['ev']} {line['args']})"}
                        continue
                d = compare(stp.get("expect"), s.trace[-1])
                if d and drift is None:
                    drift = {"step": i, "why": "state after " + a + f"({p}) differs: " + d}
            else:
                # free run along the rest of the schedule
                if a == "Request" and s.state.get(p) in ("idle", "unborn"):
                    s.request(p, stp["k"], stp["f"])
                elif a == "Kill" and s.state[p] == "active":
                    s.kill(p)
                elif s.state[p] == "active" and s.parked.get(p):
                    s.step(p)
        for t in job.get("tail", []):
            if t[0] == "drain":
                drain(s)
            elif t[0] == "req":
                free = [q for q in s.procs if s.state[q] in ("idle", "unborn")]
                if free:
                    s.request(free[0], t[1], t[2])
            elif t[0] == "steps":          # advance every live process by up to t[1] operations, round robin
                for _ in range(t[1]):
                    for q in s.live():
                        s.step(q)
        drain(s)
        return {"id": job["id"], "trace": s.trace, "drift": drift, "mode": "schedule"}
    finally:
        s.close()


def drain(s, limit=400):
    n = 0
    while s.live() and n < limit:
        for p in s.live():
            s.step(p)
            n += 1


def compare(expect, line):
    """Compare the spec state after a step with the projection of the real state."""
    if not expect:
        return ""
    diffs = []
    for k, e in expect["fs"].items():
        g = line["fs"][k]
        for fld in ("c", "owner", "cached", "failed", "obj", "so", "gen", "markgen"):
            if e[fld] != g[fld]:
                diffs.append(f"fs[{k}].{fld}: spec {e[fld]} real {g[fld]}")
    for p, e in expect["procs"].items():
        g = line["procs"][p]
        at = PC2PARK.get(e["pc"], e["pc"])
        if at != g["at"]:
            diffs.append(f"{p} at: spec {e['pc']} real {g['at']}")
        for fld in ("hand", "out", "cwd", "polls", "loaded"):
            if e["pc"] in ("dead", "idle"):
                continue
            if e[fld] != g[fld]:
                diffs.append(f"{p}.{fld}: spec {e[fld]} real {g[fld]}")
    return "; ".join(diffs)


def run_random(forms, job):
    """Seeded random scheduling at the finest grain (every intercepted call), with faults and kills."""
    rnd = random.Random(job["seed"])
    procs, keys = job["procs"], job["keys"]
    s = Sched(forms, procs, keys, job["max_polls"], variant=job.get("variant", "form"))
    reqs = kills = fails = 0
    try:
        for _ in range(job["nsteps"]):
            choices = []
            idle = [p for p in procs if s.state[p] in ("unborn", "idle")]
            if idle and reqs < job["max_req"]:
                choices += [("req", p) for p in idle]
            live = s.live()
            choices += [("step", p) for p in live] * 3
            if live and kills < job["max_kills"]:
                choices += [("kill", p) for p in live if rnd.random() < 0.15]
            if not choices:
                break
            what, p = rnd.choice(choices)
            if what == "req":
                f = "none"
                if fails < job["max_fails"] and rnd.random() < job.get("p_fail", 0.3):
                    f = rnd.choice(["codegen", "cc", "link", "marker", "echo"])
                    fails += 1
                reqs += 1
                s.request(p, rnd.choice(keys), f)
            elif what == "kill":
                kills += 1
                s.kill(p)
            else:
                s.step(p)
        drain(s)
        return {"id": job["id"], "trace": s.trace, "drift": None, "mode": "random"}
    finally:
        s.close()


def main():
    jobs = json.loads(Path(sys.argv[1]).read_text())
    forms = make_forms()
    import ffcx.codegeneration.jit  # noqa: F401  (import before forking)

    out = []
    for job in jobs:
        try:
            r = run_schedule(forms, job) if job["mode"] == "schedule" else run_random(forms, job)
        except Exception as e:  # noqa: BLE001
            import traceback

            r = {"id": job["id"], "error": f"{type(e).__name__}: {e}", "tb": traceback.format_exc()}
        out.append(r)
    Path(sys.argv[2]).write_text(json.dumps(out))


if __name__ == "__main__":
    main()
