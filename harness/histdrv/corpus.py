"""Form / expression templates for engine S2 (History.tla).

Every template is a function of a `Ctx` and builds *fresh* UFL objects on every call, so UFL's
global counters (Mesh.ufl_id, Coefficient / Constant counts) differ between histories while the
UFL signature stays the same.  `Ctx.route` = r realises the spec's Route: before every counted
object the template makes, r throw-away objects of the same class are made (the same form
reached with other ids and gaps between them).

A template returns {"objs": [...], "object_names": {id: name} | None}.
"""

from __future__ import annotations

from pathlib import Path

import basix
import basix.ufl
import numpy as np
import ufl
from .corpus_meta import ALL_TEMPLATES, FLAGS, LITERALS, OPTS  # noqa: F401

from ufl import (FacetNormal, avg, conditional, cos, div, dS, ds, dx, exp, grad, inner, jump, lt, sin,
                 sym, tr)


_TDIM = {"interval": 1, "triangle": 2, "quadrilateral": 2, "tetrahedron": 3, "hexahedron": 3, "prism": 3,
         "pyramid": 3}


class Ctx:
    def __init__(self, route: int = 0):
        self.route = route

    def mesh(self, cell, degree=1, gdim=None):
        gd = gdim or _TDIM[cell]
        for _ in range(self.route):
            ufl.Mesh(basix.ufl.element("Lagrange", cell, 1, shape=(gd,)))
        return ufl.Mesh(basix.ufl.element("Lagrange", cell, degree, shape=(gd,)))

    def space(self, mesh, el):
        return ufl.FunctionSpace(mesh, el)

    def coef(self, V):
        for _ in range(self.route):
            ufl.Coefficient(V)
        return ufl.Coefficient(V)

    def const(self, mesh, shape=()):
        for _ in range(self.route):
            ufl.Constant(mesh)
        return ufl.Constant(mesh, shape=shape)


def _el(family, cell, degree, **kw):
    return basix.ufl.element(family, cell, degree, **kw)


# ---------------------------------------------------------------------------
# forms


def t_p1_poisson_tri(c):
    m = c.mesh("triangle")
    V = c.space(m, _el("Lagrange", "triangle", 1))
    u, v = ufl.TrialFunction(V), ufl.TestFunction(V)
    f = c.coef(V)
    return [inner(grad(u), grad(v)) * dx + inner(u, v) * dx, inner(f, v) * dx]


def t_p2_poisson_tri(c):
    m = c.mesh("triangle")
    V = c.space(m, _el("Lagrange", "triangle", 2))
    u, v = ufl.TrialFunction(V), ufl.TestFunction(V)
    f = c.coef(V)
    k = c.const(m)
    return [k * f * inner(grad(u), grad(v)) * dx + inner(u, v) * dx]


def t_mixed3_tri(c):
    """Three distinct sub-elements plus a coefficient from a fourth."""
    cell = "triangle"
    m = c.mesh(cell)
    P2 = _el("Lagrange", cell, 2, shape=(2,))
    P1 = _el("Lagrange", cell, 1)
    D0 = _el("Discontinuous Lagrange", cell, 0)
    W = c.space(m, basix.ufl.mixed_element([P2, P1, D0]))
    (u, p, r) = ufl.TrialFunctions(W)
    (v, q, s) = ufl.TestFunctions(W)
    g = c.coef(c.space(m, _el("Lagrange", cell, 3)))
    w = c.coef(W)
    a = (inner(grad(u), grad(v)) - inner(p, div(v)) + inner(div(u), q) + g * inner(r, s) + w[2] * inner(p, q)) * dx
    return [a]


def t_two_mesh_tri(c):
    cell = "triangle"
    el = _el("Lagrange", cell, 1)
    m0 = c.mesh(cell)
    V0 = c.space(m0, el)
    u = ufl.TrialFunction(V0)
    m1 = c.mesh(cell)
    V1 = c.space(m1, el)
    v = ufl.TestFunction(V1)
    return [inner(u.dx(0), v.dx(0)) * dx(domain=m0)]


def t_prism_facets(c):
    """Prism: exterior-facet integrals have two kernels (triangle and quadrilateral facets)."""
    cell = "prism"
    m = c.mesh(cell)
    V = c.space(m, _el("Lagrange", cell, 1))
    u, v = ufl.TrialFunction(V), ufl.TestFunction(V)
    f = c.coef(V)
    return [inner(u, v) * ds + f * inner(u, v) * dx, inner(f, v) * ds]


def t_multi_degree_tri(c):
    cell = "triangle"
    m = c.mesh(cell)
    V = c.space(m, _el("Lagrange", cell, 2))
    v = ufl.TestFunction(V)
    f = c.coef(V)
    L = (inner(f, v) * dx(degree=1) + inner(f**2, v) * dx(degree=3) + inner(f**3, v) * dx(degree=5)
         + inner(f, v) * ds(degree=2))
    return [L]


def t_elasticity_tet(c):
    cell = "tetrahedron"
    m = c.mesh(cell)
    V = c.space(m, _el("Lagrange", cell, 1, shape=(3,)))
    u, v = ufl.TrialFunction(V), ufl.TestFunction(V)
    mu, lm = c.const(m), c.const(m)
    b = c.const(m, shape=(3,))
    f = c.coef(V)

    def eps(w):
        return sym(grad(w))

    a = (2 * mu * inner(eps(u), eps(v)) + lm * inner(tr(eps(u)), tr(eps(v)))) * dx
    L = inner(b + f, v) * dx
    return [a, L]


def t_interior_facet_tri(c):
    cell = "triangle"
    m = c.mesh(cell)
    V = c.space(m, _el("Discontinuous Lagrange", cell, 1))
    u, v = ufl.TrialFunction(V), ufl.TestFunction(V)
    f = c.coef(V)
    k = c.const(m)
    n = FacetNormal(m)
    a = (k * inner(jump(u, n), jump(v, n)) - inner(avg(grad(u)), jump(v, n)) + avg(f) * inner(jump(u), jump(v))) * dS
    return [a + inner(u, v) * dx]


def t_quad_q2(c):
    cell = "quadrilateral"
    m = c.mesh(cell)
    V = c.space(m, _el("Lagrange", cell, 2))
    u, v = ufl.TrialFunction(V), ufl.TestFunction(V)
    f = c.coef(V)
    return [f * inner(grad(u), grad(v)) * dx + inner(u, v) * dx]


def t_subdomains_tri(c):
    cell = "triangle"
    m = c.mesh(cell)
    V = c.space(m, _el("Lagrange", cell, 1))
    u, v = ufl.TrialFunction(V), ufl.TestFunction(V)
    f = c.coef(V)
    k = c.const(m)
    w = inner(u, v)
    return [w * ds(1) + k * w * ds(2) + f * w * dx((1, 2)) + w * dx + 2 * w * dx(3)]


def t_two_const_tri(c):
    """Two scalar constants multiplied together, a vector constant and a coefficient."""
    cell = "triangle"
    m = c.mesh(cell)
    V = c.space(m, _el("Lagrange", cell, 1))
    u, v = ufl.TrialFunction(V), ufl.TestFunction(V)
    k1, k2 = c.const(m), c.const(m)
    b = c.const(m, shape=(2,))
    f = c.coef(V)
    return [k1 * k2 * inner(grad(u), grad(v)) * dx + k2 * f * inner(u, v) * dx, k1 * inner(b, grad(v)) * dx]


def t_math_tri(c):
    cell = "triangle"
    m = c.mesh(cell)
    V = c.space(m, _el("Lagrange", cell, 2))
    v = ufl.TestFunction(V)
    f, g = c.coef(V), c.coef(V)
    x = ufl.SpatialCoordinate(m)
    return [inner(conditional(lt(ufl.real(f), 0.5), sin(f) * g, exp(g) + cos(x[0])), v) * dx]


def t_hdiv_hcurl_tri(c):
    cell = "triangle"
    m = c.mesh(cell)
    RT = _el("RT", cell, 1)
    N1 = _el("N1curl", cell, 1)
    W = c.space(m, basix.ufl.mixed_element([RT, N1]))
    (s, e) = ufl.TrialFunctions(W)
    (t, w) = ufl.TestFunctions(W)
    return [(inner(s, t) + inner(e, w) + inner(div(s), div(t))) * dx]


def t_manifold_tri(c):
    cell = "triangle"
    m = c.mesh(cell, gdim=3)
    V = c.space(m, _el("Lagrange", cell, 1))
    u, v = ufl.TrialFunction(V), ufl.TestFunction(V)
    f = c.coef(V)
    return [f * inner(grad(u), grad(v)) * dx]


def t_p2_geometry_tri(c):
    """Affine-free geometry: P2 coordinate element (Jacobian computed per quadrature point)."""
    cell = "triangle"
    m = c.mesh(cell, degree=2)
    V = c.space(m, _el("Lagrange", cell, 1))
    u, v = ufl.TrialFunction(V), ufl.TestFunction(V)
    return [inner(grad(u), grad(v)) * dx]


def t_hex_q1(c):
    cell = "hexahedron"
    m = c.mesh(cell)
    V = c.space(m, _el("Lagrange", cell, 1))
    u, v = ufl.TrialFunction(V), ufl.TestFunction(V)
    return [inner(grad(u), grad(v)) * dx]


def _tp(c, cell, degree):
    """Tensor-product elements (the ones sum factorisation applies to), as in test/test_tensor_product.py."""
    gdim = _TDIM[cell]
    ct = basix.CellType[cell]
    var = basix.LagrangeVariant.gll_warped
    el = basix.ufl.wrap_element(basix.create_tp_element(basix.ElementFamily.P, ct, degree, var))
    co = basix.ufl.blocked_element(
        basix.ufl.wrap_element(basix.create_tp_element(basix.ElementFamily.P, ct, 1, var)), shape=(gdim,))
    for _ in range(c.route):
        ufl.Mesh(co)
    m = ufl.Mesh(co)
    return m, c.space(m, el)


def t_tp_quad_q2(c):
    m, V = _tp(c, "quadrilateral", 2)
    u, v = ufl.TrialFunction(V), ufl.TestFunction(V)
    f = c.coef(V)
    # (the facet form comes last: whatever processing it leaves behind in shared state meets the cell forms only when
    #  the same objects are generated again)
    return [f * inner(grad(u), grad(v)) * dx + inner(u, v) * dx, inner(f, v) * dx, inner(f, v) * ufl.ds]


def t_mixed_dim_geo(c):
    """trial function on a tetrahedron mesh, test function on a triangle mesh (codimension 1), and the same geometric
    quantity of BOTH cell types in one kernel (one reference table per cell type)"""
    m3 = c.mesh("tetrahedron")
    m2 = c.mesh("triangle", gdim=3)
    V3 = c.space(m3, _el("Lagrange", "tetrahedron", 1))
    V2 = c.space(m2, _el("Lagrange", "triangle", 1))
    u, v = ufl.TrialFunction(V3), ufl.TestFunction(V2)
    return [ufl.CellVolume(m3) * ufl.CellVolume(m2) * u * v * ufl.ds(domain=m3)]


def t_tp_hex_q2(c):
    m, V = _tp(c, "hexahedron", 2)
    u, v = ufl.TrialFunction(V), ufl.TestFunction(V)
    k = c.const(m)
    return [k * inner(grad(u), grad(v)) * dx]


# ---------------------------------------------------------------------------
# groups sharing every plausible memo key (corpus_meta.GROUPS)


def _group_form(c, cell, el, degree, vec=False):
    m = c.mesh(cell)
    V = c.space(m, el)
    u, v = ufl.TrialFunction(V), ufl.TestFunction(V)
    return [inner(u, v) * dx(degree=degree) + inner(grad(u), grad(v)) * dx(degree=degree) + inner(u, v) * ds(degree=degree)]


def _custom_form(c, weights, degree=1):
    cell = "triangle"
    m = c.mesh(cell)
    V = c.space(m, _el("Lagrange", cell, degree))
    u, v = ufl.TrialFunction(V), ufl.TestFunction(V)
    md = {"quadrature_rule": "custom",
          "quadrature_points": np.array([[0.25, 0.25], [0.5, 0.25], [0.25, 0.5], [0.125, 0.125]]),
          "quadrature_weights": np.array(weights)}
    return [inner(u, v) * dx(metadata=md) + inner(grad(u), grad(v)) * dx(metadata=md)]


_V = basix.LagrangeVariant
GROUP_BUILDERS = {
    "g_p1_q2": lambda c: _group_form(c, "triangle", _el("Lagrange", "triangle", 1), 2),
    "g_iso_q2": lambda c: _group_form(c, "triangle", _el("iso", "triangle", 1), 2),       # macro element: polyset macroedge
    "g_p2_q2": lambda c: _group_form(c, "triangle", _el("Lagrange", "triangle", 2), 2),
    "g_dg1_q2": lambda c: _group_form(c, "triangle", _el("Discontinuous Lagrange", "triangle", 1), 2),
    "g_p1vec_q2": lambda c: _group_form(c, "triangle", _el("Lagrange", "triangle", 1, shape=(2,)), 2),
    "g_p3_gll_q4": lambda c: _group_form(c, "triangle", _el("Lagrange", "triangle", 3, lagrange_variant=_V.gll_warped), 4),
    "g_p3_equi_q4": lambda c: _group_form(c, "triangle", _el("Lagrange", "triangle", 3, lagrange_variant=_V.equispaced), 4),
    "g_dp3_legendre_q4": lambda c: _group_form(
        c, "triangle", _el("Lagrange", "triangle", 3, lagrange_variant=_V.legendre, discontinuous=True), 4),
    "g_custom_w1": lambda c: _custom_form(c, [0.125, 0.125, 0.125, 0.125]),
    "g_custom_w2": lambda c: _custom_form(c, [0.25, 0.125, 0.0625, 0.0625]),
    "g_custom_w1_p2": lambda c: _custom_form(c, [0.125, 0.125, 0.125, 0.125], degree=2),
    "g_q1_quad_q2": lambda c: _group_form(c, "quadrilateral", _el("Lagrange", "quadrilateral", 1), 2),
    "g_dq1_quad_q2": lambda c: _group_form(c, "quadrilateral", _el("Lagrange", "quadrilateral", 1, discontinuous=True), 2),
    "g_tpq1_quad_q2": lambda c: _group_form(
        c, "quadrilateral",
        basix.ufl.wrap_element(basix.create_tp_element(basix.ElementFamily.P, basix.CellType.quadrilateral, 1, _V.gll_warped)), 2),
}


# ---------------------------------------------------------------------------
# expressions


def ref_points(cell: str, n: int) -> np.ndarray:
    """n deterministic points inside the reference cell (no randomness, exactly reproducible)."""
    tdim = {"interval": 1, "triangle": 2, "tetrahedron": 3}[cell]
    i = np.arange(1, n + 1, dtype=np.float64)
    cols = [(i * 0.618033988749895) % 1.0, (i * 0.754877666246693) % 1.0, (i * 0.569840290998053) % 1.0][:tdim]
    p = np.stack(cols, axis=1) / tdim
    return np.ascontiguousarray(p)


def t_expr_p2_tri(c):
    cell = "triangle"
    m = c.mesh(cell)
    V = c.space(m, _el("Lagrange", cell, 2))
    f = c.coef(V)
    k = c.const(m)
    pts = ref_points(cell, 5)
    return [(grad(f), pts), (k * f, pts)]


def t_expr_vec_tet(c):
    cell = "tetrahedron"
    m = c.mesh(cell)
    V = c.space(m, _el("Lagrange", cell, 2, shape=(3,)))
    f = c.coef(V)
    v = ufl.TestFunction(V)
    pts = ref_points(cell, 4)
    return [(div(f), pts), (inner(f, v), pts)]


FORM_TEMPLATES = {
    "p1_poisson_tri": t_p1_poisson_tri,
    "p2_poisson_tri": t_p2_poisson_tri,
    "mixed3_tri": t_mixed3_tri,
    "two_mesh_tri": t_two_mesh_tri,
    "prism_facets": t_prism_facets,
    "multi_degree_tri": t_multi_degree_tri,
    "elasticity_tet": t_elasticity_tet,
    "interior_facet_tri": t_interior_facet_tri,
    "quad_q2": t_quad_q2,
    "subdomains_tri": t_subdomains_tri,
    "math_tri": t_math_tri,
    "two_const_tri": t_two_const_tri,
    "hdiv_hcurl_tri": t_hdiv_hcurl_tri,
    "manifold_tri": t_manifold_tri,
    "p2_geometry_tri": t_p2_geometry_tri,
    "hex_q1": t_hex_q1,
    "mixed_dim_geo": t_mixed_dim_geo,
    "tp_quad_q2": t_tp_quad_q2,
    "tp_hex_q2": t_tp_hex_q2,
    "expr_p2_tri": t_expr_p2_tri,
    "expr_vec_tet": t_expr_vec_tet,
}
FORM_TEMPLATES.update(GROUP_BUILDERS)

def build(name: str, route: int = 0) -> dict:
    """Template name -> {"objs", "object_names"}.  `demo:<Name>` loads /repo/demo/<Name>.py the way
    ffcx.main does (ufl.algorithms.load_ufl_file: exec of the file, forms/expressions/elements from its
    namespace, object names by id)."""
    if name.startswith("req:"):
        pts = "int12" if name[4:] == "expr_int" else "tri6"
        return {"objs": build_request({"tmpl": name[4:], "n": 1, "pts": pts, "opt": "default", "flag": "O2"},
                                      route)[1], "object_names": None}
    if name.startswith("demo:"):
        import ffcx

        repo = Path(ffcx.__file__).resolve().parent.parent
        path = repo / "demo" / (name[5:] + ".py")
        for _ in range(route):
            # demos make their own objects; a route can only shift the counters beforehand
            m = ufl.Mesh(basix.ufl.element("Lagrange", "triangle", 1, shape=(2,)))
            ufl.Coefficient(ufl.FunctionSpace(m, basix.ufl.element("Lagrange", "triangle", 1)))
            ufl.Constant(m)
        ufd = ufl.algorithms.load_ufl_file(str(path))
        return {"objs": list(ufd.forms) + list(ufd.expressions) + list(ufd.elements),
                "object_names": ufd.object_names}
    return {"objs": FORM_TEMPLATES[name](Ctx(route)), "object_names": None}


# ---------------------------------------------------------------------------
# C13: the request algebra.  A request recipe is a plain dict
#   {"tmpl": <request template>, "n": 1|2, "pts": <points variant>|None, "opt": <OPTS key>, "flag": <FLAGS key>}
# and is realised by `build_request`.

def points_variant(name: str) -> np.ndarray:
    base, _, hid = name.partition("+")
    if base in ("tri6", "tri6_f32"):
        p = ref_points("triangle", 6)
    elif base == "tri600":
        p = ref_points("triangle", 600)
    elif base in ("tri6_dyadic", "tri6_dyadic_f32"):
        p = np.array([[0.25, 0.25], [0.5, 0.25], [0.25, 0.5], [0.125, 0.125], [0.125, 0.75], [0.75, 0.125]])
    elif base in ("int12",):
        # the values of tri6 in the shape an interval expression takes: (12, 1) instead of (6, 2)
        p = ref_points("triangle", 6).reshape(12, 1)
    else:
        raise KeyError(name)
    p = np.array(p, dtype=np.float64)
    if hid == "eps":
        p[p.shape[0] // 2, 0] += 1e-10
    elif hid == "mid":
        p[p.shape[0] // 2, 0] += 1.0 / 1024
    elif hid:
        raise KeyError(name)
    if base.endswith("_f32"):
        p = p.astype(np.float32)
    return np.ascontiguousarray(p)


def _req_mass_lit(c, lit):
    m = c.mesh("triangle")
    V = c.space(m, _el("Lagrange", "triangle", 1))
    u, v = ufl.TrialFunction(V), ufl.TestFunction(V)
    return "forms", [LITERALS[lit] * inner(u, v) * dx]


def _req_stokes(c):
    cell = "triangle"
    m = c.mesh(cell)
    W = c.space(m, basix.ufl.mixed_element([_el("Lagrange", cell, 2, shape=(2,)), _el("Lagrange", cell, 1)]))
    (u, p) = ufl.TrialFunctions(W)
    (v, q) = ufl.TestFunctions(W)
    return "forms", [(inner(grad(u), grad(v)) - inner(p, div(v)) + inner(div(u), q)) * dx]


def _req_quad_mass(c):
    cell = "quadrilateral"
    m = c.mesh(cell)
    V = c.space(m, _el("Lagrange", cell, 2))
    u, v = ufl.TrialFunction(V), ufl.TestFunction(V)
    f = c.coef(V)
    return "forms", [f * inner(u, v) * dx + inner(grad(u), grad(v)) * ds]


def _req_two_forms(c):
    m = c.mesh("triangle")
    V = c.space(m, _el("Lagrange", "triangle", 1))
    u, v = ufl.TrialFunction(V), ufl.TestFunction(V)
    f = c.coef(V)
    return "forms", [inner(u, v) * dx + inner(u, v) * ds(1) + inner(u, v) * ds(2), inner(f, v) * dx]


def _req_prism(c):
    return "forms", t_prism_facets(c)


def _req_expr_tri(c, pts):
    cell = "triangle"
    m = c.mesh(cell)
    V = c.space(m, _el("Lagrange", cell, 2))
    f = c.coef(V)
    k = c.const(m)
    return "expressions", [(k * f + f.dx(0), points_variant(pts))]


_EXPR_LIT_CTX: dict = {}


def _req_expr_lit(c, lit):
    """expressions that differ in one literal only, at the same points (requests a process typically makes one
    after the other, each object dying before the next is built)"""
    # the coefficient (and the points) live as long as the process, like in a program that evaluates a family of
    # expressions of one function; only the literal and the product are new for every request
    if "f" not in _EXPR_LIT_CTX:
        cell = "triangle"
        m = c.mesh(cell)
        _EXPR_LIT_CTX["f"] = c.coef(c.space(m, _el("Lagrange", cell, 1)))
        _EXPR_LIT_CTX["pts"] = points_variant("tri6")
    # ... and the process has just named the sibling expressions, each of which died before the next was built
    # (CPython then hands the same address to the next object: anything remembered per id() is stale)
    import ffcx.naming
    f, pts = _EXPR_LIT_CTX["f"], _EXPR_LIT_CTX["pts"]
    for other in ("lit2", "lit3", "lit4", "lit5"):
        if other != lit:
            e = LITERALS[other] * f
            ffcx.naming.compute_signature([(e, pts)], "sibling")
            del e
    return "expressions", [(LITERALS[lit] * f, pts)]


def _req_expr_int(c, pts):
    cell = "interval"
    m = c.mesh(cell)
    V = c.space(m, _el("Lagrange", cell, 2))
    f = c.coef(V)
    k = c.const(m)
    return "expressions", [(k * f + f.dx(0), points_variant(pts))]


def _req_form_two_mesh(c):
    cell = "triangle"
    m0, m1 = c.mesh(cell), c.mesh(cell, degree=2)
    V0 = c.space(m0, _el("Lagrange", cell, 1))
    V1 = c.space(m1, _el("Lagrange", cell, 2))
    u, v = ufl.TrialFunction(V0), ufl.TestFunction(V1)
    f, g = c.coef(V0), c.coef(V1)
    return "forms", [f * inner(u.dx(0), v.dx(0)) * dx(domain=m0) + g * inner(u, v) * dx(domain=m0)]


def _req_expr_two_mesh(c, pts):
    """An affine-mesh coefficient times the derivative of a coefficient on a quadratic mesh."""
    cell = "triangle"
    m0, m1 = c.mesh(cell), c.mesh(cell, degree=2)
    f = c.coef(c.space(m0, _el("Lagrange", cell, 1)))
    g = c.coef(c.space(m1, _el("Lagrange", cell, 2)))
    k = c.const(m1)
    return "expressions", [(f * g.dx(0) + k * g, points_variant(pts))]


def build_request(recipe: dict, route: int = 0):
    """-> (kind, objects, options dict, compile args, debug flag)"""
    c = Ctx(route)
    t = recipe["tmpl"]
    if t.startswith("mass_"):
        kind, objs = _req_mass_lit(c, t[5:])
    elif t == "stokes":
        kind, objs = _req_stokes(c)
    elif t == "quad_mass":
        kind, objs = _req_quad_mass(c)
    elif t == "two_forms":
        kind, objs = _req_two_forms(c)
    elif t == "prism":
        kind, objs = _req_prism(c)
    elif t == "expr_tri":
        kind, objs = _req_expr_tri(c, recipe["pts"])
    elif t.startswith("expr_lit"):
        kind, objs = _req_expr_lit(c, t[5:])
    elif t == "expr_int":
        kind, objs = _req_expr_int(c, recipe["pts"])
    elif t == "form_two_mesh":
        kind, objs = _req_form_two_mesh(c)
    elif t == "expr_two_mesh":
        kind, objs = _req_expr_two_mesh(c, recipe["pts"])
    else:
        raise KeyError(t)
    if recipe.get("n", 1) == 2:
        objs = objs + objs          # the same objects listed twice in one request
    args, debug = FLAGS[recipe["flag"]]
    return kind, objs, dict(OPTS[recipe["opt"]]), list(args), debug


assert sorted(ALL_TEMPLATES) == sorted(FORM_TEMPLATES), "corpus_meta.ALL_TEMPLATES out of date"
