"""S2 binding: one real Python process living one process-history of History.tla.

Run as  /venv/bin/python -m harness.histdrv.worker <job.json> <out.json>  with PYTHONHASHSEED set by the
parent to the seed of the history's Spawn (PYTHONPATH has the implementation under test first).

job = {"pid": ..., "seed": N, "texts": <dir>, "events": [event, ...]}
  {"act": "CreateJunk", "kind": mesh|space|coefficient|constant|argument|form}
  {"act": "Generate", "tmpl": <corpus template>, "route": r, "opt": <corpus.OPTS key>}
  {"act": "Name", "recipe": {...}, "route": r, "want_class": bool}

Every event is really performed (ufl/basix objects really created; Generate really calls
ffcx.compiler.compile_ufl_objects; Name really calls ffcx.codegeneration.jit.compile_forms /
compile_expressions up to the point where the C compiler would start) and answered with dumb projections:
sha1 of the text, the names, UFL's global counters.  Nothing here compares anything.

Interposition for Name is from outside the code under test (module globals of ffcx.codegeneration.jit):
  jit.get_cached_module -> records (module_name, object_names) exactly as jit computed them
  jit.cffi              -> recorder: set_source / cdef / compile(debug=) = what would be built
"""

from __future__ import annotations

import hashlib
import json
import os
import re
import sys
import tempfile
import traceback
from pathlib import Path


def sha1(s) -> str:
    if isinstance(s, str):
        s = s.encode("utf-8")
    return hashlib.sha1(s).hexdigest()


# ---------------------------------------------------------------------------
# projections of hidden state


def counters() -> dict:
    import ufl

    def peek(cls):
        c = cls._counter
        return 0 if c is None else int(repr(c)[6:-1])      # itertools.count(n) -> n

    return {"mesh": int(ufl.Mesh._ufl_global_id), "coefficient": peek(ufl.Coefficient),
            "constant": peek(ufl.Constant)}


def minus(a, b):
    return {k: a[k] - b[k] for k in a}


# ---------------------------------------------------------------------------
# UFL's notion of "the same input" (renumbering-invariant signatures)


def expr_signature(expr) -> str:
    import ufl
    from ufl.algorithms.signature import compute_expression_signature

    coeffs = sorted(ufl.algorithms.extract_coefficients(expr), key=lambda c: c.count())
    consts = sorted(ufl.algorithms.analysis.extract_constants(expr), key=lambda c: c.count())
    args = sorted(ufl.algorithms.analysis.extract_arguments(expr), key=lambda a: (a.number(), a.part() or 0))
    doms = sorted(ufl.domain.extract_domains(expr), key=lambda d: d.ufl_id())
    rn = {}
    for group in (coeffs, consts, args, doms):
        rn.update({o: i for i, o in enumerate(group)})
    return compute_expression_signature(expr, rn)


def object_signature(obj) -> str:
    import numpy as np
    import ufl

    if isinstance(obj, ufl.Form):
        return "form:" + obj.signature()
    if isinstance(obj, tuple) and isinstance(obj[0], ufl.core.expr.Expr):
        p = np.ascontiguousarray(obj[1])
        return "expr:" + expr_signature(obj[0]) + ":" + str(p.shape) + str(p.dtype) + sha1(p.tobytes())
    return "other:" + repr(obj)


def names_by_position(objs, object_names) -> list:
    """object_names is keyed by id(); rekey by where the object sits in the input."""
    import ufl

    if not object_names:
        return []
    out = []
    for i, o in enumerate(objs):
        if id(o) in object_names:
            out.append([i, object_names[id(o)]])
        if isinstance(o, ufl.Form):
            for j, c in enumerate(o.coefficients()):
                if id(c) in object_names:
                    out.append([i, "w", j, object_names[id(c)]])
            for j, c in enumerate(o.constants()):
                if id(c) in object_names:
                    out.append([i, "c", j, object_names[id(c)]])
            for j, a in enumerate(o.arguments()):
                if id(a) in object_names:
                    out.append([i, "a", j, object_names[id(a)]])
    return out


def used_ids(objs) -> dict:
    """ufl_id of the meshes and counts of the constants the objects are made of."""
    import ufl

    meshes, consts = set(), set()
    for o in objs:
        if isinstance(o, ufl.Form):
            meshes |= {d.ufl_id() for d in o.ufl_domains()}
            for itg in o.integrals():
                meshes |= {d.ufl_id() for d in ufl.domain.extract_domains(itg.integrand())}
            consts |= {c.count() for c in o.constants()}
        elif isinstance(o, tuple) and isinstance(o[0], ufl.core.expr.Expr):
            meshes |= {d.ufl_id() for d in ufl.domain.extract_domains(o[0])}
            consts |= {c.count() for c in ufl.algorithms.analysis.extract_constants(o[0])}
    return {"mesh": sorted(meshes), "constant": sorted(consts)}


def options_key(opts: dict) -> list:
    return sorted((str(k), str(v)) for k, v in opts.items())


# ---------------------------------------------------------------------------
# projections of generated C


_HASHED = re.compile(r"(form|integral|expression)_([0-9a-f]{40})")


def normalise_names(text: str, module_name: str) -> str:
    """Replace the module name and every <kind>_<sha1> object name by its order of first appearance."""
    text = text.replace(module_name, "MODULE")
    seen: dict[str, int] = {}

    def sub(m):
        k = seen.setdefault(m.group(2), len(seen))
        return f"{m.group(1)}_H{k}"

    return _HASHED.sub(sub, text)


def file_scope_definitions(src: str) -> list[str]:
    """Names defined at file scope of a C translation unit (objects with initialiser, functions with
    body), in order, with multiplicity.  The name is the last blank- or '*'-delimited word before the
    first '=', '(' or '[' of the declaration - whatever characters it is made of."""
    src = re.sub(r"/\*.*?\*/", " ", src, flags=re.S)
    src = re.sub(r"//[^\n]*", " ", src)
    src = re.sub(r'"(?:\\.|[^"\\])*"', '""', src)
    src = re.sub(r"^\s*#[^\n]*", " ", src, flags=re.M)
    out, buf, depth, had_body = [], [], 0, False
    opener = {"{": "}", "(": ")", "[": "]"}
    stack: list[str] = []

    def flush(is_def_by_body):
        stmt = "".join(buf).strip()
        buf.clear()
        if not stmt or re.match(r"(typedef|struct|union|enum)\b", stmt):
            return
        m = re.search(r"[=(\[]", stmt)
        is_def = is_def_by_body or "=" in stmt
        if not is_def or stmt.startswith("extern "):
            return
        head = stmt[: m.start()] if m else stmt
        words = [w for w in re.split(r"[\s*]+", head.strip()) if w]
        if words:
            out.append(words[-1])

    for ch in src:
        if stack:
            if ch in opener:
                stack.append(opener[ch])
            elif ch == stack[-1]:
                stack.pop()
                if not stack:
                    if ch == "}" and had_body:
                        flush(True)
                        had_body = False
            continue
        if ch in opener:
            stack.append(opener[ch])
            buf.append(ch)
            if ch == "{" and "=" not in "".join(buf):
                had_body = True            # '{' of a function body, not of an initialiser
            continue
        if ch == ";":
            flush(False)
            continue
        buf.append(ch)
    return out


# ---------------------------------------------------------------------------
# the events


class Life:
    def __init__(self, job):
        self.job = job
        self.texts = Path(job["texts"])
        self.base = None
        self.cache_dir = tempfile.mkdtemp(prefix="histdrv-", dir=job.get("tmp"))

    def store(self, sha, text):
        f = self.texts / sha
        if not f.exists():
            tmp = self.texts / f"{sha}.{os.getpid()}"
            tmp.write_text(text)
            os.replace(tmp, f)

    # -- CreateJunk -----------------------------------------------------------
    def need_base(self):
        import basix.ufl
        import ufl

        if self.base is None:
            m = ufl.Mesh(basix.ufl.element("Lagrange", "triangle", 1, shape=(2,)))
            self.base = (m, ufl.FunctionSpace(m, basix.ufl.element("Lagrange", "triangle", 1)))
        return self.base

    def junk(self, ev):
        import basix.ufl
        import ufl

        kind = ev["kind"]
        made = {"mesh": 0, "coefficient": 0, "constant": 0}
        if kind == "mesh":
            ufl.Mesh(basix.ufl.element("Lagrange", "tetrahedron", 1, shape=(3,)))
        elif kind == "space":
            m, _ = self.need_base()
            ufl.FunctionSpace(m, basix.ufl.element("Lagrange", "triangle", 2))
        elif kind == "coefficient":
            _, V = self.need_base()
            ufl.Coefficient(V)
        elif kind == "constant":
            m, _ = self.need_base()
            ufl.Constant(m)
        elif kind == "argument":
            _, V = self.need_base()
            ufl.Argument(V, 3)
        elif kind == "form":
            import ffcx.compiler
            import ffcx.options

            m, V = self.need_base()
            c0 = counters()
            f, k = ufl.Coefficient(V), ufl.Constant(m)
            u, v = ufl.TrialFunction(V), ufl.TestFunction(V)
            a = k * f * ufl.inner(ufl.grad(u), ufl.grad(v)) * ufl.dx + f * ufl.inner(u, v) * ufl.ds
            try:
                ffcx.compiler.compile_ufl_objects([a], options=ffcx.options.get_options({}), namespace="junk")
            except Exception:  # noqa: BLE001  (an option file of this process may make this generation fail, e.g.
                pass           # sum_factorization on a triangle: the junk is whatever happened up to that point)
            made = minus(counters(), c0)
        else:
            raise KeyError(kind)
        return {"made": made}

    # -- Generate -------------------------------------------------------------
    def generate(self, ev):
        import ffcx.compiler
        import ffcx.options

        from . import corpus

        c0 = counters()
        t = corpus.build(ev["tmpl"], ev.get("route", 0))
        objs, onames = t["objs"], t["object_names"]
        # one options dict per option vector and process, handed to every generation (as ffcx.main does for all the
        # files of one command line): generation must not leave anything behind in it
        if not hasattr(self, "_optdicts"):
            self._optdicts = {}
        if ev["opt"] not in self._optdicts:
            self._optdicts[ev["opt"]] = ffcx.options.get_options(dict(corpus.OPTS[ev["opt"]]))
        opts = self._optdicts[ev["opt"]]
        ns = ev["tmpl"][5:] if ev["tmpl"].startswith("demo:") else "ns"
        sigs = [object_signature(o) for o in objs]
        out_ids = used_ids(objs)
        # (the input is the option vector that was asked for, not whatever the shared dict holds by now)
        key = [sigs, names_by_position(objs, onames), options_key(ffcx.options.get_options(dict(corpus.OPTS[ev["opt"]]))), ns]
        out = {"sigkey": sha1(json.dumps(key)), "nobjs": len(objs), "ids": out_ids,
               # UFL orders some operands by the decimal *string* of these ids (ufl/sorting.py, _cmp_terminal_by_repr)
               "id_lex_ok": sorted(out_ids["mesh"]) == sorted(out_ids["mesh"], key=str)}
        try:
            kw = {"object_names": onames} if onames is not None else {}
            code, suffixes = ffcx.compiler.compile_ufl_objects(objs, options=opts, namespace=ns, **kw)
            text = "".join(f"/* ======== file{s} ======== */\n{c}\n" for c, s in zip(code, suffixes))
            out["sha"] = sha1("\0".join(code))
            out["bytes"] = sum(len(c) for c in code)
            out["kernels"] = text.count("void tabulate_tensor_")
        except (KeyboardInterrupt, SystemExit):
            raise
        except BaseException as e:  # a deterministic rejection is a value too (type only: messages carry ids;
            # BaseException because ufl's ArityMismatch is one)
            text = "".join(traceback.format_exception_only(type(e), e))
            out["sha"] = "EXC:" + type(e).__name__
            out["error"] = text[:300]
        self.store(out["sha"], text)
        out["made"] = minus(counters(), c0)
        return out

    # -- Name -----------------------------------------------------------------
    def name(self, ev):
        import ffcx.codegeneration.jit as jit

        from . import corpus, corpus_meta

        class Stop(Exception):
            pass

        recipe, want = ev["recipe"], bool(ev.get("want_class"))
        c0 = counters()
        kind, objs, options, args, debug = corpus.build_request(recipe, ev.get("route", 0))
        rec: dict = {}

        def get_cached_module(module_name, object_names, cache_dir, timeout):
            rec["modname"], rec["objnames"] = module_name, list(object_names)
            if not want:
                raise Stop()
            return None, None

        class FFI:
            def set_source(self, module_name, source, **kw):
                rec["src_module"], rec["source"], rec["build"] = module_name, source, kw

            def cdef(self, decl, **kw):
                rec["decl"] = decl

            def compile(self, tmpdir=None, verbose=False, debug=None, **kw):
                rec["debug"] = debug
                raise Stop()

        class Cffi:
            pass

        Cffi.FFI = FFI
        saved = (jit.get_cached_module, jit.cffi)
        jit.get_cached_module, jit.cffi = get_cached_module, Cffi
        # the request = what is compiled (recipe) with which options (those of the call merged over the option files)
        eff = corpus_meta.effective_options(self.job.get("conf", "none"), recipe["opt"])
        out = {"reqkey": json.dumps([{k: v for k, v in recipe.items() if k != "opt"}, eff], sort_keys=True),
               "kind": kind, "hasclass": False, "klass": "", "defs": [], "idc": []}
        try:
            fn = jit.compile_forms if kind == "forms" else jit.compile_expressions
            try:
                fn(objs, options=options, cache_dir=self.cache_dir, cffi_extra_compile_args=args, cffi_debug=debug)
                raise RuntimeError("jit returned although the build was intercepted")
            except Stop:
                pass
            except (KeyboardInterrupt, SystemExit):
                raise
            except BaseException as e:
                if "modname" not in rec:
                    raise
                out["error"] = "".join(traceback.format_exception_only(type(e), e))[:300]
        finally:
            jit.get_cached_module, jit.cffi = saved
        out["modname"], out["objnames"] = rec["modname"], rec["objnames"]
        out["defs"] = list(rec["objnames"])
        if want and "source" in rec and "debug" in rec:
            m = rec["modname"]
            if rec["src_module"] != m:
                raise RuntimeError("set_source got another module name than get_cached_module")
            src = normalise_names(rec["source"], m)
            decl = normalise_names(rec["decl"], m)
            b = rec["build"]
            what = {"source": sha1(src), "decl": sha1(decl), "compile_args": list(b.get("extra_compile_args") or []),
                    "libraries": list(b.get("libraries") or []), "debug": bool(rec["debug"])}
            out["klass"] = sha1(json.dumps(what, sort_keys=True))
            out["klass_parts"] = what
            out["hasclass"] = True
            self.store(what["source"], src)
            out["defs"] = file_scope_definitions(rec["source"])
        elif want:
            out["klass"] = "EXC"
        out["idc"] = [[ord(ch) for ch in n] for n in out["defs"]]
        out["made"] = minus(counters(), c0)
        return out

    def run(self):
        res = []
        for ev in self.job["events"]:
            act = ev["act"]
            r = dict(ev)
            r["proc"], r["seed"], r["conf"] = self.job["pid"], self.job["seed"], self.job.get("conf", "none")
            if act == "CreateJunk":
                r.update(self.junk(ev))
            elif act == "Generate":
                r.update(self.generate(ev))
            elif act == "Name":
                r.update(self.name(ev))
            else:
                raise KeyError(act)
            r["cnt"] = counters()
            res.append(r)
        return res


def install_option_files(job) -> None:
    """Give the process the option files of its Spawn: a private working directory (with or without
    ffcx_options.json) and a private XDG_CONFIG_HOME (with or without ffcx/ffcx_options.json).  Must
    happen before the first ffcx.options.get_options() of the process (the files are read once)."""
    from . import corpus_meta as meta

    home = Path(tempfile.mkdtemp(prefix="conf-", dir=job.get("tmp")))
    (home / "cwd").mkdir()
    (home / "xdg" / "ffcx").mkdir(parents=True)
    for where, opts in meta.CONF[job.get("conf", "none")]:
        f = home / "cwd" / "ffcx_options.json" if where == "pwd" else home / "xdg" / "ffcx" / "ffcx_options.json"
        f.write_text(json.dumps(opts))
    os.environ["XDG_CONFIG_HOME"] = str(home / "xdg")
    os.chdir(home / "cwd")
    import ffcx.options

    info = getattr(getattr(ffcx.options, "_load_options", None), "cache_info", None)
    if info is not None and info().currsize:
        raise RuntimeError("option files were already read in this process")


def live(job) -> dict:
    try:
        install_option_files(job)
    except Exception:
        return {"pid": job["pid"], "error": traceback.format_exc()}
    life = Life(job)
    try:
        return {"pid": job["pid"], "events": life.run()}
    except Exception:
        return {"pid": job["pid"], "error": traceback.format_exc()}
    finally:
        import shutil

        shutil.rmtree(life.cache_dir, ignore_errors=True)


def preload():
    """What every interpreter that uses FFCx imports sooner or later; creates no UFL object."""
    import importlib

    import basix.ufl  # noqa: F401
    import numpy  # noqa: F401
    import ufl  # noqa: F401

    import ffcx.codegeneration.jit  # noqa: F401
    import ffcx.compiler  # noqa: F401
    import ffcx.options  # noqa: F401

    for m in ("integral", "form", "expression", "file"):
        importlib.import_module("ffcx.codegeneration.C." + m)
    from . import corpus  # noqa: F401


def main():
    doc = json.loads(Path(sys.argv[1]).read_text())
    jobs = doc["jobs"]
    for job in jobs:
        if str(job["seed"]) != os.environ.get("PYTHONHASHSEED"):
            raise SystemExit(f"PYTHONHASHSEED={os.environ.get('PYTHONHASHSEED')} but the history says {job['seed']}")
    out = []
    if not doc.get("zygote"):
        if len(jobs) != 1:
            raise SystemExit("a brand-new interpreter lives exactly one history")
        out.append(live(jobs[0]))
    else:
        # zygote: import, create nothing, fork one child per history (a child inherits the hash seed and
        # an interpreter in which no UFL object was ever made and nothing was compiled)
        preload()
        if counters() != {"mesh": 0, "coefficient": 0, "constant": 0}:
            raise SystemExit(f"zygote is not pristine: {counters()}")
        import gc
        import signal

        gc.collect()
        gc.freeze()       # keeps the collector from touching (= copying) the imported modules in every child
        for job in jobs:
            r, w = os.pipe()
            pid = os.fork()
            if pid == 0:
                code = 0
                try:
                    os.close(r)
                    signal.alarm(900)
                    try:
                        data = json.dumps(live(job)).encode()
                    except BaseException:
                        data = json.dumps({"pid": job["pid"], "error": traceback.format_exc()}).encode()
                    with os.fdopen(w, "wb") as f:
                        f.write(data)
                except BaseException:
                    code = 1
                finally:
                    os._exit(code)
            os.close(w)
            with os.fdopen(r, "rb") as f:
                data = f.read()
            _, status = os.waitpid(pid, 0)
            if status != 0 or not data:
                out.append({"pid": job["pid"], "error": f"child of zygote died with status {status}"})
            else:
                out.append(json.loads(data))
    Path(sys.argv[2]).write_text(json.dumps(out))


if __name__ == "__main__":
    main()
