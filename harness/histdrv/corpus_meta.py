"""Names and plain data of the S2 corpus (no UFL import: shared by the check process and the children)."""

from __future__ import annotations

from pathlib import Path

ALL_TEMPLATES = ["p1_poisson_tri", "p2_poisson_tri", "mixed3_tri", "two_mesh_tri", "prism_facets", "multi_degree_tri",
                 "elasticity_tet", "interior_facet_tri", "quad_q2", "subdomains_tri", "math_tri", "two_const_tri", "hdiv_hcurl_tri",
                 "manifold_tri", "p2_geometry_tri", "hex_q1", "mixed_dim_geo", "tp_quad_q2", "tp_hex_q2", "expr_p2_tri", "expr_vec_tet",
                 "g_p1_q2", "g_iso_q2", "g_p2_q2", "g_dg1_q2", "g_p1vec_q2", "g_p3_gll_q4", "g_p3_equi_q4",
                 "g_dp3_legendre_q4", "g_custom_w1", "g_custom_w2", "g_custom_w1_p2", "g_q1_quad_q2", "g_dq1_quad_q2",
                 "g_tpq1_quad_q2"]

QUICK = ["p1_poisson_tri", "p2_poisson_tri", "mixed3_tri", "two_mesh_tri", "prism_facets", "multi_degree_tri",
         "elasticity_tet", "interior_facet_tri", "tp_quad_q2", "two_const_tri", "expr_p2_tri", "mixed_dim_geo"]

# Templates that share every plausible memo key within a group: the same cell, quadrature degree and scheme, the same
# form shape (mass + stiffness + boundary mass, so the same table shapes where the spaces have equal dimension) - they
# differ in the element's variant / polyset / continuity / value shape, or in the weights of a custom rule only.
# "B after A in one process" is lived for every ordered pair of a group.
GROUPS = {
    "tri_q2": ["g_p1_q2", "g_iso_q2", "g_p2_q2", "g_dg1_q2", "g_p1vec_q2"],
    "tri_p3_q4": ["g_p3_gll_q4", "g_p3_equi_q4", "g_dp3_legendre_q4"],
    "tri_custom": ["g_custom_w1", "g_custom_w2", "g_custom_w1_p2"],
    "quad_q2": ["g_q1_quad_q2", "g_dq1_quad_q2", "g_tpq1_quad_q2"],
}
GROUP_TEMPLATES = [t for g in GROUPS.values() for t in g]

# measured generation cost in seconds where it is far from the typical 0.02-0.1 s
COST = {"demo:HyperElasticity": 3.2, "demo:BiharmonicRegge": 0.9, "demo:BiharmonicHHJ": 0.3, "demo:MassAction": 0.15,
        "prism_facets": 0.12, "elasticity_tet": 0.12, "demo:CellGeometry": 0.12}

OPTS = {
    "default": {},
    "float32": {"scalar_type": "float32"},
    "complex64": {"scalar_type": "complex64"},
    "complex128": {"scalar_type": "complex128"},
    "sumfact": {"sum_factorization": True},
    "epsilon": {"epsilon": 1e-7},
    "table_rtol": {"table_rtol": 1e-3},
    "table_atol": {"table_atol": 1e-6},
    "diagonal": {"part": "diagonal"},
    "verbosity": {"verbosity": 40},
}

FLAGS = {
    "O2": (["-O2"], False),
    "none": ([], False),
    "O2_g": (["-O2", "-g"], False),
    "g_O2": (["-g", "-O2"], False),
    "O2_g_g0": (["-O2", "-g", "-g0"], False),
    "O3": (["-O3"], False),
    "O2_debug": (["-O2"], True),
}

LITERALS = {"lit2": 2.0, "lit2_eps": 2.0 + 1e-10, "lit2_ulp": 2.0000000000000004, "lit3": 3.0, "lit4": 4.0, "lit5": 5.0}

# request templates of the C13 algebra
REQ_FORMS = ["mass_lit2", "mass_lit2_eps", "mass_lit2_ulp", "mass_lit3", "stokes", "quad_mass", "two_forms", "prism",
             "form_two_mesh"]
REQ_EXPRS = ["expr_tri", "expr_int", "expr_two_mesh", "expr_lit2", "expr_lit3", "expr_lit4", "expr_lit5"]
# requests whose objects live on two ufl.Mesh objects (named under every seed and several id offsets)
REQ_TWO_MESH = ["form_two_mesh", "expr_two_mesh"]

# option files a process can be given: (where, options) - "pwd" = $PWD/ffcx_options.json,
# "xdg" = $XDG_CONFIG_HOME/ffcx/ffcx_options.json.  Only options that change the generated code.
CONF = {
    "none": [],
    "pwd_f32": [("pwd", {"scalar_type": "float32"})],
    "xdg_f32": [("xdg", {"scalar_type": "float32"})],
    "pwd_c128": [("pwd", {"scalar_type": "complex128"})],
    "pwd_eps": [("pwd", {"epsilon": 1e-7})],
    "xdg_rtol": [("xdg", {"table_rtol": 1e-3})],
    "pwd_atol": [("pwd", {"table_atol": 1e-6})],
    "xdg_sumfact": [("xdg", {"sum_factorization": True})],
    "xdg_f32_pwd_eps": [("xdg", {"scalar_type": "float32"}), ("pwd", {"epsilon": 1e-7})],
}


def effective_options(conf: str, opt: str) -> list:
    """The non-default options a request is compiled with: user file < local file < options of the call."""
    eff: dict = {}
    for where in ("xdg", "pwd"):
        for w, o in CONF[conf]:
            if w == where:
                eff.update(o)
    eff.update(OPTS[opt])
    return sorted((k, repr(v)) for k, v in eff.items())

# evaluation-point variants: <base>[+<perturbation>]; a perturbation is what a lossy rendering may hide
PTS_BASE = ["tri6", "tri600", "tri6_f32", "tri6_dyadic", "tri6_dyadic_f32"]
PTS_HID = ["none", "eps", "mid"]


def demo_names(repo: Path) -> list[str]:
    return sorted(p.stem for p in (Path(repo) / "demo").glob("*.py") if p.stem != "test_demos")
