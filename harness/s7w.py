"""Worker for engine S7 (TableOpt): realises table descriptions on the REAL pipeline.

  /venv/bin/python -m harness.s7w <job.json> <out.json>

For every item (a description validated by TableOptConform.tla in "emit" mode, together with the raw tables TLC
printed for it) a real UFL form / expression is compiled through the unmodified ffcx (jit.compile_forms /
compile_expressions, gcc), with two interpositions made IN THIS PROCESS ONLY:

  * ffcx.ir.elementtables.get_ffcx_table_values is wrapped: for the two marked elements (degree-1 Lagrange variants
    that are not the coordinate element: "A" = argument, "B" = coefficient; value tables only, no derivatives) the
    tabulated array is replaced by the injected slice; everything else (geometry tables) passes through.  Which
    form is being compiled is recognised from the custom quadrature rule (every form of a module has its own), the
    permutation slot from the permuted points ffcx hands over (compared with the harness's own permutation of the
    rule: s5.perm_point).
  * ffcx.ir.integral.build_optimized_tables is wrapped to set that context and to record the UniqueTableReferenceT
    fields of the marked terminals in the order they were processed.

The compiled kernels are then run for every (entity, permutation) request on the integer cells of TableSpace.tla and
every tensor entry r is projected to integers (n0 = round(128 r), n1 = round((128 r - n0) / 4e-10)).  Nothing is
judged here: the records go to TableOptConform.tla.
"""

from __future__ import annotations

import json
import sys
import traceback
from fractions import Fraction as Fr

import numpy as np

from . import common, s5

EPS = 1e-10
VERTS = {"triangle": [[0, 0, 0], [3, 0, 0], [0, 4, 0]],                       # = TableSpace!Verts (checked by the judge)
         "tetrahedron": [[0, 0, 0], [1, 0, 0], [0, 1, 0], [0, 0, 2]]}
COEF = [[1, 2, -1, 3], [2, -1, 1, -2]]                                         # coefficient data per side
TDIM = {"triangle": 2, "tetrahedron": 3}
BASE_PTS = {1: [[Fr(1, 8)], [Fr(5, 8)], [Fr(3, 8)], [Fr(13, 16)]],
            2: [[Fr(1, 8), Fr(1, 4)], [Fr(1, 2), Fr(1, 8)], [Fr(1, 4), Fr(1, 2)], [Fr(1, 16), Fr(5, 8)]],
            3: [[Fr(1, 8), Fr(1, 4), Fr(1, 16)], [Fr(1, 2), Fr(1, 8), Fr(1, 8)], [Fr(1, 4), Fr(1, 2), Fr(1, 16)],
                [Fr(1, 16), Fr(1, 8), Fr(1, 2)]]}


def val(m, k):
    return float(Fr(m, 4) + Fr(k, 10**10))


def project_val(v):
    m = int(round(4 * v))
    k = int(round((v - m / 4) / EPS))
    return [m, k], bool(v == val(m, k))


def to_array(tab):
    """nested [p][e][q][d] of [m, k] -> float array"""
    a = np.array([[[[val(m, k) for m, k in row] for row in ent] for ent in perm] for perm in tab], dtype=np.float64)
    assert a.ndim == 4
    return a


def shape_of(kind, cell, nq):
    tri = cell == "triangle"
    P = (2 if tri else 6) if kind in ("interior_facet", "expr_facet") else 1
    E = 1 if kind in ("cell", "expr_cell") else (3 if tri else 4)
    return (P, E, nq, 3 if tri else 4)


def point_dim(kind, cell):
    td = TDIM[cell]
    return {"cell": td, "expr_cell": td, "vertex": 0}.get(kind, td - 1)


def rule_for(kind, cell, nq, slot):
    """A rule no other form of the module has; asymmetric under every facet permutation."""
    pd = point_dim(kind, cell)
    if pd == 0:
        pts = np.zeros((1, 0))
    else:
        pts = np.array([[float(c) for c in p] for p in BASE_PTS[pd][:nq]], dtype=np.float64)
        pts[:, 0] += slot / 512.0
    w8 = [1 + ((slot + q) % 4) for q in range(nq)]
    if kind == "vertex":
        w8 = [1 + slot]                    # the only thing that tells two vertex rules apart (slot < 8)
    return pts, w8


def permuted_points(kind, cell, pts):
    """The harness's own image of the rule under every permutation slot (NOT ffcx's functions)."""
    P = shape_of(kind, cell, len(pts))[0]
    if P == 1:
        return [pts]
    fcell = "interval" if cell == "triangle" else "triangle"
    return [np.array([s5.perm_point(fcell, code, list(p)) for p in pts], dtype=np.float64) for code in range(P)]


def requests(kind, cell, nq, full):
    P, E, _, _ = shape_of(kind, cell, nq)
    if kind in ("cell", "expr_cell"):
        return [([0], [0])]
    if kind in ("exterior_facet", "vertex"):
        return [([e], [0]) for e in range(E)]
    if kind == "expr_facet":
        return [([e], [p]) for e in range(E) for p in range(P)]
    out = []
    for e in range(E):                       # every entity and every code on each side, the two sides always different
        for p in range(P):
            out.append(([e, (e + 1 + p % (E - 1)) % E], [p, (p + 1 + e % (P - 1)) % P]))
    if full:
        seen = {(tuple(a), tuple(b)) for a, b in out}
        for ep in range(E):
            for em in range(E):
                for pp in range(P):
                    for pm in range(P):
                        if ((ep, em), (pp, pm)) not in seen:
                            out.append(([ep, em], [pp, pm]))
    return out


class Ctx:
    items: list = []          # items of the module being compiled
    cur = None                # item whose tables are being built


def install():
    common.ensure_repo_on_path()
    import ffcx.ir.elementtables as et
    import ffcx.ir.integral as ii
    import ufl

    orig_values = et.get_ffcx_table_values
    orig_build = et.build_optimized_tables

    def values(points, cell, integral_type, element, avg, entity_type, derivative_counts, flat_component, codim):
        r = orig_values(points, cell, integral_type, element, avg, entity_type, derivative_counts, flat_component, codim)
        it = Ctx.cur
        if it is None or avg is not None or any(derivative_counts):
            return r
        role = "A" if element == it["elA"] else "B" if element == it["elB"] else None
        if role is None or it["arr"].get(role) is None:
            return r
        pts = np.asarray(points, dtype=np.float64).reshape(it["pts"].shape)
        slot = None
        for p, pp in enumerate(it["perm_pts"]):
            if np.allclose(pts, pp, rtol=0, atol=1e-12):
                slot = p
                break
        n = it["ncalls"].get(role, 0)
        it["ncalls"][role] = n + 1
        P = it["arr"][role].shape[0]
        if slot is None:                                   # not an image of the rule: recorded, judged by TLC (perm-points)
            it["permok"] = False
            slot = n % P
        t = it["arr"][role][slot:slot + 1]
        if r["array"].shape != t.shape:
            raise common.MachineryError(f"S7: tabulated shape {r['array'].shape} but the description has {t.shape} ({it['id']})")
        it["slots"].setdefault(role, []).append(slot)
        r["array"] = t.copy()
        return r

    def build(quadrature_rule, *a, **k):
        Ctx.cur = None
        qp = np.asarray(quadrature_rule.points, dtype=np.float64)
        qw = np.asarray(quadrature_rule.weights, dtype=np.float64)
        for it in Ctx.items:
            if qp.shape == it["pts"].shape and qw.shape == it["wts"].shape and np.allclose(qp, it["pts"], rtol=0, atol=1e-13) \
                    and np.allclose(qw, it["wts"], rtol=0, atol=1e-13):
                Ctx.cur = it
        try:
            out = orig_build(quadrature_rule, *a, **k)
        finally:
            it, Ctx.cur = Ctx.cur, None
        if it is not None:
            names_inj, names_other = {}, set()
            for mt, tr in out.items():
                if isinstance(mt, str):
                    continue
                term = mt.terminal
                role = None
                if isinstance(term, (ufl.classes.Argument, ufl.classes.Coefficient)) and not mt.local_derivatives \
                        and not mt.global_derivatives:
                    el = term.ufl_function_space().ufl_element()
                    role = "A" if el == it["elA"] else "B" if el == it["elB"] else None
                if role is None:
                    names_other.add(tr.name)
                    continue
                vals = np.asarray(tr.values, dtype=np.float64)
                proj = [[[[project_val(float(x)) for x in row] for row in ent] for ent in perm] for perm in vals]
                names_inj.setdefault(tr.name, len(it["mts"]) + 1)
                it["mts"].append({"role": role, "restriction": mt.restriction or "", "ttype": tr.ttype,
                                  "shape": [int(s) for s in vals.shape], "isperm": bool(tr.is_permuted),
                                  "vals": [[[[x[0] for x in row] for row in ent] for ent in perm] for perm in proj],
                                  "exact": all(x[1] for perm in proj for ent in perm for row in ent for x in row),
                                  "nameix": names_inj[tr.name], "name": tr.name,
                                  "offset": int(tr.offset), "block_size": int(tr.block_size)})
            if set(names_inj) & names_other:
                it["geomshare"] = sorted(set(names_inj) & names_other)
        return out

    et.get_ffcx_table_values = values
    et.build_optimized_tables = build
    ii.build_optimized_tables = build


def make_item(it, slot):
    """UFL object(s) for one description."""
    import basix
    import basix.ufl as bu
    import ufl

    d = it["desc"]
    kind, cell, form = d["kind"], d["cell"], d["form"]
    td = TDIM[cell]
    dom = ufl.Mesh(bu.element("Lagrange", cell, 1, shape=(td,)))
    elA = bu.element("Lagrange", cell, 1, lagrange_variant=basix.LagrangeVariant.gll_isaac)
    elB = bu.element("Lagrange", cell, 1, lagrange_variant=basix.LagrangeVariant.equispaced)
    assert elA != elB and elA != dom.ufl_coordinate_element().sub_elements[0] and elB != dom.ufl_coordinate_element().sub_elements[0]
    VA, VB = ufl.FunctionSpace(dom, elA), ufl.FunctionSpace(dom, elB)
    v, u, f = ufl.TestFunction(VA), ufl.TrialFunction(VA), ufl.Coefficient(VB)
    pts, w8 = rule_for(kind, cell, d["nq"], slot)
    P, E, Q, D = shape_of(kind, cell, d["nq"])
    it.update(elA=elA, elB=elB, pts=pts, w8=w8, slotno=slot, mts=[], ncalls={}, slots={}, permok=True,
              perm_pts=permuted_points(kind, cell, pts),
              arr={r: (to_array(it["tabs"][r]) if it["tabs"].get(r) else None) for r in ("A", "B")})
    for r in ("A", "B"):
        if it["arr"][r] is not None and it["arr"][r].shape != (P, E, Q, D):
            raise common.MachineryError(f"S7: table {r} of {it['id']} has shape {it['arr'][r].shape}, expected {(P, E, Q, D)}")
    if kind in ("expr_cell", "expr_facet"):
        it["wts"] = np.ones(len(pts))
        e = {"v": v, "fv": f * v, "f": f}[form]
        it["ufl"] = (e, pts)
        return
    it["wts"] = np.array([w / 8.0 for w in w8], dtype=np.float64)
    md = {"quadrature_rule": "custom", "quadrature_points": pts, "quadrature_weights": it["wts"]}
    M = {"cell": ufl.dx, "exterior_facet": ufl.ds, "vertex": ufl.dP, "interior_facet": ufl.dS}[kind]

    def side(x, s):
        return x("+" if s == 0 else "-") if kind == "interior_facet" else x

    sa, sb = d["sa"], d["sb"]
    integrand = {"v": lambda: side(v, sa), "fv": lambda: side(f, sb) * side(v, sa),
                 "uv": lambda: side(u, sb) * side(v, sa), "f": lambda: side(f, sb)}[form]()
    it["ufl"] = integrand * M(metadata=md)


def compile_module(items, opts, isexpr, tag):
    import ffcx.codegeneration.jit as jit

    Ctx.items = items
    cache = common.scratch(f"s7jit/{tag}")
    o = {"scalar_type": "float64"}
    o.update(opts)
    objs_ = [it["ufl"] for it in items]
    if isexpr:
        objs, module, _ = jit.compile_expressions(objs_, options=o, cache_dir=cache, cffi_extra_compile_args=["-O0"])
    else:
        objs, module, _ = jit.compile_forms(objs_, options=o, cache_dir=cache, cffi_extra_compile_args=["-O0"])
    return objs, module


def run_item(it, obj, module, isexpr, full):
    d = it["desc"]
    kind, cell, form = d["kind"], d["cell"], d["form"]
    P, E, Q, D = shape_of(kind, cell, d["nq"])
    ns = 2 if kind == "interior_facet" else 1
    ffi = module.ffi
    if isexpr:
        kernels = [obj]
        n = Q if form == "f" else Q * D
    else:
        t = s5.ITYPES.index(kind)
        lo, hi = obj.form_integral_offsets[t], obj.form_integral_offsets[t + 1]
        kernels = [obj.form_integrals[i] for i in range(lo, hi)]
        n = 1 if form == "f" else (ns * D) ** 2 if form == "uv" else ns * D
    it["nkernels"] = len(kernels)
    x = np.zeros((ns, len(VERTS[cell]), 3), dtype=np.float64)
    for s in range(ns):
        x[s] = np.array(VERTS[cell], dtype=np.float64)
    c = [COEF[s][:D] for s in range(ns)]
    w = np.array([z for s in range(ns) for z in c[s]], dtype=np.float64)
    reqs = []
    for ent, perm in requests(kind, cell, d["nq"], full):
        A = np.zeros(n, dtype=np.float64)
        e_ = np.array((ent + [0])[:2], dtype=np.int32)
        p_ = np.array((perm + [0])[:2], dtype=np.uint8)
        for kern in kernels:
            kern.tabulate_tensor_float64(ffi.cast("double *", A.ctypes.data), ffi.cast("double *", w.ctypes.data), ffi.NULL,
                                         ffi.cast("double *", x.ctypes.data), ffi.cast("int *", e_.ctypes.data),
                                         ffi.cast("uint8_t *", p_.ctypes.data), ffi.NULL)
        n0, n1, ok = [], [], True
        for r in A:
            if not np.isfinite(r) or abs(r) > 2.0**22:
                ok = False
                n0.append(0)
                n1.append(0)
                continue
            a = int(round(128.0 * r))
            n0.append(a)
            n1.append(int(round((128.0 * r - a) / (4 * EPS))))
        reqs.append({"ent": ent, "perm": perm, "n0": n0, "n1": n1, "ok": ok, "A": [float(r) for r in A]})
    it["reqs"] = reqs
    it["c"] = c


def record_of(it):
    rec = {"id": it["id"], "desc": it["desc"], "error": it.get("error"), "tb": it.get("tb"), "slots": it.get("slots", {})}
    if it.get("error"):
        return rec
    rec.update(roles=[m["role"] for m in it["mts"]],
               mts=[{k: m[k] for k in ("role", "ttype", "shape", "isperm", "vals", "exact", "nameix")} for m in it["mts"]],
               mtinfo=[{k: m[k] for k in ("role", "restriction", "name", "offset", "block_size")} for m in it["mts"]],
               permok=it["permok"], w8=it["w8"], c=it["c"], x=VERTS[it["desc"]["cell"]],
               reqs=[{k: r[k] for k in ("ent", "perm", "n0", "n1", "ok")} for r in it["reqs"]],
               sampleA=it["reqs"][0]["A"][:6] if it["reqs"] else [], geomshare=it.get("geomshare"), nkernels=it["nkernels"])
    return rec


def main():
    job = json.loads(open(sys.argv[1]).read())
    install()
    out = []
    for mi, mod in enumerate(job["modules"]):
        items = mod["items"]
        isexpr = mod["isexpr"]
        for slot, it in enumerate(items):
            make_item(it, slot)
        keys = {(it["pts"].tobytes(), it["wts"].tobytes()) for it in items}
        if len(keys) != len(items) or len(items) > 8:
            raise common.MachineryError("S7: two forms of one module share a quadrature rule")
        try:
            objs, module = compile_module(items, mod["options"], isexpr, f"{job['tag']}-{mi}")
            compiled = [(items, objs, module)]
        except common.MachineryError:
            raise
        except Exception:  # noqa: BLE001  one bad form must not hide the others: compile them one by one
            compiled = []
            for k, it in enumerate(items):
                it.update(mts=[], ncalls={}, slots={}, permok=True)
                try:
                    objs, module = compile_module([it], mod["options"], isexpr, f"{job['tag']}-{mi}-{k}")
                    compiled.append(([it], objs, module))
                except common.MachineryError:
                    raise
                except Exception as e:  # noqa: BLE001
                    it["error"] = f"{type(e).__name__}: {str(e)[:300]}"
                    it["tb"] = traceback.format_exc()[-2000:]
        for its, objs, module in compiled:
            for it, obj in zip(its, objs):
                try:
                    run_item(it, obj, module, isexpr, job.get("full", False))
                except common.MachineryError:
                    raise
                except Exception as e:  # noqa: BLE001
                    it["error"] = f"run: {type(e).__name__}: {str(e)[:300]}"
                    it["tb"] = traceback.format_exc()[-2000:]
        for it in items:
            out.append(record_of(it))
    json.dump(out, open(sys.argv[2], "w"))


if __name__ == "__main__":
    main()
