"""Engine S5: Fem.tla (exact rational reference semantics) <-> real generated kernels.

Flow: UFL form --(UFL physical-space lowering only)--> integrand tree + rule + raw basix tabulations
      --> TLC evaluates Fem.tla on integer geometry/data --> exact tensor + magnitude bound
      real kernel (ffcx JIT, cffi) on the same data --> floats; compared entry by entry with the bound.
"""

from __future__ import annotations

import json
import math
import random
from concurrent.futures import ThreadPoolExecutor
from dataclasses import dataclass, field
from fractions import Fraction as Fr

import numpy as np

from . import ratrules, tlc
from .basisx import OutOfModel, Space, fr, frac, tabulate_raw
from .common import MachineryError, ensure_repo_on_path, scratch

EPS = {"float32": 2.0**-24, "float64": 2.0**-53, "complex64": 2.0**-24, "complex128": 2.0**-53}
REAL_OF = {"float32": "float32", "float64": "float64", "complex64": "float32", "complex128": "float64"}
CTYPE = {"float32": "float", "float64": "double", "complex64": "float _Complex", "complex128": "double _Complex"}
# positions in ufcx_form.form_integral_offsets (ufcx.h: cell = 0, exterior_facet = 1, interior_facet = 2, vertex = 3, ridge = 4;
# the offsets array has one entry more than there are types)
ITYPES = ["cell", "exterior_facet", "interior_facet", "vertex", "ridge"]


# ---------------------------------------------------------------------------
# reference-cell facts the harness needs to *request* tabulations (Fem.tla recomputes the points
# from its own RefCell tables and refuses the case if they differ)

def ref_geometry(cell):
    import basix
    ct = basix.CellType[cell]
    return np.asarray(basix.geometry(ct)), basix.topology(ct)


def facet_cellname(cell, f):
    if cell == "interval":
        return "vertex"
    if cell in ("triangle", "quadrilateral"):
        return "interval"
    if cell == "tetrahedron":
        return "triangle"
    if cell == "hexahedron":
        return "quadrilateral"
    if cell == "prism":
        return "triangle" if f in (0, 4) else "quadrilateral"
    raise ValueError(cell)


def perm_point(fcell, code, xi):
    xi = list(xi)
    if fcell == "vertex":
        return xi
    if fcell == "interval":
        return [1 - xi[0]] if code % 2 else xi
    rot, ref = code // 2, code % 2
    for _ in range(rot):
        xi = [xi[1], 1 - xi[0] - xi[1]] if fcell == "triangle" else [xi[1], 1 - xi[0]]
    if ref:
        xi = [xi[1], xi[0]]
    return xi


def facet_point(cell, f, xi):
    geom, topo = ref_geometry(cell)
    tdim = geom.shape[1]
    fv = topo[tdim - 1][f]
    v0 = [Fr(int(round(c))) for c in geom[fv[0]]]
    X = list(v0)
    for a in range(tdim - 1):
        va = [Fr(int(round(c))) for c in geom[fv[a + 1]]]
        X = [x + xi[a] * (p - q) for x, p, q in zip(X, va, v0)]
    return X


def ridge_cellname(cell):
    """Reference cell of the ridges (codimension 2): edges of 3D cells, vertices of 2D cells."""
    return {"triangle": "vertex", "quadrilateral": "vertex", "tetrahedron": "interval", "hexahedron": "interval",
            "prism": "interval"}[cell]


def ridge_vertices(cell, r):
    """Vertex numbers (0-based, basix's sub-entity numbering) of ridge r."""
    geom, topo = ref_geometry(cell)
    tdim = geom.shape[1]
    if tdim < 2:
        raise OutOfModel("ridges need a cell of dimension >= 2")
    return [int(v) for v in topo[tdim - 2][r]]


def ridge_point(cell, r, xi):
    """X(s) = V_a + s (V_b - V_a) on ridge r = (a, b) of a 3D cell; the vertex itself on a 2D cell."""
    geom, _ = ref_geometry(cell)
    rv = ridge_vertices(cell, r)
    va = [Fr(int(round(c))) for c in geom[rv[0]]]
    if len(rv) == 1:
        return va
    vb = [Fr(int(round(c))) for c in geom[rv[1]]]
    return [a + xi[0] * (b - a) for a, b in zip(va, vb)]


def nperms(fcell):
    return {"vertex": 1, "interval": 2, "triangle": 6, "quadrilateral": 8}[fcell]


# ---------------------------------------------------------------------------

@dataclass
class Part:
    tree: dict
    aleaves: list
    cleaves: list
    pts: list            # reference-entity points (Fractions)
    wts: list
    uses_normal: bool
    nderiv: int
    mode: str            # "custom" | "vertex" | "exact"
    has_cond: bool = False
    ftabs: list = field(default_factory=list)
    geos: list = field(default_factory=list)
    entity_cell: str = ""


@dataclass
class Program:
    """Everything Fem.tla needs to know about one kernel = (form, integral type, subdomain id)."""
    form_index: int
    itype: str
    subdomain_id: int
    cell: str
    tdim: int
    gdim: int
    rank: int
    scalar: str
    spaces: dict           # name -> Space
    args: list             # names
    coefs: list            # names (kernel order = reduced coefficient order)
    coef_dims: list
    const_sizes: list
    coord: str
    parts: list
    diagonal: bool = False
    raw_names: dict = field(default_factory=dict)
    label: str = ""
    etype: str = "cell"          # expressions: where the evaluation points live (cell | facet)
    value_shape: tuple = ()

    def describe(self):
        def names(raw):
            return self.raw_names[repr(raw)][0]
        sp = {n: s.describe(names) for n, s in self.spaces.items()}
        return {"cell": self.cell, "tdim": self.tdim, "gdim": self.gdim, "itype": self.itype,
                "rank": self.rank, "args": self.args, "coefs": self.coefs, "coord": self.coord,
                "spaces": sp, "diagonal": self.diagonal, "etype": self.etype}

    @property
    def nsides(self):
        return 2 if self.itype == "interior_facet" else 1

    def nentities(self):
        geom, topo = ref_geometry(self.cell)
        if self.itype == "cell" or (self.itype == "expression" and self.etype == "cell"):
            return 1
        if self.itype == "vertex":
            return len(topo[0])
        if self.itype == "ridge":
            return len(topo[self.tdim - 2])
        return len(topo[self.tdim - 1])


def programs_of_form(form, form_index, scalar, exact_ok=True, diagonal=False, label=""):
    """The oracle's view of a form: one Program per (integral type, subdomain id)."""
    ensure_repo_on_path()
    import ufl

    from .ufl2tree import Treeifier, lower_integrand, physical_form_data

    cx = scalar.startswith("complex")
    fd = physical_form_data(form, cx)
    orig = fd.original_form
    coefs = list(fd.reduced_coefficients)
    repl = fd.function_replace_map
    coef_index = {repl[c]: i for i, c in enumerate(coefs)}
    coef_index.update({c: i for i, c in enumerate(coefs)})
    consts = list(orig.constants())
    const_index = {c: i for i, c in enumerate(consts)}
    arguments = sorted(orig.arguments(), key=lambda a: a.number())
    progs = []
    for idata in fd.integral_data:
        dom = idata.domain
        cell = dom.ufl_cell().cellname
        xel = dom.ufl_coordinate_element()
        gdim = xel.reference_value_shape[0]
        tdim = dom.ufl_cell().topological_dimension
        spaces, raw_names = {}, {}

        def add_space(name, el):
            s = Space(el)
            spaces[name] = s
            for sub in s.subs:
                raw_names.setdefault(repr(sub["raw"]), (f"E{len(raw_names) + 1}", sub))
            return name

        coord = add_space("X", xel)
        args = [add_space(f"A{a.number()}", a.ufl_element()) for a in arguments]
        cnames = [add_space(f"W{i}", c.ufl_element()) for i, c in enumerate(coefs)]
        sid = idata.subdomain_id
        sid = sid[0] if isinstance(sid, tuple) and len(sid) == 1 else sid
        sid = -1 if sid == "otherwise" else sid
        parts = []
        for itg in idata.integrals:
            tf = Treeifier(coef_index, const_index, complex_mode=cx)
            tree = tf.tree(lower_integrand(itg.integrand(), cx))
            md = itg.metadata()
            ecell = (cell if idata.integral_type == "cell" else
                     "vertex" if idata.integral_type == "vertex" else None)
            rule = md.get("quadrature_rule", "default")
            qel = [e for e in ufl.algorithms.extract_elements(itg) if getattr(e, "has_custom_quadrature", False)]
            if qel:
                qp, qw = qel[0].custom_quadrature()
                md = dict(md, quadrature_points=qp, quadrature_weights=qw)
                rule = "custom"
            if rule == "custom":
                pts = [[frac(c, "custom quadrature point") for c in np.atleast_1d(p)] for p in md["quadrature_points"]]
                wts = [frac(w, "custom quadrature weight") for w in md["quadrature_weights"]]
                mode = "custom"
            elif rule == "vertex":
                pts, wts, mode = None, None, "vertex"
            else:
                pts, wts, mode = None, None, "exact" if exact_ok else "default-only"
            deg = md.get("quadrature_degree", -1)
            if deg is None or (np.isscalar(deg) and deg < 0):
                deg = md["estimated_polynomial_degree"]
            deg = int(np.max(deg))
            parts.append(Part(tree, tf.aleaves, tf.cleaves, pts, wts, tf.uses_normal, tf.max_deriv, mode))
            parts[-1].degree = deg
            parts[-1].scheme = rule
            parts[-1].has_cond = tf.has_cond
            parts[-1].ftabs = tf.ftabs
            parts[-1].geos = tf.geos
        progs.append(Program(form_index, idata.integral_type, sid, cell, tdim, gdim, len(arguments), scalar,
                             spaces, args, cnames, [spaces[n].dim for n in cnames],
                             [int(np.prod(c.ufl_shape, dtype=int)) for c in consts], coord, parts,
                             diagonal=diagonal, raw_names=raw_names, label=label))
    return progs


def rule_for(part, prog, entity):
    """Points on the reference integration entity + weights (Fractions) for this part and entity."""
    if prog.itype == "cell" or (prog.itype == "expression" and prog.etype == "cell"):
        ecell = prog.cell
    elif prog.itype == "vertex":
        ecell = "vertex"
    elif prog.itype == "ridge":
        ecell = ridge_cellname(prog.cell)
    else:
        ecell = facet_cellname(prog.cell, entity)
    if part.mode == "custom":
        return part.pts, part.wts, ecell
    if part.mode == "vertex":
        p, w = ratrules.vertex_rule(ecell)
        return p, w, ecell
    # a basix rule whose points and weights are small rationals (low degrees) is used as it is: then the
    # kernel must reproduce exactly *that* rule's sum, whatever the integrand's degree ("degree honoured")
    br = basix_rational_rule(ecell, part.degree, getattr(part, "scheme", "default"))
    if br is not None:
        return br[0], br[1], ecell
    if part.mode == "default-only":
        raise OutOfModel("default (irrational) rule on a form not flagged as exactly integrable")
    p, w = ratrules.rule(ecell, part.degree)
    return p, w, ecell


_BR_CACHE = {}


def basix_rational_rule(ecell, degree, scheme):
    key = (ecell, degree, scheme)
    if key not in _BR_CACHE:
        _BR_CACHE[key] = None
        if ecell != "vertex" and scheme in ("default", "GLL"):
            import basix
            try:
                kw = {} if scheme == "default" else {"rule": basix.QuadratureType.gll}
                P, W = basix.make_quadrature(basix.CellType[ecell], int(degree), **kw)
                pts, wts = [], []
                ok = len(W) <= 9
                for p, w in zip(np.asarray(P).reshape(len(W), -1), W):
                    fp = [Fr(float(c)).limit_denominator(12) for c in p]
                    fw = Fr(float(w)).limit_denominator(96)
                    if any(abs(float(a) - float(c)) > 1e-14 for a, c in zip(fp, p)) or abs(float(fw) - float(w)) > 1e-14:
                        ok = False
                        break
                    pts.append(fp)
                    wts.append(fw)
                if ok:
                    _BR_CACHE[key] = (pts, wts)
            except Exception:  # noqa: BLE001
                pass
    return _BR_CACHE[key]


# ---------------------------------------------------------------------------

class Oracle:
    """Collects programs / configurations / cases and has TLC evaluate Fem.tla on them."""

    def __init__(self):
        self.progs, self.confs, self.cases = [], [], []
        self._conf_key = {}

    def add_prog(self, prog: Program) -> int:
        self.progs.append(prog)
        return len(self.progs)

    def conf(self, pidx: int, ent, perm) -> int:
        key = (pidx, tuple(ent), tuple(perm))
        if key in self._conf_key:
            return self._conf_key[key]
        prog = self.progs[pidx - 1]
        parts = []
        for part in prog.parts:
            pts, wts, ecell = rule_for(part, prog, ent[0])
            xq = []
            for s in range(prog.nsides):
                if prog.itype == "cell" or (prog.itype == "expression" and prog.etype == "cell"):
                    xs = [list(p) for p in pts]
                elif prog.itype == "vertex":
                    geom, _ = ref_geometry(prog.cell)
                    xs = [[Fr(int(round(c))) for c in geom[ent[s]]] for _ in pts]
                elif prog.itype == "ridge":
                    xs = [ridge_point(prog.cell, ent[s], perm_point(ecell, perm[s], p)) for p in pts]
                else:
                    xs = [facet_point(prog.cell, ent[s], perm_point(ecell, perm[s], p)) for p in pts]
                xq.append(xs)
            tabs = {}
            nder = max(1, part.nderiv)
            xsub = prog.spaces[prog.coord].subs[0]
            bends = prog.tdim == prog.gdim and (xsub["raw"].embedded_superdegree > 1 or prog.cell in ("quadrilateral", "hexahedron", "prism"))
            if bends and (part.nderiv >= 2 or (part.nderiv >= 1 and any(s_["map"] != "identity" for sp in prog.spaces.values() for s_ in sp.subs))):
                nder = max(2, nder)          # Fem.tla then also gets the second derivatives of the geometry
            # raw elements this part's integrand refers to (through its coefficient leaves)
            used_raw = {repr(sb["raw"]) for lf in part.cleaves for sb in prog.spaces[prog.coefs[lf["k"]]].subs}
            used_raw |= {repr(sb["raw"]) for name in prog.args for sb in prog.spaces[name].subs}       # argument spaces: always
            used_raw |= {repr(sb["raw"]) for sb in prog.spaces[prog.coord].subs}
            for key_, (name, sub) in prog.raw_names.items():
                tabs[name] = [tabulate_raw(sub, xq[s], nder, prog.tdim, unused=key_ not in used_raw) for s in range(prog.nsides)]
            parts.append({"tree": part.tree, "aleaves": part.aleaves, "cleaves": part.cleaves,
                          "pts": [[fr(c) for c in p] for p in pts], "wts": [fr(w) for w in wts],
                          "xq": [[[fr(c) for c in p] for p in xs] for xs in xq], "tabs": tabs,
                          "uses_normal": part.uses_normal, "has_cond": part.has_cond, "geos": part.geos})
        conf = {"prog": pidx, "ent": list(ent), "perm": list(perm), "parts": parts}
        if prog.itype == "ridge":
            conf["rverts"] = ridge_vertices(prog.cell, ent[0])      # basix's numbering; Fem.tla compares with RefCell.tla
        self.confs.append(conf)
        self._conf_key[key] = len(self.confs)
        return len(self.confs)

    def case(self, cidx: int, x, w, c) -> int:
        conf = self.confs[cidx - 1]
        prog = self.progs[conf["prog"] - 1]
        ftab = [function_tables(prog, part, cpart, x, w, c) for part, cpart in zip(prog.parts, conf["parts"])]
        self.cases.append({"conf": cidx, "x": x, "w": w, "c": c, "ftab": ftab})
        return len(self.cases)

    def dump(self):
        return {"progs": [p.describe() for p in self.progs], "confs": self.confs, "cases": self.cases}

    def evaluate(self, chk=None, chunk=60, workers=4):
        """-> list (per case) of ("ok", entries) | (status,) ; entries[i][j] = (re, im, mag) Fractions."""
        n = len(self.cases)
        results = [None] * n
        progs_json = [p.describe() for p in self.progs]
        chunks = [list(range(i, min(n, i + chunk))) for i in range(0, n, chunk)]

        def run_chunk(ids):
            # restrict the file to what the chunk needs (conf / prog indices renumbered)
            cmap, confs, cases = {}, [], []
            for i in ids:
                cs = self.cases[i]
                if cs["conf"] not in cmap:
                    confs.append(self.confs[cs["conf"] - 1])
                    cmap[cs["conf"]] = len(confs)
                cases.append(dict(cs, conf=cmap[cs["conf"]]))
            return self._run(progs_json, confs, cases, ids)

        with ThreadPoolExecutor(workers) as ex:
            for ids, (res, stats) in zip(chunks, ex.map(run_chunk, chunks)):
                for i, r in zip(ids, res):
                    results[i] = r
                if chk is not None:
                    chk.add(states=stats[0], transitions=stats[1])
        return results

    def _run(self, progs_json, confs, cases, ids, depth=0):
        """Evaluate `cases`; a 32-bit overflow aborts a TLC run, naming the case: it is marked and the rest re-run."""
        import re as _re

        out = [None] * len(cases)
        todo = list(range(len(cases)))
        st = [0, 0]
        for _round in range(len(cases) + 1):
            if not todo:
                break
            d = tlc.stage("fem", ["Rational", "RefCell", "Fem"])
            f = d / "fem.json"
            f.write_text(json.dumps({"progs": progs_json, "confs": confs, "cases": [cases[i] for i in todo]}))
            r = tlc.run(d, "Fem", cfg_text="SPECIFICATION Spec\n", workers=2, env={"FEM_FILE": str(f)},
                        timeout=10800, heap="3g")
            st[0] += r.distinct
            st[1] += r.generated
            for s in r.printed:
                if s.replace(" ", "").startswith('<<"T"'):
                    v = tlc.parse_tla(s)
                    out[todo[v[1] - 1]] = _decode(v[2])
            left = [i for i in todo if out[i] is None]
            if not left:
                break
            m = _re.search(r"Error: Overflow when computing.*?cid = (\d+)", r.out, _re.S)
            if m:
                bad = todo[int(m.group(1)) - 1]
                out[bad] = ("overflow",)
                todo = [i for i in left if i != bad]
                continue
            # a division by zero inside the oracle: a degenerate configuration (a singular Jacobian at a point, so that the
            # mapped normal has length zero) - outside the exact model like det J = 0, named by TLC in the same way
            m = _re.search(r"cid = (\d+)", r.out) if "The second argument of \\div is 0" in r.out else None
            if m:
                bad = todo[int(m.group(1)) - 1]
                out[bad] = ("out-of-range",)
                todo = [i for i in left if i != bad]
                continue
            tail = "\n".join(r.out.splitlines()[-30:])
            raise MachineryError(f"Fem.tla evaluation failed:\n{tail}")
        return out, tuple(st)


def _decode(v):
    """TLC's <<status, tensor, amp, mag>> -> ("ok", rows of (re, im, mag), amp); mag is one bound per case."""
    if v[0] not in ("ok", "ok-expr"):
        return (v[0],)
    amp, mag = Fr(v[2][0], v[2][1]), Fr(v[3][0], v[3][1])

    def rows_of(t):
        rows = []
        for i in sorted(t):
            rows.append([(Fr(t[i][j][0][0], t[i][j][0][1]), Fr(t[i][j][1][0], t[i][j][1][1]), mag) for j in sorted(t[i])])
        return rows

    if v[0] == "ok-expr":
        comps = [rows_of(t) for t in v[1]]
        # arrange as A[point][component][dof] flattened into one row vector
        ncomp, ndof, npts = len(comps), len(comps[0]), len(comps[0][0])
        flat = [comps[k][i][q] for q in range(npts) for k in range(ncomp) for i in range(ndof)]
        return ("ok", [flat], amp)
    return ("ok", rows_of(v[1]), amp)


# ---------------------------------------------------------------------------
# the real code


class Module:
    """A JIT-compiled module of forms (the implementation under test)."""

    def __init__(self, forms, scalar, options=None, extra_args=("-O0",)):
        ensure_repo_on_path()
        import ffcx.codegeneration.jit as jit

        opts = {"scalar_type": scalar}
        opts.update(options or {})
        self.scalar = scalar
        cache = scratch("jit")
        # a list is handed over as it is (the caller may want to observe what compile_forms does to it)
        self.objs, self.module, self.code = jit.compile_forms(
            forms if isinstance(forms, list) else list(forms), options=opts, cache_dir=cache,
            cffi_extra_compile_args=list(extra_args))
        self.ffi = self.module.ffi

    def kernels(self, k, itype, sid):
        """All kernels listed under (integral type, subdomain id) of form k."""
        f = self.objs[k]
        t = ITYPES.index(itype)
        lo, hi = f.form_integral_offsets[t], f.form_integral_offsets[t + 1]
        return [f.form_integrals[i] for i in range(lo, hi) if f.form_integral_ids[i] == sid]

    def call(self, integral, A, w, c, x, ent, perm):
        ffi = self.ffi
        T = CTYPE[self.scalar]
        R = CTYPE[REAL_OF[self.scalar]]
        fn = getattr(integral, f"tabulate_tensor_{self.scalar}")
        fn(ffi.cast(f"{T} *", A.ctypes.data),
           ffi.cast(f"{T} *", w.ctypes.data) if w.size else ffi.NULL,
           ffi.cast(f"{T} *", c.ctypes.data) if c.size else ffi.NULL,
           ffi.cast(f"{R} *", x.ctypes.data),
           ffi.cast("int *", ent.ctypes.data), ffi.cast("uint8_t *", perm.ctypes.data), ffi.NULL)


def pack(prog: Program, case, scalar):
    """Lay the case's data out as the UFCx contract documents it (independent of FFCx's IR)."""
    dt = np.dtype(scalar)
    rt = np.dtype(REAL_OF[scalar])
    ns = prog.nsides
    w = []
    for k, dim in enumerate(prog.coef_dims):          # w[coefficient][restriction][dof]
        for s in range(ns):
            w += [complex(re, im) for re, im in case["w"][k][s]]
    c = []
    for k, size in enumerate(prog.const_sizes):       # original constant order, row-major
        c += [complex(re, im) for re, im in case["c"][k]]
    if dt.kind != "c":
        w = [z.real for z in w]
        c = [z.real for z in c]
    nn = len(case["x"][0])
    x = np.zeros((ns, nn, 3), dtype=rt)               # coordinate_dofs[restriction][node][3]
    for s in range(ns):
        for n in range(nn):
            x[s, n, :prog.gdim] = case["x"][s][n]
    return np.array(w, dtype=dt), np.array(c, dtype=dt), x


def tensor_shape(prog: Program):
    ns = prog.nsides
    if prog.itype == "expression":
        nd = prog.spaces[prog.args[0]].dim if prog.args else 1
        return [len(prog.parts[0].pts) * len(prog.parts) * nd]
    dims = [ns * prog.spaces[a].dim for a in prog.args]
    if prog.diagonal and len(dims) == 2:
        dims = dims[:1]
    return dims


def tolerance(mag: Fr, scalar: str, nops: int, amp: float = 1.0):
    return float(mag) * EPS[scalar] * (8 * nops + 64) * amp + 1e-300


def compare(A, expected, scalar, nops, amp=1.0, extra=0.0):
    """-> list of (i, j, got, want, tol) that disagree."""
    bad = []
    n0 = len(expected)
    n1 = len(expected[0])
    A2 = A.reshape(n0, n1)
    for i in range(n0):
        for j in range(n1):
            re, im, mag = expected[i][j]
            want = complex(float(re), float(im))
            got = complex(A2[i, j])
            tol = tolerance(mag, scalar, nops, amp) + extra * float(mag)
            if not (abs(got.real - want.real) <= tol and abs(got.imag - want.imag) <= tol) or math.isnan(got.real):
                bad.append((i, j, got, want, tol))
    return bad


# ---------------------------------------------------------------------------
# input generation (integers only)


def random_data(prog: Program, rnd: random.Random, cx: bool, lo=-3, hi=3):
    ns = prog.nsides
    w = [[[[rnd.randint(lo, hi), rnd.randint(lo, hi) if cx else 0] for _ in range(d)] for _ in range(ns)]
         for d in prog.coef_dims]
    nice = [(3, 4), (4, 3), (0, 2), (2, 0), (-3, 4), (1, 0), (0, -1), (-4, -3)]      # |z| rational
    c = [[(list(rnd.choice(nice)) if cx and rnd.random() < 0.6 else [rnd.randint(lo, hi), rnd.randint(lo, hi) if cx else 0])
          for _ in range(sz)] for sz in prog.const_sizes]
    return w, c


def coord_nodes(prog: Program):
    """Reference positions of the coordinate element's nodes (Fractions)."""
    sub = prog.spaces[prog.coord].subs[0]
    pts = np.asarray(sub["raw"].basix_element.points)
    return [[frac(c, "coordinate node") for c in p] for p in pts]


def affine_geometry(prog: Program, rnd: random.Random, span=2, tries=200, M=None, b=None):
    """Integer node coordinates x = s (M X + b) of a non-degenerate affine cell (random orientation)."""
    X = coord_nodes(prog)
    den = 1
    for p in X:
        for c in p:
            den = den * c.denominator // math.gcd(den, c.denominator)
    td, gd = prog.tdim, prog.gdim
    for _ in range(tries):
        Mm = M if M is not None else [[rnd.randint(-span, span) for _ in range(td)] for _ in range(gd)]
        bb = b if b is not None else [rnd.randint(-2, 2) for _ in range(gd)]
        if td == gd:
            dt = abs(round(np.linalg.det(np.array(Mm, dtype=float))))
            if dt == 0 or (M is None and dt > (4 if td == 3 else 6)):     # keeps K's denominators small
                continue
        else:
            g = np.array(Mm, dtype=float)
            if round(np.linalg.det(g.T @ g)) == 0:
                continue
        nodes = [[int(den * (bb[c] + sum(Mm[c][k] * p[k] for k in range(td)))) for c in range(gd)] for p in X]
        return nodes
    raise MachineryError("no non-degenerate geometry found")


def _pythag(rnd):
    return rnd.choice([(3, 4), (4, 3), (-3, 4), (4, -3), (5, 12), (0, 2), (3, 0), (0, -1), (-2, 0), (6, 8)])


def make_geometry(prog: Program, kind: str, rnd: random.Random, facet=None, ridge=None):
    """Integer coordinate dofs of one cell.  kind: affine | nonaffine | manifold.
    With `facet` given (facet integrals) the facet's measure and normal are kept rational;
    with `ridge` given (ridge integrals) the ridge's length."""
    td, gd = prog.tdim, prog.gdim
    if kind == "manifold" or gd > td:
        if td == 1:
            pv = _pythag(rnd)
            M = [[pv[0]], [pv[1]]] if gd == 2 else [[rnd.choice([2, -3, 1])], [0], [0]]
        else:
            p, q, r = rnd.choice([1, 2, -2, 3]), rnd.randint(-2, 2), rnd.choice([1, -1, 2, 3])
            cols = [(p, 0, 0), (q, r, 0)]
            perm = rnd.sample(range(3), 3)
            M = [[cols[k][perm[c]] for k in range(2)] for c in range(3)]
        return affine_geometry(prog, rnd, M=M)
    if facet is not None:
        M = _facet_friendly(prog, rnd, facet)
        nodes = affine_geometry(prog, rnd, M=M)
    elif ridge is not None:
        M = _ridge_friendly(prog, rnd, ridge)
        nodes = affine_geometry(prog, rnd, M=M)
    else:
        nodes = affine_geometry(prog, rnd)
    if kind == "pythag":
        # right-angled cells with legs 3 and 4 (hypotenuse / diagonal 5): every edge length, the diameter and the
        # circumradius are rational
        legs = rnd.choice([(3, 4), (4, 3), (6, 8), (8, 6)])
        sg = [rnd.choice([1, -1]) for _ in range(td)]
        if td == 1:
            M = [[sg[0] * rnd.choice([2, 3, 4])]]
        else:
            ax = rnd.sample(range(td), td)
            M = [[0] * td for _ in range(td)]
            for k in range(td):
                M[ax[k]][k] = sg[k] * (legs[k] if k < 2 else rnd.choice([3, 4]))
        return affine_geometry(prog, rnd, M=M)
    if kind == "gentle":
        # the reference cell itself (scaled to integers) with one node nudged by one unit: keeps det J, K and
        # their derivatives at small denominators (cases that need second derivatives of the geometry)
        X = coord_nodes(prog)
        den = 1
        for p_ in X:
            for c_ in p_:
                den = den * c_.denominator // math.gcd(den, c_.denominator)
        sc = den * rnd.choice([1, 2])
        nodes = [[int(sc * c_) for c_ in p_] for p_ in X]
        geom, topo = ref_geometry(prog.cell)
        nv = len(topo[0])
        cand = list(range(nv, len(nodes))) if len(nodes) > nv else list(range(nv))
        n = rnd.choice(cand)
        nodes[n][rnd.randrange(gd)] += rnd.choice([-1, 1])
        return nodes
    if kind == "nonaffine":
        geom, topo = ref_geometry(prog.cell)
        nv = len(topo[0])
        nodes = [[3 * c for c in n] for n in nodes]
        cand = list(range(nv, len(nodes))) if len(nodes) > nv else list(range(nv))
        if ridge is not None and len(nodes) == nv:
            # degree-1 cell: x restricted to an edge is affine in s, so the edge keeps its (rational) length as
            # long as its two end points stay where they are
            cand = [n for n in cand if n not in ridge_vertices(prog.cell, ridge)]
        for n in rnd.sample(cand, max(1, len(cand) // 2)):
            nodes[n] = [c + rnd.choice([-1, 1]) for c in nodes[n]]
    return nodes


def _facet_friendly(prog, rnd, facet):
    """An integer matrix M (gd x td) mapping the reference cell so that facet `facet` has rational measure."""
    geom, topo = ref_geometry(prog.cell)
    td = prog.tdim
    fv = topo[td - 1][facet]
    for _ in range(500):
        if td == 1:
            return [[rnd.choice([1, 2, -1, -3])]]
        M = [[rnd.randint(-3, 3) for _ in range(td)] for _ in range(td)]
        if round(np.linalg.det(np.array(M, dtype=float))) == 0:
            continue
        Mf = np.array(M, dtype=float)
        if td == 2:
            e = Mf @ (geom[fv[1]] - geom[fv[0]])
            l2 = int(round(e @ e))
            if math.isqrt(l2) ** 2 == l2:
                return M
        else:
            a = Mf @ (geom[fv[1]] - geom[fv[0]])
            b = Mf @ (geom[fv[2]] - geom[fv[0]])
            cr = np.cross(a, b)
            l2 = int(round(cr @ cr))
            if math.isqrt(l2) ** 2 == l2:
                return M
    raise MachineryError("no facet-friendly geometry found")


def _ridge_friendly(prog, rnd, ridge):
    """An integer matrix M (gd x td), det != 0 and small, such that ridge `ridge` = (a, b) has a rational length
    |M (V_b - V_a)| (2D cells: the ridge is a vertex, nothing to ask for)."""
    geom, _ = ref_geometry(prog.cell)
    td = prog.tdim
    rv = ridge_vertices(prog.cell, ridge)
    for _ in range(2000):
        M = [[rnd.randint(-3, 3) for _ in range(td)] for _ in range(td)]
        dt = abs(round(np.linalg.det(np.array(M, dtype=float))))
        if dt == 0 or dt > (4 if td == 3 else 6):            # keeps K's denominators small (as affine_geometry does)
            continue
        if len(rv) == 1:
            return M
        t = [int(round(b - a)) for a, b in zip(geom[rv[0]], geom[rv[1]])]
        e = [sum(M[c][k] * t[k] for k in range(td)) for c in range(td)]
        l2 = sum(c * c for c in e)
        if math.isqrt(l2) ** 2 == l2:
            return M
    raise MachineryError("no ridge-friendly geometry found")


# ---------------------------------------------------------------------------
# parent side: enumerate the case space with TLC, farm items out, judge

_FS_CACHE = None


def enumerate_formspace(chk=None, facets=False, exprs=False, complex_terms=False, ridges=False):
    """All valid abstract cases of FormSpace.tla, as TLC enumerates them.  facets=True: the facet / vertex cases
    (measures ds, dS, dP); ridges=True: the ridge cases (measure dr) of the same FCase space."""
    global _FS_CACHE
    if _FS_CACHE is None:
        d = tlc.stage("formspace", ["FormSpace"], {"FormSpace.cfg": ""})
        r = tlc.run(d, "FormSpace", cfg="FormSpace.cfg", workers=1, timeout=600)
        cases, fcases, ecases, counts = [], [], [], {}
        for s_ in r.printed:
            v = tlc.parse_tla(s_)
            if v[0] == "CASE":
                cases.append(v[1])
            elif v[0] == "FCASE":
                fcases.append(v[1])
            elif v[0] == "ECASE":
                ecases.append(v[1])
            elif v[0] in ("NCASES", "NFCASES", "NECASES"):
                counts[v[0]] = v[1]
        if (not cases or counts.get("NCASES") != len(cases) or counts.get("NFCASES") != len(fcases)
                or counts.get("NECASES") != len(ecases)):
            raise MachineryError("FormSpace enumeration failed:\n" + "\n".join(r.out.splitlines()[-20:]))
        cases.sort(key=lambda c: json.dumps(c, sort_keys=True))
        fcases.sort(key=lambda c: json.dumps(c, sort_keys=True))
        ecases.sort(key=lambda c: json.dumps(c, sort_keys=True))
        _FS_CACHE = (cases, fcases, ecases)
    if chk is not None:
        chk.add(formspace_cases=sum(len(x) for x in _FS_CACHE))
    if exprs:
        return _FS_CACHE[2]
    if ridges:
        return [c for c in _FS_CACHE[1] if c["measure"] == "dr"]
    if facets:
        return [c for c in _FS_CACHE[1] if c["measure"] != "dr"]
    return [c for c in _FS_CACHE[0] if complex_terms or c["term"] not in ("cplx", "cmathfn", "ccond")]   # need a complex scalar type


_NDOF = {"P1": 1, "P2": 3, "P3": 6, "DG0": 0.4, "DG1": 1, "vP1": 2.5, "vP2": 7, "symP1": 3, "TH": 8, "RT1": 1, "N1": 1.5,
         "BDM1": 2, "RTxDG0": 1.5, "bubble": 1.5, "real": 0.3, "quad": 1, "RTCF1": 1.5, "RTCE1": 1.5, "iso": 3}
_CELLW = {"interval": 0.3, "triangle": 1, "quadrilateral": 2, "tetrahedron": 3, "hexahedron": 10}
_RIDGEW = {"triangle": 0.15, "quadrilateral": 0.3, "tetrahedron": 1, "hexahedron": 4, "prism": 2.5}    # points on an edge / one vertex


def case_cost(c):
    """Rough relative cost of evaluating the case in TLC (dofs^2 x points)."""
    if "pts" in c:
        return _NDOF[c["elem"]] * _CELLW.get(c["cell"], 6)
    r = {"exact": 2.0, "custom": 1.0, "vertex": 1.0}[c["rule"]]
    rank2 = 0.3 if c["term"] in ("load", "gradload", "energy", "xint", "nload", "fload", "area", "jumpload") else 1.0
    side = 4 if c.get("measure") == "dS" else 1
    if c.get("measure") == "dr":
        return (_NDOF[c["elem"]] ** 2) * _RIDGEW[c["cell"]] * r * rank2
    return (_NDOF[c["elem"]] ** 2) * _CELLW.get(c["cell"], 6) * r * rank2 * side


def sample_cases(cases, n, seed, must=lambda c: True, max_cost=None):
    """Seeded covering sample: first cover every (attribute, value) and (elem, term) pair, then fill up.
    With max_cost, expensive cases are only taken while they add coverage."""
    rnd = random.Random(seed)
    pool = [c for c in cases if must(c)]
    rnd.shuffle(pool)
    if max_cost is not None:
        pool.sort(key=lambda c: case_cost(c) > max_cost)        # stable: cheap ones first, order otherwise random
    seen, chosen, rest = set(), [], []
    for c in pool:
        feats = {(k, v) for k, v in c.items()} | {("et", c["elem"], c["term"]), ("cg", c["cell"], c.get("geom", c.get("measure"))),
                                                   ("cr", c["cell"], c.get("rule", c.get("pts")))}
        if feats - seen and len(chosen) < n:
            chosen.append(c)
            seen |= feats
        else:
            rest.append(c)
    chosen += rest[:max(0, n - len(chosen))]
    return chosen


def case_label(c):
    if "pts" in c:
        return "expr/" + "/".join(str(c[k]) for k in ("cell", "elem", "term", "pts", "geom"))
    if "measure" in c:
        return "/".join(str(c[k]) for k in ("cell", "elem", "term", "measure", "rule"))
    return "/".join(str(c[k]) for k in ("cell", "elem", "term", "rule", "geom", "xdeg"))


def run_items(chk, items, nworkers=4, module_size=8):
    """Run items on the implementation (worker processes), evaluate Fem.tla, compare.
    Returns list of records {item, meas, status, bad}; counts skipped in chk."""
    import subprocess

    from .common import PY, child_env

    d = scratch("s5")
    nworkers = max(1, min(nworkers, len(items)))
    # deal round-robin so that slow 3D cases spread out
    buckets = [list(range(i, len(items), nworkers)) for i in range(nworkers)]
    tag = f"{random.Random(len(items)).randrange(10**6)}-{id(items) % 10**6}"

    import time as _t
    tw = [0.0, 0.0]

    def one(b):
        ids = buckets[b]
        t0 = _t.time()
        jf, ff, mf = d / f"job-{tag}-{b}.json", d / f"fem-{tag}-{b}.json", d / f"meas-{tag}-{b}.json"
        jf.write_text(json.dumps({"items": [items[i] for i in ids], "module_size": module_size}))
        p = subprocess.run([PY, "-m", "harness.s5w", str(jf), str(ff), str(mf)], env=child_env(),
                           capture_output=True, text=True, timeout=7200)
        if p.returncode != 0 or not mf.exists():
            raise MachineryError(f"S5 worker failed:\n{p.stderr[-3000:]}")
        fem = json.loads(ff.read_text())
        mm = json.loads(mf.read_text())
        tw[0] += _t.time() - t0
        t0 = _t.time()
        # evaluate this worker's cases with TLC
        orc = Oracle()
        orc.confs, orc.cases = fem["confs"], fem["cases"]
        exp = []
        if fem["cases"]:
            n = len(fem["cases"])
            chunk = 40 if len(items) <= 200 else 12      # thorough batches hold heavy 3D cases: keep TLC runs short
            for lo in range(0, n, chunk):
                ids2 = list(range(lo, min(n, lo + chunk)))
                cmap, confs, cases = {}, [], []
                for i in ids2:
                    cs = fem["cases"][i]
                    if cs["conf"] not in cmap:
                        confs.append(fem["confs"][cs["conf"] - 1])
                        cmap[cs["conf"]] = len(confs)
                    cases.append(dict(cs, conf=cmap[cs["conf"]]))
                res, stats = orc._run(fem["progs"], confs, cases, ids2)
                exp += res
                chk.add(states=stats[0], transitions=stats[1])
        tw[1] += _t.time() - t0
        return ids, mm, exp, fem

    out = []
    with ThreadPoolExecutor(nworkers) as ex:
        for ids, mm, exp, fem in ex.map(one, range(nworkers)):
            for sk in mm["skipped"]:
                out.append({"item": ids[sk["item"]], "status": "skipped", "why": sk["why"],
                            "ffcx_error": sk.get("ffcx_error", False), "missing_kernel": sk.get("missing_kernel", False), "rank_mismatch": sk.get("rank_mismatch", False),
                            "numba_error": sk.get("numba_error"), "history_error": sk.get("history_error", False),
                            "tb": sk.get("tb", "")})
            for m in mm["meas"]:
                if m["case"] is None:
                    out.append({"item": ids[m["item"]], "meas": m, "status": "noexp"})
                    continue
                e = exp[m["case"] - 1]
                rec = {"item": ids[m["item"]], "meas": m, "status": e[0], "case_data": fem["cases"][m["case"] - 1]}
                if e[0] == "ok":
                    A = np.array([complex(a, b) for a, b in m["A"]])
                    rec["bad"] = compare(A, e[1], m["scalar"], m["nops"], float(e[2]),
                                         items[ids[m["item"]]].get("extra_tol", 0.0) + 4 * FN_DELTA * m.get("nftab", 0))
                    rec["amp"] = float(e[2])
                    rec["nonzero"] = any(x[0] != 0 or x[1] != 0 for row in e[1] for x in row)
                    rec["expected"] = e[1]
                out.append(rec)
    chk.note(f"S5 batch of {len(items)} items: worker (realise+compile+run) {tw[0]:.0f}s, TLC {tw[1]:.0f}s (summed over {nworkers} lanes)")
    return out


def report(chk, items, recs, pid_filter=None):
    """Turn comparison records into verdicts and coverage numbers."""
    nz, evals, skipped, oor = set(), 0, 0, 0
    samples = []
    for r in recs:
        it = items[r["item"]]
        lab = it.get("label") or case_label(it["case"])
        if r["status"] == "skipped":
            skipped += 1
            # FormSpace cases are the supported fragment by construction (Valid predicates): with default options an
            # exception from ffcx means no tensor is computed for a supported form
            must = it.get("must_compile", "case" in it and not it.get("options") and not it.get("pre_compile"))
            if r.get("ffcx_error") and must and not r.get("numba_error") and not r.get("history_error"):
                # a form built only from documented pieces (rules, schemes, measures): no tensor at all is computed
                chk.violation(f"{lab}:rejected", f"{lab}: ffcx fails on a supported form, so the integral is not computed at all: {r['why'][:300]}",
                              {"item": it})
            elif r.get("ffcx_error"):
                chk.note(f"ffcx rejected/failed on {lab}: {r['why'][:200]}")
            elif r.get("rank_mismatch"):
                chk.violation(f"{lab}:rank", f"{lab}: {r['why']}", {"item": it})
            elif r.get("missing_kernel"):
                chk.violation(f"{lab}:missing-kernel", f"{lab}: {r['why']}", {"item": it})
            elif "out of model" not in r["why"]:
                raise MachineryError(f"{lab}: {r['why']}\n{r.get('tb', '')}")
            continue
        if r["status"] in ("out-of-range", "overflow"):
            oor += 1
            continue
        if r["status"] == "noexp":
            continue
        if r["status"] != "ok":
            raise MachineryError(f"{lab}: Fem.tla says {r['status']}")
        evals += 1
        m = r["meas"]
        if r["nonzero"]:
            nz.add((lab, m["itype"], tuple(m["ent"]), tuple(m["perm"])))
        if len(samples) < 4 and r["nonzero"]:
            e = r["expected"]
            samples.append({"case": lab, "itype": m["itype"], "entity": m["ent"], "perm": m["perm"],
                            "x": r["case_data"]["x"], "expected_first_entries": [str(e[0][j][0]) for j in range(min(3, len(e[0])))],
                            "kernel_first_entries": [m["A"][j][0] for j in range(min(3, len(m["A"])))]})
        if r["bad"]:
            i, j, got, want, tol = r["bad"][0]
            chk.violation(f"{lab}:{m['itype']}",
                          f"{lab} ({m['itype']} id {m['sid']}, entity {m['ent']}, perm {m['perm']}, {m['scalar']}): "
                          f"kernel A[{i}][{j}] = {got} but the exact value is {want} (|diff| > {tol:.3g}); "
                          f"{len(r['bad'])} entries differ",
                          {"item": it, "case_data": r["case_data"], "entity": m["ent"], "perm": m["perm"],
                           "bad": [(a, b, str(g), str(w_), t) for a, b, g, w_, t in r["bad"][:10]]})
    chk.add(evaluations=evals, traces_validated_against_impl=evals, skipped_out_of_model=skipped,
            skipped_irrational_or_overflow=oor, samples=samples)
    return nz


def replay(chk, path):
    """Re-run the item of a recorded violation (same abstract case, same seed, same options)."""
    doc = json.loads(open(path).read())
    it = doc["payload"]["item"]
    recs = run_items(chk, [it], nworkers=1)
    nz = report(chk, [it], recs)
    chk.add(distinct_nontrivial=len(nz), rule="replay of one recorded case")


def interior_pair(prog: Program, rnd: random.Random, fplus: int, gkind: str = "affine"):
    """Two P1/Q1 cells that really share a facet: '+' cell with local facet fplus, '-' cell the neighbour
    across it in a random local numbering.  Returns (fminus, nodes_plus, nodes_minus, vertex_match) where
    vertex_match[i] = local vertex of '-' coinciding with the i-th vertex of facet fplus of '+'."""
    import itertools

    geom, topo = ref_geometry(prog.cell)
    td = prog.tdim
    nv = len(topo[0])
    xp = make_geometry(prog, gkind, rnd, facet=fplus)
    if len(xp) != nv:
        raise OutOfModel("interior-facet pairs are built for degree-1 coordinate elements only")
    F = list(topo[td - 1][fplus])
    simplex = prog.cell in ("interval", "triangle", "tetrahedron")
    if simplex:
        opp = [v for v in range(nv) if v not in F][0]
        a = xp[F[0]]
        dprime = [a[c] + sum(xp[v][c] - a[c] for v in F[1:]) - (xp[opp][c] - a[c]) for c in range(td)]
        W = [xp[v] for v in F] + [dprime]
        perm = list(range(nv))
        rnd.shuffle(perm)                       # W[i] goes to local slot perm[i]
        xm = [None] * nv
        for i, slot in enumerate(perm):
            xm[slot] = W[i]
        fminus = perm[nv - 1] if td > 1 else perm[0]   # facet opposite the new vertex (interval: the shared vertex itself)
        match = [perm[i] for i in range(len(F))]
        return fminus, xp, xm, match
    # hypercubes: neighbour by translation, then a random symmetry of the reference cube renumbers it
    Xf = [geom[v] for v in F]
    k = [c for c in range(td) if all(abs(p[c] - Xf[0][c]) < 1e-12 for p in Xf)][0]
    sgn = 1 if Xf[0][k] > 0.5 else -1
    b = xp[0]
    cols = []
    for c in range(td):
        e = [1 if a_ == c else 0 for a_ in range(td)]
        vi = [i for i in range(nv) if all(abs(geom[i][a_] - e[a_]) < 1e-12 for a_ in range(td))][0]
        cols.append([xp[vi][g] - b[g] for g in range(td)])
    axes = list(range(td))
    rnd.shuffle(axes)
    flips = [rnd.random() < 0.5 for _ in range(td)]

    def g(X):
        Y = [X[axes[a_]] for a_ in range(td)]
        return [1 - y if fl else y for y, fl in zip(Y, flips)]

    def vindex(X):
        return [i for i in range(nv) if all(abs(geom[i][a_] - X[a_]) < 1e-12 for a_ in range(td))][0]

    xm = [None] * nv
    newidx = {}
    for i in range(nv):
        X = [int(round(c)) for c in geom[i]]
        Xn = list(X)
        Xn[k] += sgn
        phys = [b[g_] + sum(cols[c][g_] * Xn[c] for c in range(td)) for g_ in range(td)]
        j = vindex(g(X))
        xm[j] = phys
        newidx[i] = j
    # the shared facet of the neighbour is X_k = (0 if sgn>0 else 1) in its own frame
    shared = [i for i in range(nv) if int(round(geom[i][k])) == (0 if sgn > 0 else 1)]
    sset = sorted(newidx[i] for i in shared)
    fminus = [f for f, vs in enumerate(topo[td - 1]) if sorted(vs) == sset][0]
    match = []
    for v in F:
        X = [int(round(c)) for c in geom[v]]
        X[k] -= sgn                                # same physical point in the neighbour's frame
        match.append(newidx[vindex(X)])
    return fminus, xp, xm, match


def programs_of_expression(expr, points, scalar, label=""):
    """The oracle's view of a UFL expression evaluated at reference points (cell or facet points)."""
    ensure_repo_on_path()
    import ufl
    from ufl.algorithms.apply_algebra_lowering import apply_algebra_lowering
    from ufl.algorithms.apply_derivatives import apply_derivatives

    from .ufl2tree import Treeifier, lower_integrand

    cx = scalar.startswith("complex")
    # the kernel's w holds the coefficients that survive algebra lowering and differentiation, in count order
    # (identified by original_coefficient_positions); constants are those of the expression as written
    coefs = ufl.algorithms.extract_coefficients(apply_derivatives(apply_algebra_lowering(expr)))
    consts = ufl.algorithms.analysis.extract_constants(expr)
    arguments = sorted(ufl.algorithms.extract_arguments(expr), key=lambda a: a.number())
    dom = ufl.domain.extract_unique_domain(expr)
    cell = dom.ufl_cell().cellname
    xel = dom.ufl_coordinate_element()
    gdim = xel.reference_value_shape[0]
    tdim = dom.ufl_cell().topological_dimension
    points = np.asarray(points, dtype=float)
    pdim = points.shape[1]
    etype = "cell" if pdim == tdim else "facet"
    spaces, raw_names = {}, {}

    def add_space(name, el):
        s_ = Space(el)
        spaces[name] = s_
        for sub in s_.subs:
            raw_names.setdefault(repr(sub["raw"]), (f"E{len(raw_names) + 1}", sub))
        return name

    coord = add_space("X", xel)
    args = [add_space(f"A{a.number()}", a.ufl_element()) for a in arguments]
    cnames = [add_space(f"W{i}", c.ufl_element()) for i, c in enumerate(coefs)]
    coef_index = {c: i for i, c in enumerate(coefs)}
    const_index = {c: i for i, c in enumerate(consts)}
    low = apply_derivatives(apply_algebra_lowering(expr))
    shape = low.ufl_shape
    pts = [[frac(c, "evaluation point") for c in p] for p in points]
    parts = []
    import itertools
    for idx in itertools.product(*[range(n) for n in shape]):
        comp = low[idx] if idx else low
        tf = Treeifier(coef_index, const_index, {a.number(): i for i, a in enumerate(arguments)}, complex_mode=cx)
        tree = tf.tree(lower_integrand(comp, cx))
        pt = Part(tree, tf.aleaves, tf.cleaves, pts, [Fr(1)] * len(pts), tf.uses_normal, tf.max_deriv, "custom")
        pt.degree = 0
        pt.has_cond = tf.has_cond
        pt.ftabs = tf.ftabs
        pt.geos = tf.geos
        parts.append(pt)
    return [Program(0, "expression", -1, cell, tdim, gdim, len(arguments), scalar, spaces, args, cnames,
                    [spaces[n].dim for n in cnames], [int(np.prod(c.ufl_shape, dtype=int)) for c in consts],
                    coord, parts, raw_names=raw_names, label=label, etype=etype, value_shape=tuple(shape))]


class ExprModule:
    """JIT-compiled expressions (the implementation under test)."""

    def __init__(self, exprs, scalar, options=None, extra_args=("-O0",)):
        ensure_repo_on_path()
        import ffcx.codegeneration.jit as jit

        opts = {"scalar_type": scalar}
        opts.update(options or {})
        self.scalar = scalar
        self.objs, self.module, self.code = jit.compile_expressions(
            list(exprs), options=opts, cache_dir=scratch("jit"), cffi_extra_compile_args=list(extra_args))
        self.ffi = self.module.ffi

    def kernels(self, k, itype, sid):
        return [self.objs[k]]

    call = Module.call

    def descriptor(self, k):
        e, ffi = self.objs[k], self.ffi
        return {"num_points": e.num_points, "entity_dimension": e.entity_dimension,
                "points": [float(e.points[i]) for i in range(e.num_points * e.entity_dimension)],
                "value_shape": [e.value_shape[i] for i in range(e.num_components)],
                "num_components": e.num_components, "rank": e.rank,
                "num_coefficients": e.num_coefficients, "num_constants": e.num_constants,
                "original_coefficient_positions": [e.original_coefficient_positions[i] for i in range(e.num_coefficients)]}


class _CarrayShim:
    """Stands in for the `numba` module when a generated *_numba.py is executed as plain Python: carray(ptr, shape)
    returns a view of the *real* buffer behind ptr, cut to the declared number of entries."""

    def __init__(self):
        self.buffers = {}

    def carray(self, ptr, shape, dtype=None):
        # the view has the extent the generated code declares: an access beyond it is an IndexError here
        # (numba itself checks bounds only with NUMBA_BOUNDSCHECK=1)
        n = int(np.prod(shape)) if not isinstance(shape, int) else int(shape)
        return self.buffers[int(ptr)][:n]

    def __getattr__(self, name):
        import numba
        return getattr(numba, name)


class NumbaModule:
    """Forms compiled with language='numba'; the generated source is executed as plain Python."""

    def __init__(self, forms, scalar, options=None):
        ensure_repo_on_path()
        import ffcx.compiler
        import ffcx.naming
        import ffcx.options

        opts = {"scalar_type": scalar, "language": "numba"}
        opts.update(options or {})
        self.scalar = scalar
        ns = "nbmod"
        code, suffixes = ffcx.compiler.compile_ufl_objects(list(forms), options=ffcx.options.get_options(opts), namespace=ns)
        self.source = code[0]
        self.suffixes = suffixes
        compile(self.source, "<generated numba module>", "exec")      # SyntaxError here = not valid Python
        self.shim = _CarrayShim()
        self.ns = {}
        exec(self.source, self.ns)
        self.ns["numba"] = self.shim
        self.objs = [self.ns[ffcx.naming.form_name(f, i, ns)] for i, f in enumerate(forms)]

    def kernels(self, k, itype, sid):
        f = self.objs[k]
        t = ITYPES.index(itype)
        lo, hi = f.form_integral_offsets[t], f.form_integral_offsets[t + 1]
        return [f.form_integrals[i] for i in range(lo, hi) if f.form_integral_ids[i] == sid]

    def call(self, integral, A, w, c, x, ent, perm):
        bufs = {}
        ptrs = []
        for arr in (A, w, c, x, ent, perm):
            p = arr.ctypes.data if arr.size else 0
            if not arr.size:
                p = -len(bufs) - 1
            bufs[p] = arr.reshape(-1)
            ptrs.append(p)
        self.shim.buffers = bufs
        integral.tabulate_tensor(*ptrs, None)

    def descriptor(self, k):
        f = self.objs[k]
        return {"rank": f.rank, "num_coefficients": f.num_coefficients,
                "original_coefficient_positions": list(f.original_coefficient_positions or [])[:f.num_coefficients],
                "num_constants": f.num_constants,
                "constant_shapes": [list(s_) if s_ is not None else [] for s_ in (f.constant_shapes or [])],
                "form_integral_offsets": list(f.form_integral_offsets),
                "form_integral_ids": list(f.form_integral_ids),
                "domains": [int(i.domain) for i in f.form_integrals],
                "enabled": [[int(b) for b in i.enabled_coefficients][:f.num_coefficients] for i in f.form_integrals],
                "needs_perm": [bool(i.needs_facet_permutations) for i in f.form_integrals],
                "finite_element_hashes": [int(h) if h is not None else None for h in (f.finite_element_hashes or [])][:f.rank + f.num_coefficients]}


def c_descriptor(mod: Module, k):
    f = mod.objs[k]
    no = f.num_coefficients
    ntypes = 5                                   # cell, exterior_facet, interior_facet, vertex, ridge (ufcx.h)
    nint = f.form_integral_offsets[ntypes]
    shapes = []
    for i in range(f.num_constants):
        r = f.constant_ranks[i]
        shapes.append([f.constant_shapes[i][j] for j in range(r)])
    return {"rank": f.rank, "num_coefficients": no,
            "original_coefficient_positions": [f.original_coefficient_positions[i] for i in range(no)],
            "num_constants": f.num_constants, "constant_shapes": shapes,
            "form_integral_offsets": [f.form_integral_offsets[i] for i in range(ntypes + 1)],
            "form_integral_ids": [f.form_integral_ids[i] for i in range(nint)],
            "domains": [int(f.form_integrals[i].domain) for i in range(nint)],
            "enabled": [[int(f.form_integrals[i].enabled_coefficients[j]) for j in range(no)] for i in range(nint)],
            "needs_perm": [bool(f.form_integrals[i].needs_facet_permutations) for i in range(nint)],
            "finite_element_hashes": [int(f.finite_element_hashes[i]) for i in range(f.rank + no)]}


# ---------------------------------------------------------------------------
# transcendental functions: exact rational argument (computed here from the same tabulations), libm value,
# handed to Fem.tla as a table per point.  Only argument-free sub-trees of a restricted shape are supported.

FN_DELTA = 2.0 ** -12    # function values are rounded to multiples of 2^-12 (dyadic: denominators do not multiply up)


def _pyeval(t, q, prog, cpart, x, w, c, fvals):
    """Exact value (complex of Fractions as (re, im)) of an argument-free tree at point q."""
    k = t["t"]
    Z = (Fr(0), Fr(0))

    def mul(a, b):
        return (a[0] * b[0] - a[1] * b[1], a[0] * b[1] + a[1] * b[0])

    if k == "num":
        return (Fr(*t["re"]), Fr(*t["im"]))
    if k == "sum":
        vs = [_pyeval(a, q, prog, cpart, x, w, c, fvals) for a in t["a"]]
        return (sum(v[0] for v in vs), sum(v[1] for v in vs))
    if k == "prod":
        r = (Fr(1), Fr(0))
        for a in t["a"]:
            r = mul(r, _pyeval(a, q, prog, cpart, x, w, c, fvals))
        return r
    if k == "div":
        a, b = _pyeval(t["a"], q, prog, cpart, x, w, c, fvals), _pyeval(t["b"], q, prog, cpart, x, w, c, fvals)
        m = b[0] * b[0] + b[1] * b[1]
        if m == 0:
            raise OutOfModel("division by zero in a function argument")
        return mul(a, (b[0] / m, -b[1] / m))
    if k == "pow" and t["e"] >= 0:
        r = (Fr(1), Fr(0))
        a = _pyeval(t["a"], q, prog, cpart, x, w, c, fvals)
        for _ in range(t["e"]):
            r = mul(r, a)
        return r
    if k == "conj":
        a = _pyeval(t["a"], q, prog, cpart, x, w, c, fvals)
        return (a[0], -a[1])
    if k == "real":
        return (_pyeval(t["a"], q, prog, cpart, x, w, c, fvals)[0], Fr(0))
    if k == "imag":
        return (_pyeval(t["a"], q, prog, cpart, x, w, c, fvals)[1], Fr(0))
    if k == "const":
        v = c[t["k"]][t["c"]]
        return (Fr(v[0]), Fr(v[1]))
    if k == "x":
        s_ = 1 if t["r"] == "-" else 0
        sub = prog.spaces[prog.coord].subs[0]
        tab = cpart["tabs"][prog.raw_names[repr(sub["raw"])][0]][s_][0][q]
        return (sum(Fr(x[s_][n][t["c"]]) * Fr(*tab[n][0]) for n in range(len(tab))), Fr(0))
    if k == "cl":
        lf = cpart["cleaves"][t["id"] - 1]
        if lf["d"]:
            raise OutOfModel("function of a coefficient derivative")
        sp = prog.spaces[prog.coefs[lf["k"]]]
        cm = sp.cmap[lf["c"]]
        sub = sp.subs[cm[0] - 1]
        if sub["map"] != "identity":
            raise OutOfModel("function of a Piola-mapped coefficient")
        s_ = 1 if lf["r"] == "-" else 0
        tab = cpart["tabs"][prog.raw_names[repr(sub["raw"])][0]][s_][0][q]
        re = im = Fr(0)
        for n in range(sub["nn"]):
            wv = w[lf["k"]][s_][sub["off"] + n * sub["bs"] + cm[1]]
            phi = Fr(*tab[n][cm[2]])
            re += wv[0] * phi
            im += wv[1] * phi
        return (re, im)
    if k == "ftab":
        return fvals[t["id"] - 1][q]
    raise OutOfModel(f"node {k} inside a function argument")


def _libm(fn, args, cx):
    import cmath
    import math as m

    z = [complex(float(a[0]), float(a[1])) for a in args]
    if cx and any(v.imag != 0 for v in z):
        table = {"sqrt": cmath.sqrt, "exp": cmath.exp, "ln": cmath.log, "cos": cmath.cos, "sin": cmath.sin, "tan": cmath.tan, "cosh": cmath.cosh,
                 "sinh": cmath.sinh, "tanh": cmath.tanh, "acos": cmath.acos, "asin": cmath.asin, "atan": cmath.atan}
        if fn == "pow":
            return z[0] ** z[1]
        if fn in ("erf", "bessel_j", "bessel_y"):
            # no complex counterpart in C / cmath: the reference value comes from mpmath (30 digits)
            import mpmath
            mpmath.mp.dps = 30
            if fn == "erf":
                return complex(mpmath.erf(mpmath.mpc(z[0].real, z[0].imag)))
            f_ = mpmath.besselj if fn == "bessel_j" else mpmath.bessely
            return complex(f_(int(z[0].real), mpmath.mpc(z[1].real, z[1].imag)))
        if fn not in table:
            raise OutOfModel(f"{fn} of a complex argument")
        return table[fn](z[0])
    r = [v.real for v in z]
    if fn == "pow":
        if r[0] <= 0:
            raise OutOfModel("real power of a non-positive number")
        return complex(r[0] ** r[1])
    if fn == "atan2":
        return complex(m.atan2(r[0], r[1]))
    if fn in ("bessel_j", "bessel_y"):
        import ctypes
        import ctypes.util
        lm = ctypes.CDLL(ctypes.util.find_library("m"))
        f = lm.jn if fn == "bessel_j" else lm.yn
        f.restype, f.argtypes = ctypes.c_double, (ctypes.c_int, ctypes.c_double)
        if fn == "bessel_y" and r[1] <= 0:
            raise OutOfModel("Bessel Y of a non-positive number")
        return complex(f(int(r[0]), r[1]))
    if fn.startswith("bessel_"):
        raise OutOfModel("modified Bessel functions have no C counterpart")
    if fn == "ln" and r[0] <= 0:
        raise OutOfModel("ln of a non-positive number")
    if fn in ("acos", "asin") and abs(r[0]) > 1:
        raise OutOfModel("acos/asin outside [-1, 1]")
    if fn == "sqrt":
        return cmath.sqrt(z[0])
    table = {"exp": m.exp, "ln": m.log, "cos": m.cos, "sin": m.sin, "tan": m.tan, "cosh": m.cosh, "sinh": m.sinh,
             "tanh": m.tanh, "acos": m.acos, "asin": m.asin, "atan": m.atan, "erf": m.erf}
    return complex(table[fn](r[0]))


def function_tables(prog, part, cpart, x, w, c):
    """[function node][point] -> [[re_n, re_d], [im_n, im_d]] for one part of one case."""
    if not part.ftabs:
        return []
    nq = len(cpart["wts"])
    cx = prog.scalar.startswith("complex")
    fvals, out = [], []
    for ft in part.ftabs:
        row, jrow = [], []
        for q in range(nq):
            args = [_pyeval(a, q, prog, cpart, x, w, c, fvals) for a in ft["args"]]
            try:
                v = _libm(ft["fn"], args, cx)
            except (ValueError, OverflowError, ZeroDivisionError) as e:
                raise OutOfModel(f"{ft['fn']}: {e}") from e
            if not (math.isfinite(v.real) and math.isfinite(v.imag)) or abs(v) > 1e4:
                raise OutOfModel(f"{ft['fn']} value out of range")
            re, im = Fr(round(v.real * 4096), 4096), Fr(round(v.imag * 4096), 4096)
            row.append((re, im))
            jrow.append([fr(re), fr(im)])
        fvals.append(row)
        out.append(jrow)
    return out


def check_rules(chk):
    """Have TLC confirm (RuleCheck.tla) that the oracle's own exact rules are exact.  MachineryError otherwise."""
    jobs = []
    for cell, degs in (("interval", range(0, 7)), ("triangle", range(0, 5)), ("quadrilateral", range(0, 5)),
                       ("tetrahedron", range(0, 4)), ("hexahedron", range(0, 4))):
        for d in degs:
            p, w = ratrules.rule(cell, d)
            jobs.append({"cell": cell, "deg": d, "pts": [[fr(c) for c in q] for q in p], "wts": [fr(x) for x in w], "src": "ratrules"})
            br = basix_rational_rule(cell, d, "default")
            if br is not None:
                jobs.append({"cell": cell, "deg": d, "pts": [[fr(c) for c in q] for q in br[0]], "wts": [fr(x) for x in br[1]], "src": "basix"})
    dd = tlc.stage("rulecheck", ["Rational", "RuleCheck"])
    f = dd / "rules.json"
    f.write_text(json.dumps(jobs))
    r = tlc.run(dd, "RuleCheck", cfg_text="SPECIFICATION Spec\n", workers=4, env={"RULE_FILE": str(f)}, timeout=900)
    got = {}
    for s_ in r.printed:
        v = tlc.parse_tla(s_)
        if v[0] == "RULE":
            got[v[1] - 1] = v[2]
    if len(got) != len(jobs):
        raise MachineryError("RuleCheck.tla incomplete:\n" + "\n".join(r.out.splitlines()[-25:]))
    bad = [(jobs[i]["cell"], jobs[i]["deg"], jobs[i]["src"]) for i, ok in got.items() if ok is not True]
    if bad:
        raise MachineryError(f"oracle quadrature rules that are not exact: {bad}")
    chk.add(states=r.distinct, transitions=r.generated, oracle_rules_verified=len(jobs))
