"""Engine S7 "TableOpt": element-table classification, compression and access.

  spec/TableSpace.tla        value algebra <<m, k>> = m/4 + k*1e-10, the pipeline operators, the description space
  spec/TableOpt.tla          design model (Clamp, Classify*, ReducePoints, ReduceEntities, ReducePerms, Dedupe*, Access)
  spec/TableOptConform.tla   "emit" (validate candidate descriptions, print their raw tables) and "judge" (records
                             from the real code -> verdicts)
  harness/s7w.py             worker: real forms / expressions compiled by the unmodified ffcx with injected tables

Entry point:  run_tables(chk, scope)   scope in {"cell", "facet", "perm"}
  (a) TLC checks the design model exhaustively on the 2x2x2x2 universe (once per process and tier),
  (b) a seeded covering sample of descriptions is validated and expanded into raw tables by TLC,
  (c) each is realised on the real pipeline (tables injected in the worker process only) and every
      (entity, permutation) request is run on the compiled kernel,
  (d) TLC judges the records (UniqueTableReferenceT fields, table values, tensors),
  (e) verdicts -> chk.violation(key = "s7:<label>:<clause>"), counters -> chk.add.
Python decides nothing: it proposes candidates, moves data and counts.
"""

from __future__ import annotations

import copy
import json
import os
import random
import subprocess
import threading
import time
from concurrent.futures import ThreadPoolExecutor

from . import tlc
from .common import PY, VERIF, MachineryError, child_env, scratch

SCOPES = {"cell": ["cell", "expr_cell"], "facet": ["exterior_facet", "vertex"], "perm": ["interior_facet", "expr_facet"]}
INVARIANTS = ["TypeOK", "ClampSound", "TypeSound", "ShapeConsistent", "AccessFaithful", "DedupeWithinTol", "PermMinimal"]
ACTIONS = ["Start", "Clamp", "ClassifyZeros", "ClassifyOnes", "ClassifyQuadrature", "ClassifyFixed", "ClassifyPiecewise",
           "ClassifyUniform", "ClassifyVarying", "ReducePoints", "ReduceEntities", "KeepPerms", "DropPerms", "DedupeHit",
           "DedupeNew", "Access"]
# design-level negative controls: deviation -> invariant that TLC must refute (checked alone)
MODEL_BUGS = [("pw_entity0", "TypeSound"), ("pw_entity0", "AccessFaithful"), ("no_uniform_slot", "ShapeConsistent"),
              ("perm_first", "PermMinimal"), ("clamp_default", "ClampSound"), ("dedupe_any_shape", "DedupeWithinTol"),
              ("dedupe_any_shape", "ShapeConsistent")]


# ---------------------------------------------------------------------------
# (a) the design model

def model_cfg(universe, bug="none", coherent=True, invariants=INVARIANTS, dims="Dims2222", tols='{"default", "large", "zero"}'):
    s = ("SPECIFICATION Spec\nCONSTANTS\n"
         f"  Dims <- {dims}\n  ClassA = 10\n  ClassR = 2500\n  ClampTolNames = {tols}\n"
         f"  Universe = \"{universe}\"\n  Bug = \"{bug}\"\n  AssumeCoherent = {'TRUE' if coherent else 'FALSE'}\n")
    return s + "".join(f"INVARIANT {i}\n" for i in invariants)


def run_model(universe, bug="none", coherent=True, invariants=INVARIANTS, coverage=False, workers=4, **kw):
    d = tlc.stage("tableopt", ["TableSpace", "TableOpt"])
    return tlc.run(d, "TableOpt", cfg_text=model_cfg(universe, bug, coherent, invariants, **kw), workers=workers,
                   coverage=coverage, timeout=3600)


_model_lock = threading.Lock()
_model_done: dict = {}


def check_model(chk, tier):
    """Exhaustive check of TableOpt on the small universe; every action taken, every ttype reached.
    Runs once per process and tier (the model does not depend on the scope); the counters are added once."""
    with _model_lock:
        if tier in _model_done:
            return _model_done[tier]
        quick = tier == "quick"
        r = tlc.must_ok(run_model("quick" if quick else "thorough", coverage=True,
                                  tols='{"default", "large"}' if quick else '{"default", "large", "zero"}'), "TableOpt design model")
        if r.violated:
            chk.violation(f"s7:model:{r.violated}", f"TableOpt.tla: the design model violates {r.violated} "
                          f"(the pipeline as written does not have the property)", {"trace": r.error_trace[-60:]})
        missing = [a for a in ACTIONS if r.coverage.get(a, (0, 0))[0] == 0]
        if not r.violated and missing:
            raise MachineryError(f"TableOpt model: actions never taken: {missing}")
        cov = {a: list(r.coverage.get(a, (0, 0))) for a in ACTIONS}
        res = {"model_states": r.distinct, "model_transitions": r.generated, "model_wall_s": round(r.wall_s, 1),
               "model_action_coverage": cov}
        chk.add(states=r.distinct, transitions=r.generated, s7_model_states=r.distinct, s7_model_coverage=cov)
        _model_done[tier] = res
        return res


def model_negative_controls(chk):
    """Every deliberate deviation of the model must be refuted by the invariant that speaks about it, and dropping the
    coherence assumption must refute AccessFaithful (the code's slice-0-only analysis relies on it)."""
    jobs = [(bug, inv, True) for bug, inv in MODEL_BUGS] + [("none", "AccessFaithful", False), ("none", "TypeSound", False)]

    def one(j):
        bug, inv, coh = j
        return j, run_model("quick", bug=bug, coherent=coh, invariants=[inv], workers=2, tols='{"default", "large"}')

    caught = []
    with ThreadPoolExecutor(3) as ex:
        for (bug, inv, coh), r in ex.map(one, jobs):
            tlc.must_ok(r, f"TableOpt negative control {bug}")
            if r.violated != inv:
                raise MachineryError(f"S7 design-level negative control not refuted: Bug={bug} AssumeCoherent={coh}: expected "
                                     f"{inv} to be violated, TLC says {r.violated}")
            caught.append(f"{bug if coh else 'incoherent-tables'}->{inv}")
            chk.add(states=r.distinct, transitions=r.generated)
    chk.add(s7_model_negative_controls=caught)
    return caught


# ---------------------------------------------------------------------------
# (b) candidate descriptions (proposed here, validated and expanded by TLC)

def label_of(d):
    b, p = d["base"], d["pert"]
    S = "".join({"perm": "P", "ent": "E", "pt": "Q", "dof": "D"}[a] for a in ("perm", "ent", "pt", "dof") if a in b["S"]) or "-"
    pert = "none" if p["cls"] == "none" else f"{p['cls']}@{p['pp']}{p['pe']}{p['pq']}{p['pd']}{p['ext']}"
    return (f"{d['kind']}/{d['cell']}/{d['form']}{d['sa']}{d['sb']}/q{d['nq']}/{b['kind']}[{S}]m{b['m0']}/{pert}/"
            f"{d['second']}/{d['atol']}")


def _shape(kind, cell, nq):
    tri = cell == "triangle"
    P = (2 if tri else 6) if kind in ("interior_facet", "expr_facet") else 1
    E = 1 if kind in ("cell", "expr_cell") else (3 if tri else 4)
    return (P, E, nq, 3 if tri else 4)


def propose(scope, rnd, n, atols):
    """n candidate descriptions of TableSpace!DescOK; TLC (emit) is the judge of validity."""
    out, seen = [], set()
    kinds = SCOPES[scope]
    tries = 0
    while len(out) < n and tries < 50 * n:
        tries += 1
        kind = rnd.choice(kinds)
        cell = "triangle" if rnd.random() < 0.65 else "tetrahedron"
        D = 3 if cell == "triangle" else 4
        forms = ["v", "fv", "f"] if kind.startswith("expr") else ["v", "fv", "uv", "f"]
        form = rnd.choice(forms + ["fv"])
        nq = 1 if kind == "vertex" else rnd.choice([1, 2, 2, D])
        sa = sb = 0
        if kind == "interior_facet":
            sa = 0 if form == "f" else rnd.randrange(2)
            sb = 0 if form == "v" else rnd.randrange(2)
        P, E, Q, _ = _shape(kind, cell, nq)
        bk = rnd.choice(["zeros", "ones", "nearzeros", "nearones", "identity", "pattern", "pattern", "pattern", "pattern"])
        if bk == "identity":
            if kind == "vertex":
                continue
            nq = D
            P, E, Q, _ = _shape(kind, cell, nq)
            S = [a for a in ("perm", "ent") if rnd.random() < 0.4]
            m0 = 0
        elif bk == "pattern":
            S = [a for a, dim in (("perm", P), ("ent", E), ("pt", Q), ("dof", D)) if dim > 1 and rnd.random() < 0.5]
            m0 = rnd.choice([-4, 0, 0, 3])
        else:
            S, m0 = [], 0
        cls = rnd.choice(["none", "none", "in", "out", "out", "mid", "far", "ramp"])
        if cls == "none":
            pert = {"cls": "none", "pp": 0, "pe": 0, "pq": 0, "pd": 0, "ext": "entry"}
        else:
            ext = rnd.choice(["pts", "entpts"] if cls == "ramp" else ["entry", "entry", "pts", "entpts"])
            pert = {"cls": cls, "pp": rnd.choice([0, P - 1, P - 1]), "pe": 0 if ext == "entpts" else rnd.choice([0, E - 1]),
                    "pq": 0 if ext != "entry" else rnd.choice([0, Q - 1]), "pd": rnd.choice([0, D - 1]), "ext": ext}
        second = rnd.choice(["equal", "within", "within", "different", "straddle", "zeros", "const"]) if form == "fv" else "none"
        d = {"kind": kind, "cell": cell, "form": form, "sa": sa, "sb": sb, "nq": nq,
             "base": {"kind": bk, "S": S, "m0": m0}, "pert": pert, "second": second, "atol": rnd.choice(atols)}
        lab = label_of(d)
        if lab in seen:
            continue
        seen.add(lab)
        d["id"] = lab
        d["must"] = False
        out.append(d)
    return out


def _desc(kind, cell, form, nq, base, pert=None, second="none", atol="default", sa=0, sb=0):
    d = {"kind": kind, "cell": cell, "form": form, "sa": sa, "sb": sb, "nq": nq,
         "base": {"kind": base[0], "S": list(base[1]), "m0": base[2]},
         "pert": pert or {"cls": "none", "pp": 0, "pe": 0, "pq": 0, "pd": 0, "ext": "entry"}, "second": second, "atol": atol}
    d["id"] = label_of(d)
    d["must"] = True
    return d


def _pert(cls, pp, pe, pq, pd, ext):
    return {"cls": cls, "pp": pp, "pe": pe, "pq": pq, "pd": pd, "ext": ext}


def targeted(scope, quick):
    """Descriptions aimed at one pipeline decision each (tolerance chaining between the reductions and is_permuted,
    a class that holds on entity / slice 0 only, values between the default and the configured clamp tolerance, tables
    that agree within tolerance but reduce to different shapes, ...).  Candidates like any other: TLC validates them."""
    out = []
    pat = lambda S, m0=0: ("pattern", S, m0)                                        # noqa: E731
    if scope == "perm":
        for kind, form, sa in (("interior_facet", "v", 1), ("expr_facet", "v", 0)):
            for cell in (("triangle",) if quick else ("triangle", "tetrahedron")):
                P, E, _, D = _shape(kind, cell, 2)
                # 0.8 / 1.6 tolerance ramp in the last slice: is_permuted must be decided on the REDUCED table
                # (entries that are not clamp targets: m0 = 3, dof 0)
                out.append(_desc(kind, cell, form, 2, pat(["ent", "dof"], 3), _pert("ramp", P - 1, 0, 0, 0, "pts"), sa=sa))
                out.append(_desc(kind, cell, form, 2, pat(["pt", "dof"], 3), _pert("ramp", P - 1, 0, 0, 0, "entpts"), sa=sa))
                out.append(_desc(kind, cell, form, 2, pat(["dof"], 3), _pert("ramp", P - 1, 0, 0, 0, "entpts"), sa=sa))
                # zeros / ones must hold on every slice; a permuted table that is otherwise fixed / piecewise / uniform
                out.append(_desc(kind, cell, form, 2, ("nearzeros", [], 0), _pert("out", P - 1, 0, 0, 0, "entpts"), sa=sa))
                out.append(_desc(kind, cell, form, 2, ("ones", [], 0), _pert("out", P - 1, 0, 0, D - 1, "entpts"), sa=sa))
                out.append(_desc(kind, cell, form, 2, pat(["perm", "dof"], 3), sa=sa))
                out.append(_desc(kind, cell, form, 2, pat(["perm", "ent"], -4), _pert("in", 0, E - 1, 0, 0, "pts"), sa=sa))
                out.append(_desc(kind, cell, form, 2, pat(["perm", "pt"], 0), _pert("in", P - 1, E - 1, 1, 0, "entry"), sa=sa))
                out.append(_desc(kind, cell, form, 2, pat(["pt", "dof"]), _pert("in", P - 1, 0, 0, 0, "entry"), atol="zero", sa=sa))
        out.append(_desc("interior_facet", "triangle", "fv", 2, pat(["perm", "ent", "pt", "dof"]), second="within", sa=0, sb=1))
        out.append(_desc("interior_facet", "triangle", "uv", 3, ("identity", ["perm"], 0), sa=1, sb=0))
        out.append(_desc("expr_facet", "triangle", "fv", 2, pat(["pt", "dof"], 3), second="straddle"))
    elif scope == "facet":
        for cell in (("triangle",) if quick else ("triangle", "tetrahedron")):
            _, E, _, D = _shape("exterior_facet", cell, 2)
            # constant over points on entity 0 only / equal to entity 0 except one entry
            out.append(_desc("exterior_facet", cell, "v", 2, pat(["dof"], 3), _pert("out", 0, E - 1, 1, 0, "entry")))
            out.append(_desc("exterior_facet", cell, "v", 2, pat(["ent", "dof"]), _pert("out", 0, E - 1, 1, D - 1, "entry")))
            out.append(_desc("exterior_facet", cell, "v", 2, pat(["pt", "dof"]), _pert("in", 0, E - 1, 1, 0, "entry")))
            out.append(_desc("exterior_facet", cell, "fv", 2, pat(["pt", "dof"], -4), _pert("out", 0, E - 1, 0, 0, "pts"), second="within"))
            out.append(_desc("exterior_facet", cell, "uv", 2, pat(["pt", "dof"], 3)))
            out.append(_desc("exterior_facet", cell, "fv", 2, pat(["dof"], 3), second="straddle"))
            out.append(_desc("exterior_facet", cell, "f", 2, pat(["ent"], 3), _pert("ramp", 0, E - 1, 0, 0, "pts")))
            out.append(_desc("vertex", cell, "fv", 1, pat(["ent", "dof"]), _pert("mid", 0, E - 1, 0, 0, "entry"), second="equal", atol="large"))
            out.append(_desc("vertex", cell, "v", 1, pat(["dof"], 3), _pert("in", 0, E - 1, 0, D - 1, "entry")))
            # 3e-10 next to an exact 0, nothing clamped: only the ABSOLUTE part of the tolerance makes these uniform / piecewise
            out.append(_desc("exterior_facet", cell, "v", 2, pat(["pt", "dof"]), _pert("in", 0, E - 1, 0, 0, "entry"), atol="zero"))
            out.append(_desc("exterior_facet", cell, "v", 2, pat(["ent", "dof"]), _pert("in", 0, 0, 1, 0, "entry"), atol="zero"))
        out.append(_desc("exterior_facet", "triangle", "uv", 3, ("identity", [], 0)))
        out.append(_desc("exterior_facet", "triangle", "v", 3, ("identity", ["ent"], 0)))
    else:
        for kind in ("cell", "expr_cell"):
            for cell in (("triangle",) if quick else ("triangle", "tetrahedron")):
                D = 3 if cell == "triangle" else 4
                # between the default and the configured clamp tolerance at 0 and at 1; the same with the default options
                out.append(_desc(kind, cell, "fv", 2, pat(["dof"]), _pert("mid", 0, 0, 0, 0, "pts"), second="equal", atol="large"))
                out.append(_desc(kind, cell, "v", 2, ("ones", [], 0), _pert("mid", 0, 0, 1, 0, "entry"), atol="large"))
                out.append(_desc(kind, cell, "v", 2, ("nearzeros", [], 0), _pert("mid", 0, 0, 1, D - 1, "entry"), atol="large"))
                out.append(_desc(kind, cell, "v", 2, ("nearzeros", [], 0), _pert("mid", 0, 0, 1, D - 1, "entry"), atol="default"))
                # tolerance 0: nothing but exact -1, 0, 1 is clamped, the classes still use the defaults
                out.append(_desc(kind, cell, "v", 2, ("nearzeros", [], 0), atol="zero"))
                out.append(_desc(kind, cell, "fv", 2, ("nearones", [], 0), second="const", atol="zero"))
                # agree within tolerance, reduce to different shapes / to the same shape
                out.append(_desc(kind, cell, "fv", 2, pat(["dof"], 3), second="straddle"))
                out.append(_desc(kind, cell, "fv", 2, pat(["pt", "dof"], -4), second="within"))
                out.append(_desc(kind, cell, "fv", 2, pat(["pt", "dof"], 3), second="different"))
        out.append(_desc("cell", "triangle", "uv", 3, ("identity", [], 0), _pert("in", 0, 0, 2, 0, "entry")))
        out.append(_desc("cell", "triangle", "uv", 2, pat(["pt", "dof"], 3), _pert("far", 0, 0, 1, 2, "entry")))
    return out


def _conform(mode, data, name, workers=4, timeout=3600):
    d = tlc.stage(name, ["TableSpace", "TableOptConform"])
    f = d / "data.json"
    f.write_text(json.dumps(data))
    r = tlc.must_ok(tlc.run(d, "TableOptConform", cfg_text="SPECIFICATION CSpec\n", workers=workers,
                            env={"S7_FILE": str(f), "S7_MODE": mode}, timeout=timeout), f"TableOptConform {mode}")
    if r.violated:
        raise MachineryError(f"TableOptConform ({mode}) reports {r.violated}:\n" + "\n".join(r.out.splitlines()[-30:]))
    return r


def emit(chk, cands):
    """-> (valid items {id, desc, tabs, summary}, number of invalid candidates)"""
    if not cands:
        return [], 0
    r = _conform("emit", [{k: v for k, v in c.items() if k != "must"} for c in cands], "s7emit")
    chk.add(states=r.distinct, transitions=r.generated)
    by_id = {c["id"]: c for c in cands}
    items, invalid = [], 0
    for s in r.printed:
        v = tlc.parse_tla(s)
        if v[0] == "INVALID":
            invalid += 1
        elif v[0] == "TAB":
            items.append({"id": v[1], "desc": {k: x for k, x in by_id[v[1]].items() if k != "must"},
                          "must": by_id[v[1]].get("must", False),
                          "tabs": {"A": v[2]["A"] or None, "B": v[2]["B"] or None}, "summary": v[3]})
    if len(items) + invalid != len(cands):
        raise MachineryError(f"S7 emit: {len(cands)} candidates, {len(items)} tables + {invalid} invalid")
    return items, invalid


def features(it):
    d = it["desc"]
    f = {("kind", d["kind"]), ("cell", d["kind"], d["cell"]), ("form", d["kind"], d["form"]), ("base", d["base"]["kind"]),
         ("cls", d["pert"]["cls"]), ("ext", d["pert"]["ext"], d["pert"]["cls"] != "none"), ("second", d["second"]),
         ("atol", d["atol"]), ("nq", d["kind"], min(d["nq"], 3)), ("sides", d["sa"], d["sb"]),
         ("pertperm", d["pert"]["cls"], d["pert"]["pp"] > 0)}
    for s in it["summary"][:1]:
        f.add(("pert-on", d["pert"]["cls"], d["pert"]["ext"], d["pert"]["pp"] > 0, s["ttype"]))
    for s in it["summary"]:
        f.add(("ttype", s["ttype"], s["isperm"]))
        f.add(("kind-ttype", d["kind"], s["ttype"]))
        f.add(("hit", s["hit"] > 0, s["ttype"]))
        f.add(("atol-ttype", d["atol"], s["ttype"], d["pert"]["cls"]))
    return f


def select(items, n, rnd):
    """Greedy covering sample: repeatedly take the item that adds most unseen features."""
    pool = [it for it in items if not it.get("must")]
    rnd.shuffle(pool)
    feats = {it["id"]: features(it) for it in items}
    out = [it for it in items if it.get("must")]          # the targeted descriptions are always realised
    seen = set().union(*[feats[it["id"]] for it in out]) if out else set()
    while pool and len(out) < n:
        best = max(pool, key=lambda it: len(feats[it["id"]] - seen))
        pool.remove(best)
        out.append(best)
        seen |= feats[best["id"]]
    return out


# ---------------------------------------------------------------------------
# (c) the real pipeline

def run_workers(items, full, nworkers=3, module_size=8, repo=None, tag="s7"):
    """Group the items into JIT modules (same options, forms and expressions apart) and run them in worker processes."""
    opts = {"default": {}, "large": {"table_atol": 1e-6}, "zero": {"table_atol": 0.0, "table_rtol": 0.0}}
    groups: dict = {}
    for it in items:
        d = it["desc"]
        groups.setdefault((d["kind"].startswith("expr"), d["atol"]), []).append(
            {"id": it["id"], "desc": d, "tabs": it["tabs"]})
    modules = []
    for (isexpr, atol), its in groups.items():
        for lo in range(0, len(its), module_size):
            modules.append({"isexpr": isexpr, "options": opts[atol], "items": its[lo:lo + module_size]})
    modules.sort(key=lambda m: -sum(4 if i["desc"]["cell"] == "tetrahedron" else 1 for i in m["items"]))
    nworkers = max(1, min(nworkers, len(modules)))
    lanes = [modules[k::nworkers] for k in range(nworkers)]
    d = scratch("s7")
    stamp = f"{tag}-{os.getpid()}-{int(time.time() * 1e3) % 10**8}"

    def one(k):
        jf, of = d / f"job-{stamp}-{k}.json", d / f"out-{stamp}-{k}.json"
        jf.write_text(json.dumps({"modules": lanes[k], "full": full, "tag": f"{stamp}-{k}"}))
        env = child_env()
        if repo is not None:
            env["VERIF_REPO"] = str(repo)
            env["PYTHONPATH"] = os.pathsep.join([str(repo), str(VERIF)])
        p = subprocess.run([PY, "-m", "harness.s7w", str(jf), str(of)], env=env, capture_output=True, text=True,
                           timeout=7200, cwd=str(VERIF))
        if p.returncode != 0 or not of.exists():
            raise MachineryError(f"S7 worker failed:\n{p.stderr[-3000:]}")
        return json.loads(of.read_text())

    recs = []
    with ThreadPoolExecutor(nworkers) as ex:
        for out in ex.map(one, range(nworkers)):
            recs += out
    return recs


JUDGE_FIELDS = ("id", "desc", "roles", "mts", "permok", "w8", "c", "x", "reqs")


def judge(chk, recs, name="s7judge"):
    """TLC's verdicts: {id: [viol tuples]} for every record (empty list = OK)."""
    data = [{k: r[k] for k in JUDGE_FIELDS} for r in recs]
    for r in data:
        if not r["c"] or not r["c"][0]:
            r["c"] = [[0]]
    if not data:
        return {}
    out = _conform("judge", data, name)
    chk.add(states=out.distinct, transitions=out.generated)
    verdicts: dict = {}
    for s in out.printed:
        v = tlc.parse_tla(s)
        if v[0] == "OK":
            verdicts.setdefault(v[1], [])
        elif v[0] == "VIOL":
            verdicts.setdefault(v[1], []).append((v[2], v[3]))
    missing = [r["id"] for r in data if r["id"] not in verdicts]
    if missing:
        raise MachineryError(f"S7 judge: no verdict for {missing[:3]} ({len(missing)} records)")
    return verdicts


# cheap negative controls: one recorded field corrupted -> TLC must reject with that clause
def corruptions(rec):
    out = []

    def variant(tag, clause, fn):
        r = copy.deepcopy({k: rec[k] for k in JUDGE_FIELDS})
        if fn(r) is not False:
            r["id"] = f"NC[{tag}]:{rec['id']}"
            out.append((r, clause))

    def ttype(r):
        t = r["mts"][0]["ttype"]
        r["mts"][0]["ttype"] = "varying" if t != "varying" else "uniform"

    def value(r):
        m = r["mts"][0]
        m["vals"][0][0][0][0][1] += 7

    def isperm(r):
        r["mts"][0]["isperm"] = not r["mts"][0]["isperm"]

    def shape(r):
        r["mts"][0]["shape"][2] += 1

    def name(r):
        if len(r["mts"]) < 2:
            return False
        r["mts"][1]["nameix"] = 2 if r["mts"][1]["nameix"] == 1 else 1

    def tensor0(r):
        r["reqs"][-1]["n0"][-1] += 1

    def tensor1(r):
        r["reqs"][0]["n1"][0] += 4000

    def order(r):
        if len(r["mts"]) < 2 or r["mts"][0]["role"] == r["mts"][1]["role"]:
            return False
        r["mts"][0]["role"], r["mts"][1]["role"] = r["mts"][1]["role"], r["mts"][0]["role"]

    for tag, clause, fn in (("ttype", "ttype", ttype), ("value", "values", value), ("isperm", "is_permuted", isperm),
                            ("shape", "shape", shape), ("name", "name", name), ("tensor-n0", "tensor", tensor0),
                            ("tensor-n1", "tensor", tensor1), ("roles", "structure", order)):
        variant(tag, clause, fn)
    return out


# ---------------------------------------------------------------------------
# (e) verdicts and counters

def report(chk, recs, verdicts, label_prefix="s7", scope="x"):
    nviol = 0
    ttypes, kinds, perm_tt, evals, nontrivial, hits = {}, {}, {}, 0, set(), 0
    samples = []
    for r in recs:
        lab = r["id"]
        d = r["desc"]
        if r.get("error"):
            chk.violation(f"{label_prefix}:{lab}:rejected",
                          f"{lab}: ffcx fails on a form built from supported pieces whose element table is inside the model: "
                          f"{r['error']}", {"desc": d, "error": r["error"]})
            nviol += 1
            continue
        if r.get("geomshare"):
            raise MachineryError(f"S7 {lab}: an injected table was deduplicated with a geometry table {r['geomshare']}")
        kinds[d["kind"]] = kinds.get(d["kind"], 0) + 1
        for m in r["mts"]:
            ttypes[m["ttype"]] = ttypes.get(m["ttype"], 0) + 1
            key = f"{m['ttype']}{'+perm' if m['isperm'] else ''}"
            perm_tt[key] = perm_tt.get(key, 0) + 1
        hits += sum(1 for k, m in enumerate(r["mts"]) if m["nameix"] != k + 1)
        evals += len(r["reqs"])
        if any(any(r_["n0"]) or any(r_["n1"]) for r_ in r["reqs"]):
            nontrivial.add(lab)
        if len(samples) < 3 and any(any(r_["n0"]) for r_ in r["reqs"]):
            samples.append({"description": lab, "ttypes": [m["ttype"] for m in r["mts"]],
                            "shapes": [m["shape"] for m in r["mts"]], "request": [r["reqs"][0]["ent"], r["reqs"][0]["perm"]],
                            "kernel_first_entries": r.get("sampleA")})
        for clause, detail in verdicts.get(lab, []):
            nviol += 1
            what = {
                "tensor": "the compiled kernel's tensor differs from sum_q w_q * scale * (table entries) of the clamped, "
                          "reduced table read with the generators' index rule",
                "ttype": "analyse_table_type's class is not the one the clamped table has",
                "shape": "the reduced table does not have the shape the class / is_permuted imply",
                "is_permuted": "is_permuted differs from what the reduced table's permutation slices say",
                "values": "the values kept for the table are not the clamped (or deduplicated) ones",
                "name": "table-name sharing (dedupe) differs: the first existing table of the same shape within tolerance must be used",
                "perm-points": "a permutation slice was tabulated at points that are not the permuted rule",
                "structure": "the terminals / tables recorded do not fit the form",
                "out-of-model": "the processing order met in the code puts the description outside the model",
            }.get(clause, clause)
            if clause == "out-of-model":
                chk.note(f"S7 {lab}: {what} (not judged)")
                nviol -= 1
                chk.add(skipped_out_of_model=1)
                continue
            chk.violation(f"{label_prefix}:{lab}:{clause}", f"{lab}: {what}; TLC: {str(detail)[:400]}",
                          {"desc": d, "clause": clause, "detail": detail, "mts": [{k: m[k] for k in ("role", "ttype", "shape", "isperm", "nameix")} for m in r["mts"]],
                           "mtinfo": r.get("mtinfo")})
    chk.add(traces_validated_against_impl=len([r for r in recs if not r.get("error")]), evaluations=evals,
            distinct_nontrivial=len(nontrivial), s7_dedupe_hits=hits, samples=samples,
            **{f"s7_{scope}_ttypes": ttypes, f"s7_{scope}_kinds": kinds, f"s7_{scope}_ttype_perm": perm_tt})
    return {"violations": nviol, "ttypes": ttypes, "kinds": kinds, "ttype_perm": perm_tt, "evaluations": evals,
            "distinct_nontrivial": len(nontrivial), "dedupe_hits": hits}


def realise_and_judge(chk, items, full, nworkers=3, repo=None, with_nc=True, tag="s7"):
    recs = run_workers(items, full, nworkers=nworkers, repo=repo, tag=tag)
    good = [r for r in recs if not r.get("error")]
    nc = []
    if with_nc:
        # corrupt records that are (by the look of it) fine; decided below by TLC
        for r in good[:3] + [r for r in good if len(r["mts"]) >= 2 and r["mts"][0]["role"] != r["mts"][1]["role"]][:1]:
            nc += corruptions(r)
    verdicts = judge(chk, good + [r for r, _ in nc])
    if with_nc:
        base_ok = {r["id"] for r in good if not verdicts.get(r["id"])}
        caught, tried = set(), 0
        for r, clause in nc:
            orig = r["id"].split(":", 1)[1]
            if orig not in base_ok:
                continue                      # only meaningful on a record that TLC accepts
            tried += 1
            got = {c for c, _ in verdicts.get(r["id"], [])}
            if clause not in got:
                raise MachineryError(f"S7 negative control: record {r['id']} was corrupted ({clause}) but TLC says {got or 'OK'}")
            caught.add(r["id"].split("]")[0][3:])
        chk.add(s7_corrupted_records_rejected=tried, s7_corruption_kinds=sorted(caught))
    return recs, verdicts


_once_lock = threading.Lock()
_once_done: set = set()


def _first_time(key):
    with _once_lock:
        if key in _once_done:
            return False
        _once_done.add(key)
        return True


def run_tables(chk, scope):
    """The S7 check of one scope ("cell" | "facet" | "perm").  Returns a small dict of counters.
    quick: small design universe, ~16 descriptions; thorough: larger universe, design-level negative controls (once per
    process), hundreds of descriptions with every (entity, permutation) request, and the hand-mutated copies of ffcx
    that this scope must notice."""
    if scope not in SCOPES:
        raise ValueError(scope)
    quick = chk.tier == "quick"
    rnd = random.Random(chk.seed * 1000003 + {"cell": 11, "facet": 23, "perm": 37}[scope])
    t0 = time.time()
    res = {"scope": scope}
    with ThreadPoolExecutor(2) as ex:
        fut_model = ex.submit(check_model, chk, chk.tier)
        fut_nc = ex.submit(model_negative_controls, chk) if (not quick and _first_time("model-nc")) else None
        # descriptions
        n = {"cell": 14, "facet": 16, "perm": 16}[scope] if quick else {"cell": 200, "facet": 300, "perm": 300}[scope]
        atols = ["default", "default", "large", "zero"] if not quick else ["default", "default", rnd.choice(["large", "zero"])]
        cands = propose(scope, rnd, 3 * n, atols)
        have = {c["id"] for c in cands}
        tg = [c for c in targeted(scope, quick) if c["id"] not in have]
        if quick:                      # a seeded half of the quick sample is targeted, the rest random + covering
            tg = rnd.sample(tg, min(len(tg), n // 2))
        cands = tg + cands
        items, invalid = emit(chk, cands)
        if tg and not any(it.get("must") for it in items):
            raise MachineryError("S7: TLC rejected every targeted description")
        chosen = select(items, n, rnd)
        t1 = time.time()
        recs, verdicts = realise_and_judge(chk, chosen, full=not quick, nworkers=3 if quick else 4)
        t2 = time.time()
        res.update(report(chk, recs, verdicts, scope=scope))
        res.update(candidates=len(cands), candidates_invalid=invalid, realised=len(recs))
        if not quick:
            mine = [k for k, v in MUTATIONS.items() if v[3] == scope]
            res["mutations_caught"] = {k: v["clauses"] for k, v in mutation_controls(chk, names=mine).items()}
        res.update(fut_model.result())
        if fut_nc is not None:
            res["model_negative_controls"] = fut_nc.result()
    chk.add(rule="TLC validates seeded candidate table descriptions (kind x cell x form x base pattern x one perturbation "
                 "x second table x clamp tolerance) and prints their raw tables; targeted descriptions + a greedy covering "
                 "sample are injected into the real pipeline; non-trivial = some request gives a non-zero tensor",
            s7_candidates_invalid=invalid)
    chk.note(f"S7 {scope}: {len(recs)} descriptions realised ({invalid}/{len(cands)} candidates outside the model), "
             f"{res['evaluations']} kernel requests judged, emit {t1 - t0:.0f}s, pipeline+judge {t2 - t1:.0f}s, "
             f"total {time.time() - t0:.0f}s; ttypes {res['ttypes']}")
    return res


def replay(chk, path):
    """Re-run the description of a recorded violation."""
    doc = json.loads(open(path).read())
    d = doc["payload"]["desc"]
    d["id"] = label_of(d)
    items, invalid = emit(chk, [d])
    if not items:
        raise MachineryError(f"S7 replay: description {d['id']} is outside the model")
    recs, verdicts = realise_and_judge(chk, items, full=True, nworkers=1, with_nc=False)
    return report(chk, recs, verdicts)


# ---------------------------------------------------------------------------
# binding controls on hand-mutated copies of ffcx (thorough tier / on request)

MUTATIONS = {
    # name: (file, old text, new text, scope that must catch it)
    "symbols-no-uniform-slot": ("ffcx/codegeneration/symbols.py",
                                "        if tabledata.is_uniform:\n            entity = 0\n        else:",
                                "        if False:\n            entity = 0\n        else:", "perm"),
    "access-no-uniform-slot": ("ffcx/codegeneration/access.py",
                               "        if tabledata.is_uniform:\n            entity = L.LiteralInt(0)\n",
                               "        if False:\n            entity = L.LiteralInt(0)\n", "facet"),
    "piecewise-entity0-only": ("ffcx/ir/elementtables.py",
                               "        np.allclose(table[0, :, 0, :], table[0, :, i, :], rtol=rtol, atol=atol)",
                               "        np.allclose(table[0, 0, 0, :], table[0, 0, i, :], rtol=rtol, atol=atol)", "facet"),
    "is-permuted-before-reductions": ("ffcx/ir/elementtables.py",
                                      "        if tabletype in piecewise_ttypes:\n            # Reduce table to dimension 1 along num_points axis in generated code\n            tbl = tbl[:, :, :1, :]\n        if tabletype in uniform_ttypes:\n            # Reduce table to dimension 1 along num_entities axis in generated code\n            tbl = tbl[:, :1, :, :]\n        is_permuted = is_permuted_table(tbl)\n",
                                      "        is_permuted = is_permuted_table(tbl)\n        if tabletype in piecewise_ttypes:\n            tbl = tbl[:, :, :1, :]\n        if tabletype in uniform_ttypes:\n            tbl = tbl[:, :1, :, :]\n", "perm"),
    "clamp-with-default-tolerance": ("ffcx/ir/elementtables.py",
                                     'tbl = clamp_table_small_numbers(t["array"], rtol=rtol, atol=atol)',
                                     'tbl = clamp_table_small_numbers(t["array"])', "cell"),
    "classify-with-configured-tolerance": ("ffcx/ir/elementtables.py",
                                           "        tabletype = analyse_table_type(tbl)\n",
                                           "        tabletype = analyse_table_type(tbl, rtol=rtol, atol=atol)\n", "cell"),
    "uniform-test-rtol-only": ("ffcx/ir/elementtables.py",
                               "        np.allclose(table[0, 0, :, :], table[0, i, :, :], rtol=rtol, atol=atol)",
                               "        np.allclose(table[0, 0, :, :], table[0, i, :, :], rtol=rtol, atol=0.0)", "facet"),
    "dedupe-ignores-shape": ("ffcx/ir/elementtables.py",
                             "    if a.shape != b.shape:\n        return False\n    else:\n        return np.allclose(a, b, rtol=rtol, atol=atol)",
                             "    try:\n        return np.allclose(a, b, rtol=rtol, atol=atol)\n    except ValueError:\n        return False", "cell"),
    "dedupe-keeps-own-values": ("ffcx/ir/elementtables.py",
                                "                name = table_name\n                tbl = _existing_tables[name]\n",
                                "                name = table_name\n", "cell"),
    "zeros-on-slice0-only": ("ffcx/ir/elementtables.py",
                             "    return np.prod(table.shape) == 0 or np.allclose(\n        table, np.zeros(table.shape), rtol=rtol, atol=atol\n    )",
                             "    return np.prod(table.shape) == 0 or np.allclose(\n        table[0], np.zeros(table[0].shape), rtol=rtol, atol=atol\n    )", "perm"),
    "minus-side-reads-plus-permutation": ("ffcx/codegeneration/access.py",
                                          '            if restriction == "-":\n                qp = self.symbols.quadrature_permutation[1]\n',
                                          '            if restriction == "-":\n                qp = self.symbols.quadrature_permutation[0]\n', "perm"),
}


def mutation_controls(chk, names=None, n=None, keep_going=False):
    """Apply each textual mutation to a scratch worktree of the repository, run the scope that should notice on the
    mutated tree and require at least one violation.  Returns {name: sorted clauses that caught it}."""
    from .common import REPO

    class Quiet:
        """collects verdicts without touching the real check's verdict list"""

        def __init__(self, seed, tier):
            self.seed, self.tier, self.v, self.cov, self.notes = seed, tier, [], {}, []

        def violation(self, key, what, payload=None):
            self.v.append((key, what))

        def note(self, msg):
            self.notes.append(msg)

        def add(self, **kw):
            for k, v in kw.items():
                if isinstance(v, int) and not isinstance(v, bool) and k in ("states", "transitions"):
                    self.cov[k] = self.cov.get(k, 0) + v

    out = {}
    for name in (names or list(MUTATIONS)):
        path, old, new, scope = MUTATIONS[name]
        wt = f"/tmp/wt-s7-{os.getpid()}-{list(MUTATIONS).index(name)}"
        subprocess.run(["git", "-C", str(REPO), "worktree", "remove", "--force", wt], capture_output=True)
        p = subprocess.run(["git", "-C", str(REPO), "worktree", "add", "--detach", wt, "HEAD"], capture_output=True, text=True)
        if p.returncode != 0:
            raise MachineryError(f"S7: cannot create scratch worktree: {p.stderr[-500:]}")
        try:
            f = os.path.join(wt, path)
            src = open(f).read()
            if src.count(old) != 1:
                raise MachineryError(f"S7 mutation {name}: anchor text found {src.count(old)} times in {path}")
            open(f, "w").write(src.replace(old, new))
            q = Quiet(chk.seed, "quick")
            rnd = random.Random(chk.seed * 7919 + 5)
            m = n or 40
            cands = targeted(scope, False) + propose(scope, rnd, 3 * m, ["default", "default", "large", "zero"])
            items, _ = emit(q, cands)
            chosen = select(items, m, rnd)
            recs, verdicts = realise_and_judge(q, chosen, full=False, nworkers=3, repo=wt, with_nc=False, tag=f"mut-{name[:12]}")
            report(q, recs, verdicts)
            clauses = sorted({k.rsplit(":", 1)[1] for k, _ in q.v})
            out[name] = {"scope": scope, "violations": len(q.v), "clauses": clauses,
                         "first": q.v[0][0] if q.v else None}
            chk.add(states=q.cov.get("states", 0), transitions=q.cov.get("transitions", 0))
            if not q.v and not keep_going:
                raise MachineryError(f"S7 binding control: mutation '{name}' of {path} was NOT noticed by scope {scope}")
        finally:
            subprocess.run(["git", "-C", str(REPO), "worktree", "remove", "--force", wt], capture_output=True)
    chk.add(s7_mutations_caught={k: v["clauses"] for k, v in out.items()})
    return out
