"""C11 exactness sweep, implementation side: for (cell, degree, scheme) build
   sum_k c_k prod_d T_{a_kd}(2 x_d - 1) * dx(degree=q, scheme=s), compile, and read each term's integral
   off the reference cell by calling the kernel with unit constant vectors.
   /venv/bin/python -m harness.c11w <jobs.json> <out.json>"""
import json
import sys

import numpy as np

from . import s5
from .common import ensure_repo_on_path


def main():
    ensure_repo_on_path()
    import basix.ufl as bu
    import ufl

    jobs = json.load(open(sys.argv[1]))
    out = []
    for job in jobs:
        cell, q, scheme, terms = job["cell"], job["q"], job["scheme"], job["terms"]
        td = len(terms[0])
        dom = ufl.Mesh(bu.element("Lagrange", cell, 1, shape=(td,)))
        x = ufl.SpatialCoordinate(dom)
        c = ufl.Constant(dom, shape=(len(terms),))
        T = []
        for d in range(td):
            s_ = 2 * x[d] - 1
            t = [1 + 0 * s_, s_]
            for n in range(2, max(a[d] for a in terms) + 1):
                t.append(2 * s_ * t[n - 1] - t[n - 2])
            T.append(t)
        integrand = 0
        for k, a in enumerate(terms):
            f = c[k]
            for d in range(td):
                f = f * T[d][a[d]]
            integrand = integrand + f
        md = {"quadrature_degree": q}
        if scheme != "default":
            md["quadrature_rule"] = scheme
        form = integrand * ufl.dx(metadata=md)
        try:
            mod = s5.Module([form], job.get("scalar", "float64"))
        except Exception as e:  # noqa: BLE001
            out.append({"job": job, "error": f"{type(e).__name__}: {str(e)[:300]}"})
            continue
        kern = mod.kernels(0, "cell", -1)[0]
        geom, _ = s5.ref_geometry(cell)
        xs = np.zeros((len(geom), 3))
        xs[:, :td] = geom
        vals = []
        for k in range(len(terms)):
            A = np.zeros(1)
            cv = np.zeros(len(terms))
            cv[k] = 1.0
            mod.call(kern, A, np.zeros(0), cv, xs, np.zeros(2, dtype=np.int32), np.zeros(2, dtype=np.uint8))
            vals.append(float(A[0]))
        out.append({"job": job, "values": vals})
    json.dump(out, open(sys.argv[2], "w"))


if __name__ == "__main__":
    main()
