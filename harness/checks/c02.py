"""C02 - facet and vertex kernels integrate over the indicated local entity (macro layout for interior facets)."""
from .. import s5
from ..common import MachineryError

MANIFEST = {
    "engine": "S5-Fem",
    "technique": "TLA+ exact reference semantics (Fem.tla + RefCell.tla) evaluated by TLC for every local entity / restriction case enumerated from FormSpace.tla; real kernels compared entry-wise; plus S7: TLA+ model of the element-table pipeline (TableOpt.tla, exhaustively checked) bound to the real pipeline by injected tables (facet scope), records judged by TLC",
    "text": "FormSpace.tla enumerates facet/vertex cases (cell incl. prism x element x integrand (mass, flux with normals, coefficients, "
            "jumps, averages, +/- products) x measure ds/dS/dP x rule). For exterior facets and vertices every local entity index is run; for "
            "interior facets two cells that really share a facet are generated with random local numbering on the '-' side, different data on "
            "both sides and random permutation codes. RefCell.tla supplies facet topology, reference->cell facet maps and outward normals as an "
            "independent transcription; Fem.tla recomputes the mapped quadrature points itself (a disagreement with the harness is a machinery "
            "failure), evaluates scale = pdet(J dF), n = K^T n_ref/|.|, and the macro layout A[+,-]x[+,-], w[coef][side][dof], "
            "coordinate_dofs[side][node][3], entity_local_index[side]; every tensor entry must match the exact rational.",
    "design_ref": "DESIGN.md section 4 C02",
    "note": "Trusted as in C01. Geometries are chosen so that facet measures and unit normals are rational (perfect-square radicands); other "
            "geometries are outside the exact model. Interior-facet pairs use degree-1 coordinate elements.",
}


def run(chk):
    quick = chk.tier == "quick"
    fc = s5.enumerate_formspace(chk, facets=True)
    sel = s5.sample_cases(fc, 34 if quick else 500, chk.seed, max_cost=60 if quick else 300)
    # derivative tables on every facet of the tensor-product cells (their facets differ in which reference
    # derivative is constant along them)
    der = [c for c in fc if c["term"] in ("flux", "avgflux") and c["cell"] in ("quadrilateral", "hexahedron", "prism") and c["rule"] != "vertex"]
    sel += [c for c in s5.sample_cases(der, 4 if quick else 40, chk.seed + 3, max_cost=40 if quick else 400) if c not in sel]
    # geometric quantities lowered to raw vertex access (circumradius, diameter, edge lengths), with restrictions
    geo = [c for c in fc if c["term"] in ("geods", "geodS")]
    sel += [c for c in s5.sample_cases(geo, 6 if quick else 42, chk.seed + 4, max_cost=80) if c not in sel]
    items = [{"case": c, "seed": chk.seed * 100003 + i, "scalar": "float64", "ninputs": 1 if quick else 2,
              "builder": "harness.corpus.realise_facet",
              "max_entities": (None if c["cell"] in ("interval", "triangle", "quadrilateral") else 3) if quick else None,
              "npairs": 2 if quick else 4, "nperm": 2, "prefill": i % 2 == 0} for i, c in enumerate(sel)]
    # every quadrature-permutation code of every facet type on both sides (the reference-facet symmetries: 2 for
    # intervals, 6 for triangles, 8 for quadrilaterals - rotations and reflections do not commute on the last two)
    for j, cl in enumerate(("triangle", "tetrahedron", "hexahedron", "quadrilateral")):
        cs = [c for c in fc if c["cell"] == cl and c["measure"] == "dS" and c["elem"] == "P1" and c["rule"] == "custom"
              and c["term"] in (("coefpm", "pm") if quick else ("coefpm", "pm", "jump", "avgflux"))]
        for i, c in enumerate(s5.sample_cases(cs, 1 if quick else 3, chk.seed + 30 + j)):
            items.append({"case": c, "seed": chk.seed * 100003 + 900 + 10 * j + i, "scalar": "float64", "ninputs": 1,
                          "builder": "harness.corpus.realise_facet", "npairs": 1 if quick else 3, "allperms": True,
                          "label": s5.case_label(c) + "|allperms"})
    # S7: the table pipeline (clamp / classify / compress / dedupe / access) with injected tables, facet scope
    from .. import s7
    chk.add(s7=s7.run_tables(chk, "facet"))
    recs = s5.run_items(chk, items, nworkers=4 if quick else 6)
    nz = s5.report(chk, items, recs)
    ents = {(lab, e) for (lab, it, e, p) in nz}
    chk.add(distinct_nontrivial=len(nz), distinct_entities=len(ents),
            rule="facet cases enumerated by TLC from FormSpace.tla (FCase), seed-sampled to cover every attribute value and "
                 "(element, term) pair; each exterior-facet/vertex case runs on local entities, each interior-facet case on "
                 "generated neighbour pairs x permutation codes; non-trivial = exact tensor not all zero; "
                 "distinct = (case, integral type, entities, permutation codes)")
    if len(nz) < (40 if quick else 400):
        raise MachineryError(f"vacuity guard: only {len(nz)} non-trivial facet cases were evaluated")
    chk.assumptions += ["UFL physical-space lowering and basix tabulation are trusted",
                        "UFL's n('-') = -n('+') on affine meshes: interior-facet inputs are physically matching cell pairs"]


def replay(chk, path):
    s5.replay(chk, path)
