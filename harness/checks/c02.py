"""C02 - facet, vertex and ridge kernels integrate over the indicated local entity (macro layout for interior facets)."""
from .. import s5
from ..common import MachineryError

MANIFEST = {
    "engine": "S5-Fem",
    "technique": "TLA+ exact reference semantics (Fem.tla + RefCell.tla) evaluated by TLC for every local entity / restriction case enumerated from FormSpace.tla; real kernels compared entry-wise; plus S7: TLA+ model of the element-table pipeline (TableOpt.tla, exhaustively checked) bound to the real pipeline by injected tables (facet scope), records judged by TLC",
    "text": "FormSpace.tla enumerates facet/vertex cases (cell incl. prism x element x integrand (mass, flux with normals, coefficients, "
            "jumps, averages, +/- products) x measure ds/dS/dP x rule). For exterior facets and vertices every local entity index is run; for "
            "interior facets two cells that really share a facet are generated with random local numbering on the '-' side, different data on "
            "both sides and random permutation codes. RefCell.tla supplies facet topology, reference->cell facet maps and outward normals as an "
            "independent transcription; Fem.tla recomputes the mapped quadrature points itself (a disagreement with the harness is a machinery "
            "failure), evaluates scale = pdet(J dF), n = K^T n_ref/|.|, and the macro layout A[+,-]x[+,-], w[coef][side][dof], "
            "coordinate_dofs[side][node][3], entity_local_index[side]; every tensor entry must match the exact rational. "
            "Ridge integrals (measure dr, codimension 2; ufcx type 4): RefCell.tla lists the ridges (edges of 3D cells, vertices of 2D "
            "cells; compared with basix.topology per case), Fem.tla maps the reference-ridge points X = V_a + perm(s)(V_b - V_a) with the "
            "reflection code of quadrature_permutation[0] and scales by |J (V_b - V_a)| (1 on 2D cells); every local ridge of the "
            "triangle and the tetrahedron with both codes, the other cells on samples.",
    "design_ref": "DESIGN.md section 4 C02",
    "note": "Trusted as in C01. Geometries are chosen so that facet measures and unit normals are rational (perfect-square radicands); other "
            "geometries are outside the exact model. Interior-facet pairs use degree-1 coordinate elements. Ridge cases: single-domain "
            "integrals only (mixed-dimensional ridge integrals are not modelled), geometries with rational ridge length.",
}


RIDGES = {"triangle": 3, "quadrilateral": 4, "tetrahedron": 6, "hexahedron": 12, "prism": 9}    # ridges per cell


def ridge_items(chk, quick):
    """Ridge integrals (measure dr, ufcx integral type 4): edges of 3D cells, vertices of 2D cells.  Every local ridge
    index of the triangle and the tetrahedron in both tiers (tetrahedron: with both reflection codes of the
    reference-ridge points); the other cells on a sample of ridges (quick) / every ridge (thorough)."""
    rc = s5.enumerate_formspace(chk, ridges=True)
    mk = "harness.corpus.realise_facet"
    items = []
    # 1. all ridges: the P1 mass matrix (never zero on any ridge, so the vacuity guards below cannot trip on unlucky
    #    data) and, thorough, further cheap scalar cases; on the tetrahedron with the custom rule {1/4, 5/8}
    #    (corpus.CUSTOM["interval"][1]: not symmetric under s -> 1 - s, so the reflection code matters) and both codes
    #    on every edge
    for j, (cl, rule) in enumerate((("triangle", "exact"), ("tetrahedron", "custom"))):
        cs = [c for c in rc if c["cell"] == cl and c["rule"] == rule and c["elem"] in ("P1", "DG1")]
        pick = [c for c in cs if c["elem"] == "P1" and c["term"] == "mass"]
        if len(pick) != 1:
            raise MachineryError(f"FormSpace.tla no longer has the {cl}/P1/mass/dr/{rule} case")
        if not quick:
            pick += s5.sample_cases([c for c in cs if c["term"] in ("coef", "fload", "rgrad", "xw")], 2, chk.seed + 50 + j)
        for i, c in enumerate(pick):
            items.append({"case": c, "seed": chk.seed * 100003 + 700 + 10 * j + i, "scalar": "float64", "ninputs": 1,
                          "builder": mk, "allperms": True, "custom_which": 1, "label": s5.case_label(c) + "|allridges"})
    # 2. covering sample of the whole dr space
    sel = s5.sample_cases(rc, 5 if quick else 70, chk.seed + 5, max_cost=2.5 if quick else 30)
    for i, c in enumerate(sel):
        items.append({"case": c, "seed": chk.seed * 100003 + 800 + i, "scalar": "float64", "builder": mk,
                      "ninputs": 2 if not quick and c["cell"] in ("triangle", "quadrilateral") else 1,
                      "max_entities": 2 if quick else None, "prefill": i % 2 == 0})
    # 3. cells whose Jacobian varies along the ridge (degree-1 hypercubes / prism with nodes off the ridge moved): the
    #    ridge keeps its rational length, J and K at the ridge's points differ from point to point
    if not quick:
        cs = [c for c in rc if c["cell"] in ("quadrilateral", "hexahedron", "prism") and c["rule"] != "vertex"
              and c["term"] in ("mass", "coef", "rgrad", "xw", "area")
              # 1 / det J varies along the edge: grad-grad is not a polynomial there, a default rule is no exact oracle
              and not (c["term"] == "rgrad" and c["rule"] == "exact" and c["cell"] in ("hexahedron", "prism"))]
        for i, c in enumerate(s5.sample_cases(cs, 10, chk.seed + 6, max_cost=30)):
            items.append({"case": c, "seed": chk.seed * 100003 + 1200 + i, "scalar": "float64", "ninputs": 1, "builder": mk,
                          "geom": "nonaffine", "max_entities": 4, "label": s5.case_label(c) + "|nonaffine"})
    return items


def run(chk):
    quick = chk.tier == "quick"
    fc = s5.enumerate_formspace(chk, facets=True)
    sel = s5.sample_cases(fc, 34 if quick else 300, chk.seed, max_cost=60 if quick else 100)
    # derivative tables on every facet of the tensor-product cells (their facets differ in which reference
    # derivative is constant along them)
    der = [c for c in fc if c["term"] in ("flux", "avgflux") and c["cell"] in ("quadrilateral", "hexahedron", "prism") and c["rule"] != "vertex"]
    sel += [c for c in s5.sample_cases(der, 4 if quick else 40, chk.seed + 3, max_cost=40 if quick else 400) if c not in sel]
    # geometric quantities lowered to raw vertex access (circumradius, diameter, edge lengths), with restrictions
    geo = [c for c in fc if c["term"] in ("geods", "geodS")]
    sel += [c for c in s5.sample_cases(geo, 6 if quick else 42, chk.seed + 4, max_cost=80) if c not in sel]
    items = [{"case": c, "seed": chk.seed * 100003 + i, "scalar": "float64", "ninputs": 1 if quick else 2,
              "builder": "harness.corpus.realise_facet",
              "max_entities": (None if c["cell"] in ("interval", "triangle", "quadrilateral") else 3) if quick else None,
              "npairs": 2 if quick else 4, "nperm": 2, "prefill": i % 2 == 0} for i, c in enumerate(sel)]
    # every quadrature-permutation code of every facet type on both sides (the reference-facet symmetries: 2 for
    # intervals, 6 for triangles, 8 for quadrilaterals - rotations and reflections do not commute on the last two)
    for j, cl in enumerate(("triangle", "tetrahedron", "hexahedron", "quadrilateral")):
        cs = [c for c in fc if c["cell"] == cl and c["measure"] == "dS" and c["elem"] == "P1" and c["rule"] == "custom"
              and c["term"] in (("coefpm", "pm") if quick else ("coefpm", "pm", "jump", "avgflux"))]
        heavy = cl == "hexahedron"                  # one exact hexahedron interior-facet tensor costs minutes in TLC
        for i, c in enumerate(s5.sample_cases(cs, 1 if (quick or heavy) else 3, chk.seed + 30 + j)):
            items.append({"case": c, "seed": chk.seed * 100003 + 900 + 10 * j + i, "scalar": "float64", "ninputs": 1,
                          "builder": "harness.corpus.realise_facet", "npairs": 1 if (quick or heavy) else 2, "allperms": True,
                          "label": s5.case_label(c) + "|allperms"})
    # S7: the table pipeline (clamp / classify / compress / dedupe / access) with injected tables, facet scope
    from .. import s7
    chk.add(s7=s7.run_tables(chk, "facet"))
    items += ridge_items(chk, quick)
    recs = s5.run_items(chk, items, nworkers=4 if quick else 6)
    nz = s5.report(chk, items, recs)
    ents = {(lab, e) for (lab, it, e, p) in nz}
    rnz = {(lab, e[0], p[0]) for (lab, it, e, p) in nz if it == "ridge"}
    rents = {(lab.split("/")[0], e) for (lab, e, p) in rnz}
    chk.add(ridge_cases=len(rnz), ridge_entities=len(rents))
    for cl in ("triangle", "tetrahedron"):
        miss = [e for e in range(RIDGES[cl]) if (cl, e) not in rents]
        if miss:
            raise MachineryError(f"vacuity guard: no non-trivial ridge case on local ridges {miss} of the {cl}")
    if {p for (lab, e, p) in rnz if lab.startswith("tetrahedron/")} != {0, 1}:
        raise MachineryError("vacuity guard: the reflection codes 0 and 1 of tetrahedron ridges were not both exercised")
    chk.add(distinct_nontrivial=len(nz), distinct_entities=len(ents),
            rule="facet cases enumerated by TLC from FormSpace.tla (FCase), seed-sampled to cover every attribute value and "
                 "(element, term) pair; each exterior-facet/vertex case runs on local entities, each interior-facet case on "
                 "generated neighbour pairs x permutation codes; ridge cases (measure dr) run on local ridges x "
                 "reflection codes; non-trivial = exact tensor not all zero; "
                 "distinct = (case, integral type, entities, permutation codes)")
    if len(nz) < (40 if quick else 400):
        raise MachineryError(f"vacuity guard: only {len(nz)} non-trivial facet cases were evaluated")
    chk.assumptions += ["UFL physical-space lowering and basix tabulation are trusted",
                        "UFL's n('-') = -n('+') on affine meshes: interior-facet inputs are physically matching cell pairs"]


def replay(chk, path):
    s5.replay(chk, path)
