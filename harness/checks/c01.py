"""C01 - cell-integral kernels compute the form's element tensor."""
from .. import s5
from ..common import MachineryError

MANIFEST = {
    "engine": "S5-Fem",
    "technique": "TLA+ reference semantics (exact rational FEM oracle, Fem.tla) evaluated by TLC on a TLC-enumerated case space (FormSpace.tla); real JIT-compiled kernels run on the same integer data and compared entry-wise within a rounding bound emitted by the spec; plus S7: TLA+ model of the element-table pipeline (TableOpt.tla, exhaustively checked) bound to the real pipeline by injected tables (cell scope), records judged by TLC",
    "text": "FormSpace.tla enumerates abstract cases (cell x element kind x integrand shape x rule x geometry kind x coordinate degree, "
            "~3200 valid combinations); each sampled case is realised as real UFL objects and compiled by ffcx.codegeneration.jit; the "
            "generated cell kernel is called on integer geometry (random orientation, non-affine P2/Q1 cells, manifolds), integer coefficient "
            "and constant data. Fem.tla - written from first principles (x = sum x_k phi_k, J, K, |det J|, pull-backs, blocked/mixed dof layout) "
            "and using only UFL's physical-space algebra/derivative lowering and raw basix tabulations - computes every tensor entry as an exact "
            "rational, for the user's rational custom rule, the vertex rule, or (polynomial integrands on affine cells) an exact rational rule. "
            "Every entry must agree within eps*(8*ops+64)*Sum|w||detJ||factors|.",
    "design_ref": "DESIGN.md section 4 C01, appendix C",
    "note": "Trusted: UFL (algebra lowering, derivatives, degree estimation, integral grouping), basix tabulation of raw elements, the float->rational "
            "reconstruction of tabulated values (verified to 1e-12), the packing of inputs per the documented UFCx contract. Outside the exact model "
            "(skipped and counted): irrational bases (BDM/higher-order Piola), default rules for non-polynomial or non-affine integrands, 32-bit overflow.",
}


def run(chk):
    quick = chk.tier == "quick"
    cases = s5.enumerate_formspace(chk)
    n = 50 if quick else 900
    sel = s5.sample_cases(cases, n, chk.seed, max_cost=40 if quick else None)
    # cases that need the second derivatives of the geometry (Hessians, div/curl of Piola-mapped fields on bent cells)
    bent = [c for c in cases if c["geom"] == "nonaffine" and (c["term"] == "hess" or (
        c["elem"] in ("RT1", "N1", "RTCF1", "RTCE1", "RTxDG0") and c["term"] in ("divdiv", "curlcurl", "mixeddiv")))]
    sel += [c for c in s5.sample_cases(bent, 8 if quick else 60, chk.seed + 9, max_cost=60) if c not in sel]
    # transcendental functions
    fn = [c for c in cases if c["term"] in ("mathfn", "mathfn2", "bessel")]
    sel += [c for c in s5.sample_cases(fn, 5 if quick else 60, chk.seed + 10, max_cost=30) if c not in sel]
    items = [{"case": c, "seed": chk.seed * 100003 + i, "scalar": "float64", "ninputs": 2 if quick else 3,
              "prefill": i % 2 == 1} for i, c in enumerate(sel)]
    # the same tensor in complex arithmetic: sesquilinear forms with complex constants / coefficients on either side
    cx = [c for c in s5.enumerate_formspace(chk, complex_terms=True) if c["term"] in ("cplx", "sesq", "ccond")]
    for i, c in enumerate(s5.sample_cases(cx, 4 if quick else 40, chk.seed + 11, max_cost=25 if quick else 200)):
        items.append({"case": c, "seed": chk.seed * 100003 + 500 + i, "scalar": "complex128", "ninputs": 1 if quick else 2,
                      "label": s5.case_label(c) + "|complex128"})
    # S7: the table pipeline (clamp / classify / compress / dedupe / access) with injected tables, cell scope
    from .. import s7
    chk.add(s7=s7.run_tables(chk, "cell"))
    recs = s5.run_items(chk, items, nworkers=4 if quick else 6)
    nz = s5.report(chk, items, recs)
    chk.add(distinct_nontrivial=len(nz),
            rule="cases enumerated by TLC from FormSpace.tla, seed-sampled so that every attribute value and every (element, term), "
                 "(cell, geometry), (cell, rule) pair occurs; a case counts as non-trivial if its exact tensor is not all zero; "
                 "distinct = distinct (abstract case, integral type, entity, permutation)")
    if len(nz) < (30 if quick else 300):
        raise MachineryError(f"vacuity guard: only {len(nz)} non-trivial cases were evaluated")
    chk.assumptions += ["UFL physical-space lowering and basix tabulation are trusted",
                        "inputs are small integers so expected values are exact rationals within 32 bits"]


def replay(chk, path):
    s5.replay(chk, path)
