"""C18 - the numba backend computes the same tensors as the C backend."""
import numpy as np

from .. import s5
from ..common import MachineryError

MANIFEST = {
    "engine": "S5-Fem + S6-Grammar",
    "technique": "the exact oracle Fem.tla (TLC) and the C kernels are compared with the kernels of the language='numba' module executed as Python; descriptor classes compared field by field with the C structs; the Python grammar parse-back of the numba formatter is part of C16 (PyGrammar.tla)",
    "text": "For cases enumerated from FormSpace.tla (cell, facet and interior-facet integrals; all element kinds; conditionals with And/Or/Not, abs, "
            "max/min; coefficients on both sides) the module generated with language='numba' must be valid Python (compile()), its kernels - run as "
            "plain Python on the same integer data - must match the exact tensor of Fem.tla within the float rounding bound and the C kernel's output, "
            "and its form class must carry the same metadata as the C struct (rank, coefficient/constant counts, original positions, constant shapes, "
            "integral offsets/ids, per-integral domain tag, enabled coefficients, needs_facet_permutations).",
    "design_ref": "DESIGN.md section 4 C18",
    "note": "Kernels are interpreted, not numba-compiled (numba.carray is replaced by a view of the real buffers, so the array sizes declared in the "
            "generated file are not what is judged here); a seeded handful is compiled with numba.cfunc in the thorough tier. Real scalar types only.",
}


def run(chk):
    quick = chk.tier == "quick"
    cases = s5.enumerate_formspace(chk)
    fcases = s5.enumerate_formspace(chk, facets=True)
    must = [c for c in cases if c["term"] in ("cond", "absmax", "mathfn", "mathfn2", "bessel")]
    sel = (s5.sample_cases(cases, 14 if quick else 200, chk.seed, max_cost=12 if quick else 100)
           + s5.sample_cases(must, 10 if quick else 60, chk.seed + 1, max_cost=12 if quick else 100))
    fsel = s5.sample_cases([c for c in fcases if c["cell"] != "prism"], 8 if quick else 120, chk.seed + 2, max_cost=12 if quick else 100)
    # prisms: one kernel per facet cell type, so ids / offsets / domains are per kernel, not per integral
    fsel += s5.sample_cases([c for c in fcases if c["cell"] == "prism" and c["term"] in ("mass", "coef", "fload", "area")],
                            2 if quick else 12, chk.seed + 3)
    items = []
    for i, c in enumerate(sel):
        items.append({"case": c, "seed": chk.seed * 100003 + i, "scalar": "float64" if i % 3 else "float32", "ninputs": 1,
                      "options": {"language": "numba"}, "label": s5.case_label(c) + "|numba"})
    for i, c in enumerate(fsel):
        items.append({"case": c, "seed": chk.seed * 100003 + 500 + i, "scalar": "float64", "ninputs": 1, "builder": "harness.corpus.realise_facet",
                      "max_entities": 2, "npairs": 1, "nperm": 2, "options": {"language": "numba"}, "label": s5.case_label(c) + "|numba"})
    # complex scalar types (complex constants, conj / real / imag, complex literals on either side of inner)
    cxc = [c for c in s5.enumerate_formspace(chk, complex_terms=True) if c["term"] in ("cplx", "sesq", "ccond")]
    for i, c in enumerate(s5.sample_cases(cxc, 3 if quick else 30, chk.seed + 4, max_cost=12 if quick else 100)):
        items.append({"case": c, "seed": chk.seed * 100003 + 800 + i, "scalar": "complex128" if i % 2 == 0 else "complex64", "ninputs": 1,
                      "options": {"language": "numba"}, "label": s5.case_label(c) + "|numba|complex"})
    # constants of several ranks in mixed order (scalar before vector / tensor), and a mixed element (no basix hash)
    for k, (cl, var) in enumerate([("triangle", 2), ("interval", 6)] if quick else [("triangle", 2), ("interval", 6), ("tetrahedron", 2), ("quadrilateral", 3)]):
        items.append({"builder": "harness.corpus.realise_c05", "c05": {"cell": cl, "variant": var}, "seed": chk.seed * 7 + 300 + k, "scalar": "float64",
                      "ninputs": 1, "geom": "affine", "options": {"language": "numba"}, "label": f"c05/{cl}/v{var}|numba"})
    items.append({"builder": "harness.corpus.realise_thdiv", "th": {"cell": "triangle", "rule": 0, "coef": True}, "seed": chk.seed + 310, "scalar": "float64",
                  "ninputs": 1, "geom": "affine", "options": {"language": "numba"}, "label": "thdiv/triangle|numba"})
    recs = s5.run_items(chk, items, nworkers=4 if quick else 6, module_size=1)
    for r in recs:
        it = items[r["item"]]
        if r["status"] == "skipped" and r.get("numba_error"):
            c = it.get("case") or {"term": it.get("label", "?").split("|")[0]}
            chk.violation(f"numba:{r['numba_error']}:{c['term']}",
                          f"{it['label']}: the numba backend does not produce a runnable module: {r['why'][:300]}", {"item": it})
            r["why"] = "out of model: reported as numba backend failure"
            r["ffcx_error"] = False
    nz = s5.report(chk, items, recs)
    ncmp = 0
    for r in recs:
        m = r.get("meas")
        if not m or not m.get("c_twin"):
            continue
        ncmp += 1
        tw, lab = m["c_twin"], items[r["item"]]["label"]
        A = np.array([complex(a, b) for a, b in m["A"]])
        Ac = np.array([complex(a, b) for a, b in tw["A_c"]])
        scale = max(1.0, float(np.max(np.abs(Ac))) if Ac.size else 1.0)
        eps = 1e-5 if m["scalar"] == "float32" else 1e-11
        # degenerate inputs (det J = 0 at a point of a bent cell) give inf / nan in both backends: such entries
        # must be non-finite in both; all finite entries are compared
        fin = np.isfinite(A) & np.isfinite(Ac)
        scale = max(1.0, float(np.max(np.abs(Ac[fin]))) if fin.any() else 1.0)
        same = np.where(fin, np.abs(np.where(fin, A - Ac, 0)) <= eps * scale, ~np.isfinite(A) & ~np.isfinite(Ac))
        if not np.all(same):
            worst = float(np.max(np.abs((A - Ac)[fin]))) if fin.any() else float("nan")
            chk.violation(f"{lab.split('|')[0]}:numba-vs-C:{m['itype']}",
                          f"{lab} ({m['itype']}): numba kernel and C kernel differ: max |diff| over finite entries = {worst:.3g}, "
                          f"{int(np.sum(~fin))} non-finite entries",
                          {"item": items[r["item"]]})
        nd, cd = tw["nb_descriptor"], tw["c_descriptor"]
        # the numba file knows fewer integral types: compare the common prefix of the offsets
        k = min(len(nd["form_integral_offsets"]), len(cd["form_integral_offsets"]))
        diff = {f: (nd[f], cd[f]) for f in cd if f != "form_integral_offsets" and nd.get(f) != cd[f]}
        if nd["form_integral_offsets"][:k] != cd["form_integral_offsets"][:k]:
            diff["form_integral_offsets"] = (nd["form_integral_offsets"], cd["form_integral_offsets"])
        if diff:
            chk.violation(f"numba:descriptor:{'+'.join(sorted(diff))}",
                          f"{lab}: numba form class and C ufcx_form differ in {diff}", {"item": items[r["item"]]})
    nexpr = expression_descriptors(chk, quick)
    chk.add(numba_expression_descriptors=nexpr)
    chk.add(distinct_nontrivial=len(nz), numba_vs_c_comparisons=ncmp,
            rule="FormSpace.tla cases (cell + facet + interior facet) compiled with language='numba' and with the C backend; non-trivial = exact tensor "
                 "not all zero")
    if len(nz) < (15 if quick else 150):
        raise MachineryError(f"vacuity guard: only {len(nz)} non-trivial numba cases")


def expression_descriptors(chk, quick):
    """ufcx_expression of the C backend vs the expression class of the numba backend, field by field, and the two
    kernels on the same random data (expressions of several value shapes and argument counts)."""
    import random

    from ..common import ensure_repo_on_path
    from ..corpus import realise_expr
    ensure_repo_on_path()
    import ffcx.compiler
    import ffcx.naming
    import ffcx.options

    ecases = s5.enumerate_formspace(chk, exprs=True)
    want = ("u", "gradu", "fgradu", "outer", "symgrad", "elim", "fg", "un")
    pool = [c for c in ecases if c["term"] in want]
    sel = s5.sample_cases(pool or ecases, 8 if quick else 60, chk.seed + 17, max_cost=20)
    rnd = random.Random(chk.seed + 18)
    n = 0
    for c in sel:
        lab = "expr/" + "/".join(str(c[k]) for k in ("cell", "elem", "term", "pts", "geom"))
        try:
            r = realise_expr({"case": c, "seed": rnd.randrange(1 << 30)})
            cm = s5.ExprModule([(r["expr"], r["points"])], "float64", {})
        except Exception as e:  # noqa: BLE001
            chk.note(f"{lab}: not compiled by the C backend ({type(e).__name__}: {str(e)[:120]})")
            continue
        cd = cm.descriptor(0)
        try:
            opts = ffcx.options.get_options({"scalar_type": "float64", "language": "numba"})
            code, _ = ffcx.compiler.compile_ufl_objects([(r["expr"], r["points"])], options=opts, namespace="nbexpr")
            ns = {}
            exec(compile(code[0], "<generated numba module>", "exec"), ns)
            cls = [v for k, v in ns.items() if isinstance(v, type) and hasattr(v, "value_shape") and hasattr(v, "num_points")]
            e = cls[0]
        except Exception as ex:  # noqa: BLE001
            chk.violation(f"numba:expression:{type(ex).__name__}:{c['term']}",
                          f"{lab}: the numba backend does not produce a loadable expression: {type(ex).__name__}: {str(ex)[:300]}", {"case": c})
            continue
        nd = {"num_points": int(e.num_points), "entity_dimension": int(e.entity_dimension),
              "points": [float(x) for x in np.asarray(e.points, dtype=float).reshape(-1)],
              "value_shape": [int(x) for x in (e.value_shape or [])], "num_components": int(e.num_components), "rank": int(e.rank),
              "num_coefficients": int(e.num_coefficients), "num_constants": int(e.num_constants),
              "original_coefficient_positions": [int(x) for x in (e.original_coefficient_positions or [])][:int(e.num_coefficients)]}
        diff = {k: (nd[k], cd[k]) for k in cd if nd[k] != cd[k]}
        n += 1
        if diff:
            chk.violation(f"numba:expression-descriptor:{'+'.join(sorted(diff))}",
                          f"{lab}: numba expression class and C ufcx_expression differ in {diff}", {"case": c})
    return n


def replay(chk, path):
    s5.replay(chk, path)
