"""C20 - the command-line compiler emits a self-consistent header/source pair; option precedence."""
from .. import s3

MANIFEST = {
    "engine": "S3-Descriptor",
    "technique": "TLA+ specifications of option-source precedence (Options.tla) and of the header/source pair relation "
                 "(CliPair.tla); TLC enumerates configurations, computes Effective and judges real `python -m ffcx` runs "
                 "and the compiled/linked/loaded output against the JIT path",
    "text": "Options.tla: four sources (defaults, user json, PWD json, command line), Effective(o) = first set in CLI > PWD > user > "
            "default; TLC model-checks the precedence theorems on all configurations with a bounded number of set entries and emits "
            "every per-option assignment; the harness combines them into configurations, runs a fresh real `python -m ffcx` per "
            "configuration (scratch cwd and XDG_CONFIG_HOME) and OptionsJudge.tla compares Effective with the options banner and with "
            "behavioural witnesses (kernel scalar type, tensor-factor loops, form rank, file suffix). CliPair.tla: for the repo demos "
            "and generated UFL files (several named/unnamed forms, expressions, odd stems, prism) the output file names, "
            "declared-in-header vs defined-in-source vs exported-by-object (nm) sets, alias names form_<prefix>_<name> / "
            "expression_<prefix>_<name> bound to their objects, name maps, stand-alone compilation (gcc -std=c17 -Wall -Werror) and "
            "equality of every kernel's output with the JIT-compiled object on fixed inputs are judged by TLC (CliPairJudge.tla).",
    "design_ref": "DESIGN.md section 4 C20",
    "note": "Trusted: banner parser, regular-expression declaration scan, nm, ufl.algorithms.load_ufl_file for the list of "
            "exported objects. table_rtol is judged from the banner only. Kernel equality is CLI(-O0) vs JIT(-O0) with the same gcc.",
}


def run(chk):
    s3.c20_run(chk)


def replay(chk, path):
    s3.c20_replay(chk, path)
