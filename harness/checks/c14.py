"""C14 - concurrent JIT requests on a shared cache all get one complete, correct module."""
from .. import s1

MANIFEST = {
    "engine": "S1-JitCache",
    "technique": "TLA+ spec of the jit.py cache protocol model-checked by TLC over all interleavings; TLC behaviours replayed on real processes and recorded executions validated against the spec",
    "text": "JitCache.tla (one action per file-system operation of jit.py/cffi) is checked exhaustively by TLC for 3-4 processes, "
            "1-2 module keys, bounded requests/kills/failures (mutual exclusion, marker-implies-complete, no partial load, one build, "
            "reuse, same objects, no timeout when timely, liveness). Conformance both ways on the real code: TLC-simulated schedules are "
            "replayed step by step on real OS processes running the unmodified compile_forms (proxies on jit.open/os/time/importlib, CC wrapper) "
            "with the projected directory/process state compared after every step, and every recorded execution (also seeded-random "
            "fine-grained schedules) is validated by TLC against the spec (strict = is a behaviour of JitCache; observe = the property "
            "invariants hold on the observed states).",
    "design_ref": "DESIGN.md section 4 C14, appendix A, appendix E",
    "note": "Trusted: the proxies/CC wrapper and the directory projection (harness/jitdrv), POSIX atomicity of exclusive create and rename, "
            "virtual sleep. Bounded: 3 real processes, <=7 requests per execution.",
}


def run(chk):
    s1.run_check(chk, "C14")


def replay(chk, path):
    s1.replay(chk, path, "C14")
