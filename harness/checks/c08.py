"""C08 - kernels stay inside the extents the UFCx contract gives them."""
from .. import s4

MANIFEST = {
    "engine": "S4-Kernel",
    "technique": "TLA+ abstract machine (small-step interpreter of the LNodes kernel language under the UFCx memory contract) "
                 "model-checked by TLC on the real generated kernels: one TLC state per statement instance, invariants InBounds and NoDeref",
    "text": "Kernel.tla executes the bytecode exported from the real LNodes AST of every kernel of a corpus (P1/P2/vector/mixed/"
            "N1curl/RT on interval..hexahedron and prism; cell, exterior/interior facet, vertex integrals; expressions with and without "
            "argument incl. facet points; sum factorisation; diagonal part; several quadrature rules per kernel; thorough: all "
            "demo/*.py) for EVERY valid entity_local_index and quadrature permutation vector as TLC's initial nondeterminism "
            "(exhaustive for small kernels, axis-wise + seeded random vectors for large ones). InBounds: every subscript of every "
            "array access within the declared shape and the flat position C computes equal to the row-major one and within the flat "
            "extent - tables: their declaration; A: product of the argument element dimensions (x2 per argument for interior facets; "
            "points x components x dofs for expressions) with the MultiIndex strides checked against those dimensions; w: sum of "
            "coefficient element dimensions; c: sum of constant sizes; coordinate_dofs: 3 x nodes; entity_local_index / "
            "quadrature_permutation per integral type - all computed from the UFL form and basix elements, never from FFCx's IR. "
            "NoDeref: a cell kernel reads neither entity_local_index nor quadrature_permutation. Thorough tier: the compiled C "
            "kernels are additionally called for every entity/permutation vector with every buffer placed against a PROT_NONE page.",
    "design_ref": "DESIGN.md section 4 C08, appendix B",
    "note": "Trusted: harness/kexport.py (mechanical flattening of the AST, extents from UFL/basix) and C16's AST<->C binding. "
            "Bounded: corpus kernels with at most 20k (quick) / 250k (thorough) statement instances; float64 and complex128 ASTs.",
}


def run(chk):
    s4.run_c08(chk)


def replay(chk, path):
    s4.replay(chk, path, s4.run_c08)
