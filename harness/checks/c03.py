"""C03 - interior-facet results do not depend on the cells' local vertex numbering."""
import itertools
import json
import random
from fractions import Fraction as Fr

import numpy as np

from .. import s5, tlc
from ..common import MachineryError, ensure_repo_on_path

MANIFEST = {
    "engine": "S5-Fem",
    "technique": "TLA+ model of the permutation codes (FacetPerm.tla: valid code pairs per numbering pair, computed by TLC on lattice points, shown to be a bijection) + exact oracle Fem.tla for the canonical numbering; real kernels run on every renumbering with every valid code pair and compared with the relabelled exact tensor; plus S7: TLA+ model of the element-table pipeline (TableOpt.tla, exhaustively checked) bound to the real pipeline by injected tables (perm scope), records judged by TLC",
    "text": "Two cells that share a facet are renumbered by every pair of reference-cell symmetries (all 4 interval and 36 triangle pairs; seeded "
            "samples of the 576 tetrahedron, 64 quadrilateral and 2304 hexahedron pairs in the quick tier, all/large samples in the thorough tier). "
            "For each pair FacetPerm.tla computes with TLC the set of permutation-code pairs (rotations = N div 2, reflections = N mod 2) under which "
            "both sides see the same physical points, and checks it is the graph of a bijection. The real interior-facet kernel (jump-jump, "
            "avg(grad).n jump with coefficients on both sides, non-symmetric u+ v-) is then run on each renumbering with each valid code pair, "
            "coefficient data transported by physical dof position, and must reproduce the exact tensor of the canonical numbering (Fem.tla) "
            "with rows/columns relabelled by dof position. Code pairs outside the valid set must change the result for at least one form "
            "(non-vacuity); integrals flagged needs_facet_permutations = false must return bit-identical output for every code pair.",
    "design_ref": "DESIGN.md section 4 C03",
    "note": "Trusted as in C01/C02; dof relabelling uses the physical positions of the Lagrange nodes (basix element points), so it covers "
            "Lagrange-type elements (P1, P2, DG, blocked). Degree-1 coordinate elements.",
}

TD = {"interval": 1, "triangle": 2, "quadrilateral": 2, "tetrahedron": 3, "hexahedron": 3}


def symmetries(cell):
    geom, topo = s5.ref_geometry(cell)
    nv = len(geom)
    if cell in ("interval", "triangle", "tetrahedron"):
        return [list(p) for p in itertools.permutations(range(nv))]
    td = TD[cell]
    out = []
    for axes in itertools.permutations(range(td)):
        for flips in itertools.product((0, 1), repeat=td):
            sig = []
            for v in range(nv):
                X = [int(round(c)) for c in geom[v]]
                Y = [X[axes[a]] for a in range(td)]
                Y = [1 - y if f else y for y, f in zip(Y, flips)]
                sig.append([i for i in range(nv) if all(int(round(geom[i][a])) == Y[a] for a in range(td))][0])
            out.append(sig)
    return out


def renumber(cell, x, f, sig):
    """vertex i becomes local vertex sig[i]; returns new coordinates and the new local index of facet f."""
    geom, topo = s5.ref_geometry(cell)
    nx = [None] * len(x)
    for i, s_ in enumerate(sig):
        nx[s_] = x[i]
    vs = sorted(sig[v] for v in topo[TD[cell] - 1][f])
    nf = [k for k, fv in enumerate(topo[TD[cell] - 1]) if sorted(fv) == vs][0]
    return nx, nf


def phys(cell, x, X):
    """degree-1 geometry map (exact)."""
    X = [Fr(c) for c in X]
    if cell in ("interval", "triangle", "tetrahedron"):
        lam = [1 - sum(X)] + X
    else:
        geom, _ = s5.ref_geometry(cell)
        lam = []
        for v in range(len(x)):
            w = Fr(1)
            for a, c in enumerate(X):
                w *= c if int(round(geom[v][a])) == 1 else 1 - c
            lam.append(w)
    return tuple(sum(l * xv[c] for l, xv in zip(lam, x)) for c in range(len(x[0])))


def dof_positions(space, cell, x):
    """physical position + block of every dof of a Lagrange-type space on the cell with vertices x."""
    from ..basisx import frac
    out = []
    for sub in space.subs:
        pts = np.asarray(sub["raw"].basix_element.points)
        for n in range(sub["nn"]):
            P = phys(cell, x, [frac(c) for c in pts[n]])
            for b in range(sub["bs"]):
                out.append((P, b, sub["off"]))
    return out


FAMILIES = [("P1", "jj"), ("P1", "flux"), ("P2", "pmw"), ("P2", "flux"), ("DG1", "pmw"), ("vP1", "jj"), ("P2", "mr"), ("P1", "mr"),
            ("P2", "oneside"), ("P1", "oneside"), ("P1", "geo"), ("P1", "mr1"), ("P1", "mr1s")]


def gkind(kind):
    """geometry family of the shared cell pair: geometric quantities need rational edge lengths"""
    return "pythag" if kind == "geo" else "affine"


def build(item):
    ensure_repo_on_path()
    import basix.ufl as bu
    import ufl
    from ufl import avg, dS, dot, grad, inner, jump

    from ..corpus import make_element

    cell, ek, kind = item["fam"]
    td = TD[cell]
    dom = ufl.Mesh(bu.element("Lagrange", cell, 1, shape=(td,)))
    V = ufl.FunctionSpace(dom, make_element(ek, cell, td))
    u, v = ufl.TrialFunction(V), ufl.TestFunction(V)
    n = ufl.FacetNormal(dom)
    if kind == "jj":
        form = inner(jump(u), jump(v)) * dS
    elif kind == "flux":
        f = ufl.Coefficient(ufl.FunctionSpace(dom, make_element("P1", cell, td)))
        form = f("-") * inner(dot(avg(grad(u)), n("+")), jump(v)) * dS
    elif kind == "dg0":
        form = inner(jump(u), jump(v)) * dS
    elif kind == "oneside":
        # everything restricted to one side: flagged needs_facet_permutations = false
        f = ufl.Coefficient(ufl.FunctionSpace(dom, make_element("P2" if ek == "P2" else "P1", cell, td)))
        g = ufl.Coefficient(V)
        form = f("+") * g("+") * inner(u("+"), v("+")) * dS
    elif kind == "geo":
        # geometric quantities lowered to raw vertex coordinates of either cell ('-' block of coordinate_dofs)
        h = ufl.CellDiameter(dom)
        q = h("-") + 2 * ufl.MaxCellEdgeLength(dom)("+") * ufl.MinCellEdgeLength(dom)("-")
        if cell in ("interval", "triangle"):
            q = q + ufl.Circumradius(dom)("-") + 3 * ufl.Circumradius(dom)("+") + ufl.CellVolume(dom)("-") * ufl.FacetArea(dom)("+")
        form = q * inner(jump(u), jump(v)) * dS + avg(h) * inner(u("-"), v("+")) * dS
    elif kind in ("mr1", "mr1s"):
        # two rules, one of them a ONE-POINT rule whose integrand involves one side only (its tables are not permuted);
        # the flag of the kernel is the disjunction over its rules, whichever is processed last
        if kind == "mr1":
            form = inner(jump(u), jump(v)) * dS(degree=2) + inner(grad(u)("+"), grad(v)("+")) * dS(degree=1)
        else:
            form = inner(jump(grad(u)), jump(grad(v))) * dS(degree=2) + 3 * inner(u("-"), v("-")) * dS(degree=1)
    elif kind == "mr":
        # several quadrature rules in one interior-facet integral; the rule processed last involves one side only
        f = ufl.Coefficient(ufl.FunctionSpace(dom, make_element("P1", cell, td)))
        d = 2 if ek == "P1" else 4
        form = inner(jump(u), jump(v)) * dS(degree=d) + f("+") * inner(u("+"), v("+")) * dS(degree=d + 1)
    else:
        f = ufl.Coefficient(ufl.FunctionSpace(dom, make_element("P1", cell, td)))
        g = ufl.Coefficient(ufl.FunctionSpace(dom, make_element(ek if ek in ("P1", "P2") else "P1", cell, td)))
        form = f("+") * g("-") * inner(u("+"), v("-")) * dS + inner(u("-"), v("-")) * dS
    return {"form": form, "exact_ok": True, "case": {"fam": item["fam"]}}


def run(chk):
    quick = chk.tier == "quick"
    rnd = random.Random(chk.seed)
    ensure_repo_on_path()
    plan = {"interval": None, "triangle": None, "quadrilateral": 10 if quick else None,
            "tetrahedron": 10 if quick else 150, "hexahedron": 4 if quick else 60}
    fams = []
    for cell in plan:
        for ek, kind in FAMILIES:
            if kind == "geo" and cell not in ("triangle", "quadrilateral"):
                continue
            if TD[cell] == 3 and ek == "P2" and not (kind == "oneside" and cell == "tetrahedron"):
                continue
            if cell == "hexahedron" and (ek, kind) not in (("P1", "jj"), ("P1", "flux")):
                continue
            if quick and cell == "hexahedron" and kind != "jj":
                continue                          # the exact tensor of a hexahedron flux form costs minutes in TLC
            if quick and cell == "tetrahedron" and (ek, kind) not in (("P1", "jj"), ("DG1", "pmw"), ("P1", "mr"), ("P1", "oneside"), ("P1", "mr1")):
                continue
            if quick and cell == "quadrilateral" and (ek, kind) not in (("P1", "flux"), ("P2", "pmw"), ("P1", "jj"), ("P1", "mr"), ("P2", "oneside"), ("P1", "geo"), ("P1", "mr1s")):
                continue
            fams.append((cell, ek, kind))
        fams.append((cell, "DG0", "dg0"))
    # ---- configurations: canonical pair + renumberings; valid codes by TLC
    jobs, meta = [], []
    probe = {}
    for fi, (cell, ek, kind) in enumerate(fams):
        pk = (cell, gkind(kind))
        if pk not in probe:
            prog0 = s5.programs_of_form(build({"fam": (cell, "P1", "jj")})["form"], 0, "float64")[0]
            geom, topo = s5.ref_geometry(cell)
            fp = rnd.randrange(len(topo[TD[cell] - 1]))
            fm, xp, xm, match = s5.interior_pair(prog0, rnd, fp, gkind(kind))
            syms = symmetries(cell)
            pairs = list(itertools.product(range(len(syms)), repeat=2))
            if plan[cell] is not None and len(pairs) > plan[cell]:
                pairs = rnd.sample(pairs, plan[cell])
            if (0, 0) not in pairs:
                pairs = [(0, 0)] + pairs
            confs = []
            for (a, b) in pairs:
                nxp, nfp = renumber(cell, xp, fp, syms[a])
                nxm, nfm = renumber(cell, xm, fm, syms[b])
                confs.append({"cell": cell, "x": [nxp, nxm], "f": [nfp, nfm], "sig": [syms[a], syms[b]]})
                jobs.append({"cell": cell, "x": [nxp, nxm], "f": [nfp, nfm]})
                meta.append((pk, len(confs) - 1))
            probe[pk] = {"confs": confs, "canon": [i for i, c in enumerate(confs) if c["sig"][0] == syms[0] and c["sig"][1] == syms[0]][0]}
    d = tlc.stage("facetperm", ["Rational", "RefCell", "FacetPerm"])
    f = d / "perm.json"
    f.write_text(json.dumps(jobs))
    r = tlc.run(d, "FacetPerm", cfg_text="SPECIFICATION Spec\n", workers=4, env={"PERM_FILE": str(f)}, timeout=1800)
    got = {}
    for s_ in r.printed:
        v = tlc.parse_tla(s_)
        if v[0] == "VALID":
            got[v[1] - 1] = (sorted(tuple(p) for p in v[2]), v[3])
    if len(got) != len(jobs):
        raise MachineryError("FacetPerm.tla evaluation incomplete:\n" + "\n".join(r.out.splitlines()[-25:]))
    chk.add(states=r.distinct, transitions=r.generated, numbering_pairs=len(jobs))
    for k, (pk, ci) in enumerate(meta):
        valid, bij = got[k]
        cell = pk[0]
        probe[pk]["confs"][ci]["valid"] = valid
        if not bij:
            chk.violation(f"codes:{cell}:not-a-bijection", f"{cell}: numbering pair {probe[pk]['confs'][ci]['sig']} admits the code pairs "
                          f"{valid}: not exactly one partner code per code (design of the permutation codes)", {"job": jobs[k]})
    # ---- real kernels
    items = []
    for fi, (cell, ek, kind) in enumerate(fams):
        P = probe[(cell, gkind(kind))]
        canon = P["confs"][P["canon"]]
        prog = s5.programs_of_form(build({"fam": (cell, ek, kind)})["form"], 0, "float64")[0]
        w0, c0 = s5.random_data(prog, rnd, False)
        ncodes = s5.nperms(s5.facet_cellname(cell, canon["f"][0]))
        ex = [{"ent": canon["f"], "perm": list(canon["valid"][0]), "x": canon["x"], "w": w0, "c": c0, "oracle": True, "tag": "canon"}]
        allc = [(a, b) for a in range(ncodes) for b in range(ncodes)]
        inval = [p for p in allc if p not in canon["valid"]]
        for p in (rnd.sample(inval, min(3, len(inval))) if inval else []):
            ex.append({"ent": canon["f"], "perm": list(p), "x": canon["x"], "w": w0, "c": c0, "oracle": False, "tag": "invalid"})
        # every code pair on the canonical configuration: an integral flagged needs_facet_permutations = false
        # must not depend on the codes at all
        for p in (allc if (kind in ("dg0", "oneside", "mr1", "mr1s") or not quick) else rnd.sample(allc, min(len(allc), 8))):
            ex.append({"ent": canon["f"], "perm": list(p), "x": canon["x"], "w": w0, "c": c0, "oracle": False, "tag": "anycode"})
        pos0 = [[dof_positions(prog.spaces[n], cell, canon["x"][s]) for s in range(2)] for n in prog.coefs]
        for ci, cf in enumerate(P["confs"]):
            # transport the coefficient data by physical dof position
            w = []
            for k, n in enumerate(prog.coefs):
                wk = []
                for s in range(2):
                    pos = dof_positions(prog.spaces[n], cell, cf["x"][s])
                    wk.append([w0[k][s][pos0[k][s].index(p)] for p in pos])
                w.append(wk)
            codes = cf["valid"] if (not quick or ci == P["canon"]) else rnd.sample(cf["valid"], min(2, len(cf["valid"])))
            for p in codes:
                ex.append({"ent": cf["f"], "perm": list(p), "x": cf["x"], "w": w, "c": c0, "oracle": False, "tag": f"renum:{ci}"})
        items.append({"builder": "harness.checks.c03.build", "fam": (cell, ek, kind), "seed": chk.seed + fi, "scalar": "float64",
                      "explicit": ex, "label": f"{cell}/{ek}/{kind}"})
    # S7: the table pipeline with injected tables, permutation dimension (interior facets, facet expressions)
    from .. import s7
    chk.add(s7=s7.run_tables(chk, "perm"))
    recs = s5.run_items(chk, items, nworkers=4 if quick else 6)
    nz = s5.report(chk, items, recs)
    # ---- judge invariance
    by = {}
    for rc in recs:
        by.setdefault(rc["item"], []).append(rc)
    ncmp = ninv = ninv_diff = nany = nflagfalse = 0
    dist = set()
    for ii, it in enumerate(items):
        cell, ek, kind = it["fam"]
        rs = by.get(ii, [])
        can = [x for x in rs if x.get("meas", {}).get("tag") == "canon"]
        if not can or can[0]["status"] != "ok":
            chk.note(f"{it['label']}: canonical case not evaluated ({can[0]['status'] if can else 'missing'})")
            continue
        E, amp = can[0]["expected"], can[0].get("amp", 1.0)
        prog = s5.programs_of_form(build({"fam": it["fam"]})["form"], 0, "float64")[0]
        P = probe[(cell, gkind(kind))]
        canon = P["confs"][P["canon"]]
        sp = prog.spaces[prog.args[0]]
        pos0 = [dof_positions(sp, cell, canon["x"][s]) for s in range(2)]
        dim = sp.dim
        Acan = np.array([complex(a, b) for a, b in can[0]["meas"]["A"]]).reshape(2 * dim, 2 * dim)
        for x in rs:
            m = x.get("meas")
            if not m or m.get("tag") is None or m["tag"] == "canon":
                continue
            A = np.array([complex(a, b) for a, b in m["A"]]).reshape(2 * dim, 2 * dim)
            if m["tag"] == "invalid":
                ninv += 1
                ninv_diff += bool(np.max(np.abs(A - Acan)) > 1e-9 * (1 + np.max(np.abs(Acan))))
                continue
            if m["tag"] == "anycode":
                nany += 1
                nflagfalse += m.get("needs_perm") is False
                if m.get("needs_perm") is False and not np.array_equal(A, Acan):
                    chk.violation(f"{it['label']}:needs_facet_permutations=false-but-depends",
                                  f"{it['label']}: integral flagged needs_facet_permutations = false returns different output for "
                                  f"permutation codes {m['perm']} and {can[0]['meas']['perm']}", {"item": {k: v for k, v in it.items() if k != 'explicit'}})
                continue
            ci = int(m["tag"].split(":")[1])
            cf = P["confs"][ci]
            pos = [dof_positions(sp, cell, cf["x"][s]) for s in range(2)]
            idx = [s * dim + pos0[s].index(p) for s in range(2) for p in pos[s]]     # new macro dof -> canonical macro dof
            bad = []
            for i2 in range(2 * dim):
                for j2 in range(2 * dim):
                    re, im, mag = E[idx[i2]][idx[j2]]
                    tol = s5.tolerance(mag, "float64", m["nops"], amp)
                    if abs(A[i2, j2] - complex(float(re), float(im))) > tol:
                        bad.append((i2, j2, A[i2, j2], float(re), tol))
            ncmp += 1
            dist.add((it["label"], ci, tuple(m["perm"])))
            if bad:
                i2, j2, g_, w_, t_ = bad[0]
                chk.violation(f"{it['label']}:renumbering",
                              f"{it['label']}: with local numbering {cf['sig']} (facets {cf['f']}) and valid codes {m['perm']} the kernel gives "
                              f"A[{i2}][{j2}] = {g_} but the same physical integral in the canonical numbering is {w_} ({len(bad)} entries differ)",
                              {"item": {k: v for k, v in it.items() if k != "explicit"}, "conf": cf, "perm": m["perm"]})
    chk.add(any_code_runs=nany, any_code_runs_flag_false=nflagfalse, renumbered_kernel_runs=ncmp, invalid_code_runs=ninv, invalid_code_runs_that_differ=ninv_diff,
            distinct_nontrivial=len(dist), traces_validated_against_impl=ncmp,
            rule="one case = (cell, element, form, numbering pair, valid code pair); distinct counted; the canonical exact tensor is non-zero for every family")
    if ncmp < (60 if quick else 1500) or ninv_diff == 0:
        raise MachineryError(f"vacuity guard: {ncmp} renumbered runs, {ninv_diff}/{ninv} invalid-code runs differ")


def replay(chk, path):
    chk.note("replay = rerun with the recorded seed")
    chk.seed = json.loads(open(path).read())["seed"]
    run(chk)
