"""C09 - all four scalar types compute the same form; complex mode is sesquilinear."""
from .. import s5
from ..common import MachineryError

MANIFEST = {
    "engine": "S5-Fem",
    "technique": "TLA+ exact reference semantics in Q and Q(i) (Fem.tla) evaluated by TLC; the float32/float64/complex64/complex128 kernels of the same form compared with the same exact tensor, each within its own rounding bound",
    "text": "Cases from FormSpace.tla are realised once per scalar type. (a) Real data: the four kernels of the same form are run on the same integer "
            "geometry/coefficients/constants; each must lie within eps_type*(8*ops+64)*magnitude of the same exact rational tensor, hence they agree "
            "pairwise to the narrower precision (geometry is passed in the matching real type). (b) Complex data: coefficients and constants are "
            "Gaussian integers; Fem.tla evaluates the integrand in Q(i) with conjugation exactly where UFL's physical-space form has it (test function "
            "conjugated), including conj/real/imag of coefficients, complex constants and abs; the complex64/complex128 kernels must match real and "
            "imaginary parts. Math functions (exp, ln, sin, cos, tan, sinh, cosh, tanh, atan, sqrt; real and complex arguments) enter as per-point "
            "tables: libm/cmath applied by the harness to the exact rational argument, rounded to 2^-12, with that rounding added to the tolerance.",
    "design_ref": "DESIGN.md section 4 C09",
    "note": "Trusted as in C01 plus UFL's complex-mode handling of inner/conj (the sesquilinear convention itself) and Python's math/cmath "
            "for function values (accuracy of libm is not at stake: the tolerance for function tables is 2^-12 relative to the magnitude).",
}

COMPLEX_OK = {"mass", "stiff", "coefmass", "xmass", "cten", "divdiv", "curlcurl", "mixeddiv", "load", "gradload",
              "energy", "conv", "deriv", "tworules", "cplx", "xint", "mathfn", "cmathfn", "ccond", "sesq"}


def run(chk):
    quick = chk.tier == "quick"
    cases = s5.enumerate_formspace(chk, complex_terms=True)
    pool = [c for c in cases if c["term"] in COMPLEX_OK]
    sel = s5.sample_cases(pool, 14 if quick else 150, chk.seed, max_cost=25 if quick else 200)
    cpl = s5.sample_cases([c for c in pool if c["term"] in ("cplx", "cmathfn", "ccond")], 8 if quick else 60, chk.seed + 1, max_cost=25 if quick else 200)
    cpl += s5.sample_cases([c for c in pool if c["term"] in ("mathfn", "sesq")], 5 if quick else 40, chk.seed + 2, max_cost=25 if quick else 200)
    items = []
    for i, c in enumerate(sel + cpl):
        seed = chk.seed * 100003 + i
        for sc in (("complex64", "complex128") if c["term"] in ("cplx", "cmathfn", "ccond") else ("float32", "float64", "complex64", "complex128")):
            # the same seed -> the same geometry; real data for all four types
            items.append({"case": c, "seed": seed, "scalar": sc, "ninputs": 1 if quick else 2, "realdata": True,
                          "label": s5.case_label(c) + f"|{sc}|real"})
        for sc in ("complex64", "complex128"):
            items.append({"case": c, "seed": seed + 7, "scalar": sc, "ninputs": 1 if quick else 2,
                          "label": s5.case_label(c) + f"|{sc}|complex"})
    # histories: one and the same UFL form object compiled for several scalar types in one process
    hist = s5.sample_cases([c for c in pool if c["term"] in ("cplx", "sesq", "cten")], 5 if quick else 30, chk.seed + 3, max_cost=25)
    hist += [c for c in s5.sample_cases([c for c in pool if c["term"] == "sesq"], 2, chk.seed + 4, max_cost=25) if c not in hist]
    for i, c in enumerate(hist):
        seed = chk.seed * 100003 + 300 + i
        cplx_only = c["term"] == "cplx"
        orders = [(["complex128"], "complex64")] if cplx_only else [(["float64"], "complex128"), (["complex128"], "float64"), (["float32", "complex64"], "float64")]
        for pre, sc in orders:
            items.append({"case": c, "seed": seed + 11, "scalar": sc, "ninputs": 1, "pre_compile": pre,
                          "label": s5.case_label(c) + f"|{sc}|after:{'+'.join(pre)}"})
    # real-only C functions (erf, Bessel) of a complex-valued coefficient, on data with non-zero imaginary parts
    for k, cl in enumerate(("interval", "triangle")):
        for sc in ("complex128", "complex64"):
            items.append({"case": {"cell": cl, "elem": "P1", "term": "cerf", "rule": "custom", "geom": "affine", "xdeg": 1},
                          "seed": chk.seed * 100003 + 900 + k, "scalar": sc, "ninputs": 1, "label": f"cerf/{cl}|{sc}|complex"})
    # expressions with complex-part operators, for both complex types
    for k, cl in enumerate(("interval", "triangle") if quick else ("interval", "triangle", "quadrilateral", "tetrahedron")):
        for sc in ("complex64", "complex128"):
            items.append({"case": {"cell": cl, "elem": "P1", "term": "cconj", "pts": "cell", "geom": "affine"}, "builder": "harness.corpus.realise_expr",
                          "seed": chk.seed * 100003 + 950 + k, "scalar": sc, "ninputs": 1, "label": f"expr/{cl}/cconj|{sc}|complex"})
    recs = s5.run_items(chk, items, nworkers=4 if quick else 6)
    for r in recs:
        if r["status"] == "skipped" and r.get("history_error"):
            it = items[r["item"]]
            chk.violation(f"history:{it['case']['term']}:{it['scalar']}:after:{'+'.join(it['pre_compile'])}",
                          f"{it['label']}: compiling the same form object for {it['scalar']} after {it['pre_compile']} fails: {r['why'][:300]}", {"item": it})
            r["ffcx_error"] = False
            r["why"] = "out of model: reported as history failure"
    nz = s5.report(chk, items, recs)
    types = {lab.split("|")[1] for (lab, *_r) in nz}
    chk.add(distinct_nontrivial=len(nz), scalar_types=sorted(types),
            rule="cases enumerated by TLC from FormSpace.tla (terms valid in complex mode, plus the complex-operator family), each realised for "
                 "float32/float64/complex64/complex128 on identical real data and for the complex types on Gaussian-integer data; "
                 "non-trivial = exact tensor not all zero; distinct = (case, scalar type, data kind)")
    if len(types) < 4 or len(nz) < (40 if quick else 400):
        raise MachineryError(f"vacuity guard: {len(nz)} non-trivial cases over types {sorted(types)}")


def replay(chk, path):
    s5.replay(chk, path)
