"""C15 - a failed or killed JIT build never poisons later requests or the process."""
from .. import s1

MANIFEST = {
    "engine": "S1-JitCache",
    "technique": "TLA+ spec of the jit.py cache protocol model-checked by TLC over all interleavings; TLC behaviours replayed on real processes and recorded executions validated against the spec",
    "text": "Fault enumeration by TLC: for every control point of a builder or waiter (16) and every failure kind (code generation, compiler, "
            "linker - caused through the API by a library that does not exist -, writing the ready marker, echoing the build log with cffi_verbose) TLC produces the shortest behaviour reaching a SIGKILL / failure there; each is replayed on real processes (real SIGKILL of the "
            "process group while parked at that call; half-written .so), followed by sequences of later requests, and the recorded executions are "
            "validated against the spec: failure releases the lock (.failed), handlers/stdout/cwd restored at return or raise, no load of an "
            "incomplete module, bounded polls, and a request that met no fault itself never ends in a build failure (UnfaultedNeverFails). Same engine as C14: JitCache.tla (one action per file-system operation of jit.py/cffi) is checked exhaustively by TLC for 3-4 processes, "
            "1-2 module keys, bounded requests/kills/failures (mutual exclusion, marker-implies-complete, no partial load, one build, "
            "reuse, same objects, no timeout when timely, liveness). Conformance both ways on the real code: TLC-simulated schedules are "
            "replayed step by step on real OS processes running the unmodified compile_forms (proxies on jit.open/os/time/importlib, CC wrapper) "
            "with the projected directory/process state compared after every step, and every recorded execution (also seeded-random "
            "fine-grained schedules) is validated by TLC against the spec (strict = is a behaviour of JitCache; observe = the property "
            "invariants hold on the observed states).",
    "design_ref": "DESIGN.md section 4 C15, appendix A, appendix E",
    "note": "Trusted: the proxies/CC wrapper and the directory projection (harness/jitdrv), POSIX atomicity of exclusive create and rename, "
            "virtual sleep. Bounded: 3 real processes, <=7 requests per execution.",
}


def run(chk):
    s1.run_check(chk, "C15")


def replay(chk, path):
    s1.replay(chk, path, "C15")
