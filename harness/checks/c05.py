"""C05 - coefficient/constant packing contract and enabled_coefficients are truthful."""
import numpy as np

from .. import s5
from ..common import MachineryError

MANIFEST = {
    "engine": "S5-Fem + S4-Kernel",
    "technique": "exact oracle Fem.tla (TLC) with inputs packed by the documented UFCx contract decides the layout; the abstract kernel machine Kernel.tla (TLC, invariant ReadsOnlyEnabled on the real AST) plus NaN-poisoning of the real kernels decides that disabled coefficients are never read",
    "text": "Layout: forms over four coefficient slots of different element dimensions where a coefficient survives, is cancelled by differentiation, "
            "is multiplied by zero or is used by only one of several integrals, with scalar/vector/matrix constants in mixed order, are compiled; the "
            "harness packs w (surviving coefficients in original order, width = element dimension, doubled on interior facets) and c (original "
            "constant order, row-major) from the form alone and Fem.tla's exact tensor must be reproduced; original_coefficient_positions must equal "
            "UFL's. Truthfulness: for every kernel the cells of w belonging to coefficients whose enabled_coefficients flag is false are NaN-poisoned and "
            "the tensor must not change; on the AST level Kernel.tla checks at every step that each read of w[i] lies inside an enabled coefficient "
            "(a kernel that never reads a cell cannot depend on it).",
    "design_ref": "DESIGN.md section 4 C05",
    "note": "Trusted as in C01; UFL's reduced coefficient list is the reference for which coefficients survive. Flags may be conservatively true; "
            "only false flags are promises.",
}


def run(chk):
    quick = chk.tier == "quick"
    items = []
    k = 0
    for cell in ("interval", "triangle", "quadrilateral", "tetrahedron"):
        for var in (range(6) if quick else range(24)):
            if quick and cell == "tetrahedron" and var not in (0, 4, 5):
                continue
            items.append({"builder": "harness.corpus.realise_c05", "c05": {"cell": cell, "variant": var}, "seed": chk.seed * 31 + k,
                          "scalar": "float64", "ninputs": 1 if quick else 2, "geom": "affine", "max_entities": 2, "npairs": 1, "nperm": 1,
                          "poison_disabled": True, "label": f"c05/{cell}/v{var}"})
            k += 1
    recs = s5.run_items(chk, items, nworkers=4)
    nz = s5.report(chk, items, recs)
    ndis = nker = 0
    for r in recs:
        m = r.get("meas")
        if not m or not m.get("c05"):
            continue
        c5, lab = m["c05"], items[r["item"]]["label"]
        nker += 1
        if c5["positions"] != c5["expect_positions"]:
            chk.violation(f"{lab}:original_coefficient_positions",
                          f"{lab}: original_coefficient_positions = {c5['positions']} but the coefficients that survive in the form are at {c5['expect_positions']}",
                          {"item": items[r["item"]]})
        if c5.get("expect_constants") is not None and c5["constant_shapes"] != c5["expect_constants"]:
            chk.violation(f"{lab}:constants",
                          f"{lab}: the form descriptor lists constants of shapes {c5['constant_shapes']} but the form has "
                          f"{c5['expect_constants']} (original constant order)", {"item": items[r["item"]]})
        A = np.array([complex(a, b) for a, b in m["A"]])
        Ap = np.array([complex(a, b) for a, b in c5["A_poisoned"]])
        for fl in c5["flags"]:
            ndis += sum(1 for x in fl if not x)
        if not np.array_equal(A, Ap, equal_nan=False):
            chk.violation(f"{lab}:{m['itype']}:depends-on-disabled-coefficient",
                          f"{lab} ({m['itype']}): enabled_coefficients = {c5['flags']} but NaN in the storage of the disabled coefficients changes "
                          f"the tensor (coefficients in the integrand: {c5['used']})", {"item": items[r["item"]]})
    chk.add(distinct_nontrivial=len(nz), kernels_poisoned=nker, disabled_flags_seen=ndis,
            rule="forms with surviving / cancelled / zero-multiplied / per-integral coefficients and mixed-shape constants; "
                 "non-trivial = exact tensor not all zero; distinct = (form variant, integral type, entity)")
    # the AST half (engine S4), when built
    try:
        from .. import s4
        s4.run_reads(chk)
    except ImportError:
        chk.note("engine S4 (Kernel.tla ReadsOnlyEnabled) not available in this tree")
    if len(nz) < (12 if quick else 60) or ndis == 0:
        raise MachineryError(f"vacuity guard: {len(nz)} non-trivial cases, {ndis} disabled flags seen")


def replay(chk, path):
    s5.replay(chk, path)
