"""C04 - expression kernels evaluate the expression at the given points; the descriptor describes that layout."""
from .. import s5
from ..common import MachineryError

MANIFEST = {
    "engine": "S5-Fem",
    "technique": "TLA+ exact reference semantics (Fem.tla, expression mode) evaluated by TLC on expression cases enumerated from FormSpace.tla (ECase); real expression kernels and descriptors compared",
    "text": "FormSpace.tla enumerates expression cases (cell x element x expression shape - argument itself, gradients, f.grad u, sym(grad u), x, "
            "facet normal, coefficient gradients/Hessians, constant-matrix products, abs/max, outer products - x point kind (cell lattice points, "
            "interpolation points of another element, facet points with every local facet and permutation code sampled) x geometry "
            "(affine, non-affine Q1, manifold)). Fem.tla computes the exact value of every component at every point with the argument replaced "
            "by each basis function; the kernel's A[point][component][dof] must match entry-wise. The descriptor fields num_points, points, "
            "entity_dimension, value_shape, num_components, rank, coefficient/constant counts and original_coefficient_positions are compared with "
            "what the expression and point set imply.",
    "design_ref": "DESIGN.md section 4 C04",
    "note": "Trusted as in C01. The descriptor comparison is a field-by-field equality done by the harness (the expected values are read off the UFL "
            "expression: shape, arguments, coefficients in count order).",
}


def run(chk):
    quick = chk.tier == "quick"
    ec = s5.enumerate_formspace(chk, exprs=True)
    sel = s5.sample_cases(ec, 44 if quick else 555, chk.seed, max_cost=60 if quick else None)
    items = [{"case": c, "seed": chk.seed * 100003 + i, "scalar": "float64", "ninputs": 2,
              "builder": "harness.corpus.realise_expr", "max_entities": 2 if quick else None, "nperm": 2 if quick else 8,
              "prefill": i % 2 == 0} for i, c in enumerate(sel)]
    recs = s5.run_items(chk, items, nworkers=4 if quick else 6)
    nz = s5.report(chk, items, recs)
    nd = 0
    for r in recs:
        m = r.get("meas")
        if m and m.get("expect_descriptor") is not None:
            nd += 1
            got, want = m["descriptor"], m["expect_descriptor"]
            diff = {k: (got.get(k), want[k]) for k in want if got.get(k) != want[k]}
            if diff:
                lab = s5.case_label(items[r["item"]]["case"])
                chk.violation(f"{lab}:descriptor:{'+'.join(sorted(diff))}",
                              f"{lab}: expression descriptor fields differ from the expression: {diff}", {"item": items[r["item"]]})
    chk.add(distinct_nontrivial=len(nz), descriptors_compared=nd,
            rule="expression cases enumerated by TLC from FormSpace.tla (ECase), seed-sampled covering sample; each runs on "
                 "generated integer geometries (and facets x permutation codes for facet points); non-trivial = exact values not all zero")
    if len(nz) < (25 if quick else 250):
        raise MachineryError(f"vacuity guard: only {len(nz)} non-trivial expression cases were evaluated")
    chk.assumptions += ["UFL algebra/derivative lowering and basix tabulation are trusted"]


def replay(chk, path):
    s5.replay(chk, path)
