"""C16 - formatted source means exactly what the code-generation AST says."""
from .. import s6

MANIFEST = {
    "engine": "S6-Format",
    "technique": "TLA+ specs of the target grammars (precedence-climbing parsers for the C and Python fragments, written in TLA+ from the "
                 "language standards) and of the formatter's parenthesisation design, model-checked by TLC; TLC-enumerated trees "
                 "realised on the real formatters and every emitted token stream judged by TLC against the exported tree",
    "text": "CGrammar.tla / PyGrammar.tla are parsers for the C11 and Python-3.12 fragments LNodes text can land in (levels and "
            "associativity transcribed from the standards, not from lnodes.PRECEDENCE). Format.tla defines what each LNodes tree MEANS in "
            "the target vocabulary (n-ary Sum/Product = left-nested, negative literal = unary minus of the magnitude, complex literal, "
            "math-function families, Section/ForRange/declaration statements) and the formatter's design rule 'parenthesise child iff "
            "child.precedence >= parent.precedence' over the lnodes.PRECEDENCE table read from the code at check time. (0) FormatMC: for every "
            "well-typed tree TLC enumerates (every operator x operand position x child [x grandchild in the thorough tier], leaf pairs, n-ary "
            "arity 1-3, conditional/boolean nesting, every math function, a MultiIndex - one operand node whose meaning is its flattened index - as a direct operand of every arithmetic/comparison/call shape in every position and inside subscript arithmetic) Parse(Format(t)) must match the meaning of t. (i) the same trees are built as real lnodes "
            "objects and printed by the real C formatter for float32/float64/complex64/complex128 and by the real numba formatter, the text is "
            "tokenised by maximal munch and FormatConform (TLC) parses the tokens and compares with the tree exported from the real object. "
            "(ii) the same for every top-level statement (declarations with initialiser lists, sections, loop nests, assignments) of every kernel "
            "AST the real pipeline generates for a corpus of forms chosen to reach the code paths of definitions.py/access.py/integral_generator.py/expression_generator.py (sum-factorised kernels on quadrilateral/hexahedron with scalar and blocked tensor-product coefficients of degree 1-2, part=diagonal, several quadrature rules per kernel, expressions at cell and facet points, DG0/quadrature/constant tables, interior facets, geometry quantities, manifolds, Piola maps, conditionals, math functions; thorough: also all demo/*.py, engine S4's kernel corpus, four scalar types). Literal clause: every printed "
            "floating literal must read back within one ulp (exact rational comparison). Negative control in every run: recorded streams with "
            "one corrupted token must be rejected by TLC.",
    "design_ref": "DESIGN.md section 4 C16, section 5 (literal clause), section 7 (well-typedness)",
    "note": "Trusted: the two tokenisers, astexport/project (mechanical), alignment of number tokens with literal leaves in print order. "
            "The literal clause is decided in Python (Fraction, math.ulp) because TLC integers are 32-bit. Bounded: trees of depth <= 2 (quick) / "
            "<= 3 (thorough) along one spine with symbol fillers elsewhere; corpus as listed in the evidence.",
}


def run(chk):
    s6.run_c16(chk)


def replay(chk, path):
    s6.replay_c16(chk, path)
