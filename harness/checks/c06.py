"""C06 - the form descriptor dispatches each (type, subdomain id) to the right kernel."""
from .. import s3

MANIFEST = {
    "engine": "S3-Descriptor",
    "technique": "TLA+ specification of the form->descriptor function; TLC enumerates abstract forms, computes the expected "
                 "ufcx_form descriptor and compares it with the descriptor the real compiler produced",
    "text": "Descriptor.tla defines Descriptor(form) from the property statement and ufcx.h for abstract forms (cell kind, rank, "
            "<=3 declared integrals with type / subdomain id, tuple or everywhere / quadrature tag, coefficient list with dropped "
            "coefficients, constants layout). TLC enumerates the bounded domain as a state machine (all forms with <=2 integrals "
            "exhaustively plus a seed-chosen sample with 3 in thorough; a seed-chosen covering sample in quick), proves the spec-level "
            "theorems on the whole domain (canonical listing accepted, folded-everywhere and lost-kernel listings rejected), and every "
            "emitted form is realised as a UFL form (label k = Constant 8^(k-1)), JIT-compiled by the unmodified compile_forms (15 forms "
            "per module), its ufcx_form read through cffi and every listed kernel called; DescriptorJudge.tla computes the expected "
            "descriptor and compares field by field (offsets, ids per type, non-decreasing ids, label multiset per (type,id,entity cell "
            "type), domain tags, rank, coefficient positions/names, constant ranks/shapes/names, element hashes).",
    "design_ref": "DESIGN.md section 4 C06",
    "note": "Trusted: the cffi projection and the 8^k label decoding in harness/s3.py, basix element hashes as element identity. "
            "Bounded: triangle and prism cells, <=3 integrals, ids 0..2, P1/P2 coefficients, rank 0/1; prism dS excluded "
            "(rejected by FFCx before code generation).",
}


def run(chk):
    s3.c06_run(chk)


def replay(chk, path):
    s3.c06_replay(chk, path)
