"""C10 - optimisation options never change the computed tensor."""
from .. import s5
from ..common import MachineryError

MANIFEST = {
    "engine": "S5-Fem",
    "technique": "TLA+ exact reference semantics (Fem.tla) evaluated by TLC; kernels of the same form compiled under different option vectors compared with the same exact tensor (diagonal: with its diagonal), tolerance widened only by what table_rtol/atol allow",
    "text": "The option vector is one more coordinate of a FormSpace.tla case. sum_factorization in {False, True}: on quadrilaterals/hexahedra "
            "(polynomial integrands on affine cells vs the exact integral; custom-rule and non-affine cases vs the exact quadrature sum) and on "
            "simplices (option does not apply). part='diagonal': bilinear forms (incl. mixed and blocked spaces with unequal sub-dimensions) must give "
            "the diagonal of the full exact tensor; rank-0/1 forms are unaffected. table_rtol/table_atol in {defaults, 1e-12/1e-14, 1e-3/1e-4}: result within "
            "(rounding + (rtol+atol)*8)*magnitude of the exact value - the bound the property allows, no tighter.",
    "design_ref": "DESIGN.md section 4 C10",
    "note": "Trusted as in C01. Default-rule kernels on non-affine cells have no exact oracle (irrational rule); there the option-independence is "
            "exercised through custom rational rules.",
}


def FRANK2(c):
    return c["term"] in ("jump", "avgflux", "pm", "coefpm", "njump", "geodS")


def run(chk):
    quick = chk.tier == "quick"
    cases = s5.enumerate_formspace(chk)
    tp = [c for c in cases if c["cell"] in ("quadrilateral", "hexahedron")]
    sx = [c for c in cases if c["cell"] in ("triangle", "interval")]
    r2 = [c for c in cases if c["term"] in ("mass", "stiff", "coefmass", "xmass", "cten", "mixeddiv", "conv", "tworules", "divdiv")]
    items = []

    def add(cs, opts, tag, extra=0.0):
        for i, c in enumerate(cs):
            items.append({"case": c, "seed": chk.seed * 100003 + i, "scalar": "float64", "ninputs": 1 if quick else 2,
                          "options": opts, "label": s5.case_label(c) + "|" + tag, "extra_tol": extra})

    # sum factorisation needs tensor-product elements (basix.create_tp_element): its own small family
    tps = [{"cell": cl, "degree": d, "term": t} for cl in ("quadrilateral", "hexahedron") for d in (1, 2)
           for t in ("mass", "stiff", "coefmass", "xmass", "load", "withds", "twodegrees", "vcoef") if not (cl == "hexahedron" and d == 2 and t != "mass")]
    if quick:
        tps = [t for t in tps if not (t["cell"] == "hexahedron" and t["degree"] == 2)]
    for i, t in enumerate(tps):
        for sfv in (False, True):
            items.append({"tp": t, "builder": "harness.corpus.realise_tp", "seed": chk.seed * 100003 + i, "scalar": "float64",
                          "ninputs": 1 if quick else 2, "options": {"sum_factorization": sfv}, "geom": "affine",
                          "max_entities": 2, "label": f"tp/{t['cell']}/Q{t['degree']}/{t['term']}|sf={int(sfv)}"})
    # irrational bases (GLL degree 3): no exact oracle, but the two kernels must agree with each other
    for k, cl in enumerate(("quadrilateral",) if quick else ("quadrilateral", "hexahedron")):
        items.append({"tp": {"cell": cl, "degree": 3, "term": "gllcoef"}, "builder": "harness.corpus.realise_tp", "seed": chk.seed + 40 + k,
                      "scalar": "float64", "ninputs": 2, "geom": "affine", "no_oracle": True, "options": {"sum_factorization": True},
                      "twin_options": {"sum_factorization": False}, "label": f"tp/{cl}/Q3gll/gllcoef|sf=1-vs-0"})
    for k, cl in enumerate(("quadrilateral",) if quick else ("quadrilateral", "hexahedron")):
        for dg in ((2,) if quick else (2, 3)):
            items.append({"tp": {"cell": cl, "degree": dg, "term": "gllscheme"}, "must_compile": True, "builder": "harness.corpus.realise_tp", "seed": chk.seed + 60 + 2 * k + dg,
                          "scalar": "float64", "ninputs": 2, "geom": "affine", "no_oracle": True, "options": {"sum_factorization": True},
                          "twin_options": {"sum_factorization": False}, "label": f"tp/{cl}/Q{dg}/gllscheme|sf=1-vs-0"})
    # ordinary elements: the option is off, or does not apply
    add(s5.sample_cases(tp, 4 if quick else 60, chk.seed, max_cost=40 if quick else 400), {"sum_factorization": False}, "sf=0")
    dg = s5.sample_cases(r2, 12 if quick else 120, chk.seed + 2, max_cost=40 if quick else 400)
    add(dg, {"part": "diagonal"}, "diag")
    add(s5.sample_cases([c for c in cases if c["term"] in ("load", "energy")], 3 if quick else 20, chk.seed + 3, max_cost=20),
        {"part": "diagonal"}, "diag(n/a)")
    # diagonal: component coupling inside a blocked / mixed space, and interior facets (macro diagonal)
    add(s5.sample_cases([c for c in cases if c["elem"] in ("vP1", "vP2") and c["term"] in ("divdiv", "cten")], 3 if quick else 20,
                        chk.seed + 5, max_cost=40), {"part": "diagonal"}, "diag")
    # a mixed-space form whose FIRST coefficient occurs in the off-diagonal blocks only: under part='diagonal' the kernel
    # must still be fed by the positions of the form as written
    for k, cl in enumerate(("triangle",) if quick else ("triangle", "tetrahedron")):
        items.append({"builder": "harness.corpus.realise_thdiv", "th": {"cell": cl, "rule": k, "coef": True}, "seed": chk.seed + 90 + k, "scalar": "float64",
                      "ninputs": 1, "geom": "affine", "options": {"part": "diagonal"}, "label": f"thdiv/{cl}|diag-coefficient-positions"})
    # history: the same LIST of forms compiled with part='diagonal' first and with the default options afterwards
    # (the second compile must still see the whole form)
    for k, cl in enumerate(("triangle",) if quick else ("triangle", "tetrahedron")):
        items.append({"builder": "harness.corpus.realise_thdiv", "th": {"cell": cl, "rule": k, "coupled": True}, "seed": chk.seed + 80 + k, "scalar": "float64",
                      "ninputs": 1, "geom": "affine", "options": {}, "pre_list_options": {"part": "diagonal"},
                      "label": f"thdiv/{cl}|full-after-diag-on-same-list"})
    for k, cl in enumerate(("triangle",) if quick else ("triangle", "tetrahedron")):
        items.append({"builder": "harness.corpus.realise_thdiv", "th": {"cell": cl, "rule": k}, "seed": chk.seed + 70 + k, "scalar": "float64",
                      "ninputs": 1, "geom": "affine", "options": {"part": "diagonal"}, "label": f"thdiv/{cl}|diag"})
    fc = s5.enumerate_formspace(chk, facets=True)
    for i, c in enumerate(s5.sample_cases([c for c in fc if c["measure"] == "dS" and FRANK2(c) and c["cell"] != "prism"], 4 if quick else 30,
                                          chk.seed + 6, max_cost=40)):
        items.append({"case": c, "seed": chk.seed * 100003 + 900 + i, "scalar": "float64", "ninputs": 1, "builder": "harness.corpus.realise_facet",
                      "npairs": 1, "nperm": 1, "options": {"part": "diagonal"}, "label": s5.case_label(c) + "|diag(dS)"})
    tt = s5.sample_cases(cases, 8 if quick else 80, chk.seed + 4, max_cost=25 if quick else 200)
    add(tt, {"table_rtol": 1e-12, "table_atol": 1e-14}, "tight")
    add(tt, {"table_rtol": 1e-3, "table_atol": 1e-4}, "loose", extra=8 * (1e-3 + 1e-4))
    recs = s5.run_items(chk, items, nworkers=4 if quick else 6)
    for r in recs:
        it = items[r["item"]]
        if r["status"] == "skipped" and r.get("ffcx_error") and it.get("tp", {}).get("term") == "withds":
            # 'sum_factorization ... only has an effect on cell integrals' (representation.py): a facet integral in the
            # same form must compile and compute the same tensor whatever the option says
            chk.violation("sum_factorization:facet-integral-rejected:" + it["tp"]["cell"],
                          f"{it['label']}: a form with a cell and an exterior-facet integral is rejected when sum_factorization=True "
                          f"although the option does not apply to facet integrals: {r['why'][:200]}", {"item": it})
        if r["status"] == "skipped" and r.get("ffcx_error") and it.get("label", "").endswith("|diag(n/a)"):
            chk.violation("part=diagonal:rejected-for-rank:" + it["case"]["term"],
                          f"{it['label']}: part='diagonal' does not apply to this form (rank < 2) but compilation fails: {r['why'][:200]}",
                          {"item": it})
    nz = s5.report(chk, items, recs)
    import numpy as np
    ntwin = 0
    for r in recs:
        m = r.get("meas")
        if m and m.get("c_twin") and "A_twin" in m["c_twin"]:
            ntwin += 1
            A = np.array([complex(a, b) for a, b in m["A"]])
            At = np.array([complex(a, b) for a, b in m["c_twin"]["A_twin"]])
            tol = 1e-10 * (1 + float(np.max(np.abs(At))))
            if float(np.max(np.abs(A - At))) > tol or not np.any(At):
                lab = items[r["item"]]["label"]
                chk.violation(f"{lab}:kernels-differ", f"{lab}: the kernels compiled with and without the option differ: max |diff| = "
                              f"{float(np.max(np.abs(A - At))):.3g} (tensor magnitude {float(np.max(np.abs(At))):.3g})", {"item": items[r["item"]]})
    chk.add(option_twin_comparisons=ntwin)
    tags = {}
    for (lab, *_r) in nz:
        tags[lab.split("|")[1]] = tags.get(lab.split("|")[1], 0) + 1
    chk.add(distinct_nontrivial=len(nz), per_option_vector=tags,
            rule="cases enumerated by TLC from FormSpace.tla crossed with option vectors (sum_factorization on/off, part=diagonal, table tolerances); "
                 "non-trivial = exact tensor not all zero; distinct = (case, option vector)")
    need = {"sf=0", "sf=1", "diag", "diag(dS)", "tight", "loose"}
    chk.add(sum_factorised_cases=sum(1 for (lab, *_r) in nz if lab.startswith("tp/") and lab.endswith("sf=1")))
    if not need <= set(tags) or len(nz) < (35 if quick else 350):
        raise MachineryError(f"vacuity guard: non-trivial cases per option vector: {tags}")


def replay(chk, path):
    s5.replay(chk, path)
