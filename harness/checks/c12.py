"""C12 - code generation is deterministic and history-independent."""
from .. import s2

MANIFEST = {
    "engine": "S2-History",
    "technique": "TLA+ spec of process histories with write-once registries model-checked by TLC; TLC-enumerated and "
                 "TLC-simulated histories lived by real interpreters; the recorded behaviour validated by TLC against the spec",
    "text": "History.tla models Python processes as bags of hidden state (hash seed fixed at Spawn, UFL's global object "
            "counters advanced by CreateJunk(kind in mesh/space/coefficient/constant/argument/whole compiled form) and by "
            "every compilation, warm caches) and the obligation C12 puts on all of them together as a write-once registry "
            "text : (UFL signature, options) -> text hash.  TLC checks the intended design exhaustively (2 processes, all "
            "histories up to the event bound) and refutes three designs that leak hidden state (seed, counter, cache) - the "
            "constant-switched negative controls.  spec -> code: TLC enumerates every history of depth 2 (all seeds x "
            "templates x routes {0, 1, 9} x options) and depth 3 (seed 0, every pair of junk/generate events) and simulates long "
            "3-process histories over the real alphabet; a covering subset (every template x options in every seed, after "
            "every junk kind, after other compilations, repeated, via another construction route) is lived by real "
            "interpreters started with PYTHONHASHSEED = the Spawn's seed, junk really created with ufl/basix, Generate really "
            "calling ffcx.compiler.compile_ufl_objects.  code -> spec: all recorded events form one behaviour that TLC "
            "validates against HistoryTrace.tla (History's own actions driven by the recorded values); a registry write "
            "that is rejected is the violation, reported with a unified diff of the two texts and keyed by the part of the "
            "hidden state in which the two observations differ (seed / counters / cache / id-order).  In every run one "
            "recorded sha1 is corrupted in a copy of the trace and TLC must reject it there.  Templates: P1/P2 "
            "mass+stiffness, mixed element with >= 3 sub-elements, two meshes, prism (two kernels per facet integral), "
            "several quadrature degrees in one form, coefficients+constants, interior facets, quadrilateral/hexahedron, "
            "groups that share every plausible memo key (same cell, quadrature degree and scheme, same form shape: P1 / iso "
            "macro element / P2 / DG1 / vector P1; P3 gll_warped / equispaced / legendre; custom rules with equal points and "
            "different weights; Q1 / DQ1 / tensor-product Q1) for which TLC enumerates [X], [X, Y] and 'Y after X in one "
            "process' is lived for every ordered pair of a group (thorough: of all group templates), "
            "H(div)/H(curl), manifold, P2 geometry, expressions; thorough adds every demo/*.py loaded as ffcx.main does.",
    "design_ref": "DESIGN.md section 4 C12, section 6 F3/F4",
    "note": "Trusted: the projections in harness/histdrv/worker.py (sha1 of the returned texts, UFL signatures as the "
            "notion of same input, UFL counters).  Bounded: the seeds {0, 1, 4242, random...}, the template corpus, "
            "histories of <= 60 events.  Two thirds of the process histories run in forks of a per-seed zygote that has "
            "only imported ffcx, the rest in brand-new interpreters.  Known finding text:id-order:two_mesh_tri: UFL orders "
            "product operands by repr() (decimal mesh ids as strings), outside /repo.",
}


def run(chk):
    s2.run_c12(chk)


def replay(chk, path):
    s2.replay(chk, path, "C12")
