"""C11 - requested quadrature degree/scheme is honoured and exact where it should be."""
import json
import math
import random
import subprocess
from concurrent.futures import ThreadPoolExecutor
from fractions import Fraction as Fr

from .. import s5, tlc
from ..common import PY, MachineryError, child_env, scratch

MANIFEST = {
    "engine": "S5-Fem",
    "technique": "closed-form integrals of Chebyshev products defined in TLA+ (Cheb.tla, evaluated by TLC where 32-bit integers suffice and cross-checked with the same formulas in unbounded integers) compared with kernels for every cell x degree 0..30 x scheme; per-integral rules, vertex scheme and quadrature elements decided by the exact oracle Fem.tla",
    "text": "(1) Exactness: for each cell and requested degree q (quick: a covering sample of q in 0..30; thorough: all 0..30) the functional "
            "sum_k c_k prod_d T_a(2x_d-1) dx(degree=q[, scheme]) over the top-degree Chebyshev products (total degree q and q-1 on simplices, per-direction "
            "degree q on hypercubes) is compiled once per (cell, q, scheme) and each term is read off with unit constants; it must equal the closed form "
            "of Cheb.tla to 2e-12. A rule one degree too low misses these by 0.05-0.2. (2) Own rule per integral / vertex scheme / quadrature elements / "
            "no-metadata exactness: FormSpace.tla cases with several different rational rules on one subdomain (integrands of degree above each rule's "
            "exactness, so any mix-up of rules changes the exact value), the vertex scheme, quadrature elements and default rules on polynomial "
            "integrands are decided entry-wise by Fem.tla.",
    "design_ref": "DESIGN.md section 4 C11",
    "note": "TLC's 32-bit integers hold the closed form only for small degrees on simplices (all degrees on hypercubes); above that the harness "
            "evaluates the same formulas with Python integers (agreement on the overlap is asserted). Reference-cell geometry for the sweep; affine "
            "images are covered by C01.",
}


def cheb_x(n):
    """Integer coefficients of T_n(2x-1) in powers of x."""
    t0, t1 = [1], [-1, 2]
    if n == 0:
        return t0
    for _ in range(n - 1):
        a = [0] + [4 * c for c in t1]                   # 2*(2x-1)*t1 = 4x*t1 - 2*t1
        for i, c in enumerate(t1):
            a[i] -= 2 * c
        for i, c in enumerate(t0):
            a[i] -= c
        t0, t1 = t1, a
    return t1


def expected(cell, a):
    if cell in ("interval", "quadrilateral", "hexahedron"):
        v = Fr(1)
        for n in a:
            v *= Fr(0) if n % 2 else Fr(1, 1 - n * n)
        return v
    d = len(a)
    cx = [cheb_x(n) for n in a]
    tot = Fr(0)

    def rec(k, e, coef):
        nonlocal tot
        if k == d:
            num = 1
            for x in e:
                num *= math.factorial(x)
            tot += Fr(coef * num, math.factorial(sum(e) + d))
            return
        for m, c in enumerate(cx[k]):
            if c:
                rec(k + 1, e + [m], coef * c)

    rec(0, [], 1)
    return tot


TD = {"interval": 1, "triangle": 2, "quadrilateral": 2, "tetrahedron": 3, "hexahedron": 3}


def terms_for(cell, q, rnd, nmax=14):
    td = TD[cell]
    out = set()
    if cell in ("interval", "quadrilateral", "hexahedron"):
        for d in range(td):
            for _ in range(6):
                a = [rnd.randint(0, q) for _ in range(td)]
                a[d] = q
                out.add(tuple(a))
            a = [max(0, q - 1)] * td
            a[d] = q
            out.add(tuple(a))
    else:
        for tot in {q, max(0, q - 1)}:
            for _ in range(24):
                cuts = sorted(rnd.randint(0, tot) for _ in range(td - 1))
                a = [b - a_ for a_, b in zip([0] + cuts, cuts + [tot])]
                out.add(tuple(a))
            for d in range(td):
                a = [0] * td
                a[d] = tot
                out.add(tuple(a))
    out = sorted(out)
    rnd.shuffle(out)
    return [list(a) for a in out[:nmax]]


def sweep(chk):
    quick = chk.tier == "quick"
    rnd = random.Random(chk.seed)
    jobs = []
    cells = ["interval", "triangle", "quadrilateral", "tetrahedron", "hexahedron"]
    if quick:
        degs = {"interval": [0, 1, 2, 3, 5, 8, 13, 21, 30], "triangle": [0, 1, 2, 3, 5, 8, 13, 21, 30],
                "quadrilateral": [0, 1, 2, 4, 7, 12, 20, 30], "tetrahedron": [0, 1, 2, 3, 6, 10], "hexahedron": [0, 1, 3, 6, 9]}
        # a different slice of 0..30 for every seed
        for c in cells:
            degs[c] = sorted(set(degs[c][:3] + rnd.sample(range(0, 31 if TD[c] < 3 else 16), 4)))
    else:
        degs = {c: list(range(31)) for c in cells}
        degs["hexahedron"] = list(range(0, 21))
    for c in cells:
        for q in degs[c]:
            schemes = ["default"] + (["GLL"] if c in ("interval", "quadrilateral", "hexahedron") and q >= 1 and (not quick or q % 2 == 1) else [])
            for sc in schemes:
                jobs.append({"cell": c, "q": q, "scheme": sc, "terms": terms_for(c, q, rnd, 10 if quick else 16)})
    d = scratch("c11")
    nw = 4 if quick else 6
    buckets = [jobs[i::nw] for i in range(nw)]

    def one(i):
        jf, of = d / f"j{i}.json", d / f"o{i}.json"
        jf.write_text(json.dumps(buckets[i]))
        p = subprocess.run([PY, "-m", "harness.c11w", str(jf), str(of)], env=child_env(), capture_output=True, text=True, timeout=7200)
        if p.returncode or not of.exists():
            raise MachineryError("C11 worker failed:\n" + p.stderr[-2000:])
        return json.loads(of.read_text())

    with ThreadPoolExecutor(nw) as ex:
        res = [r for rs in ex.map(one, range(nw)) for r in rs]
    # closed forms by TLC where they fit; unbounded integers otherwise (same formulas), asserted equal on the overlap
    tj = []
    for r in res:
        j = r["job"]
        small = j["cell"] in ("interval", "quadrilateral", "hexahedron") or j["q"] <= 7
        if small and "values" in r:
            for a in j["terms"]:
                tj.append({"cell": j["cell"], "a": a})
    byt = {}
    if tj:
        dd = tlc.stage("cheb", ["Rational", "Cheb"])
        f = dd / "cheb.json"
        f.write_text(json.dumps(tj))
        rr = tlc.run(dd, "Cheb", cfg_text="SPECIFICATION Spec\n", workers=4, env={"CHEB_FILE": str(f)}, timeout=1200)
        for s_ in rr.printed:
            v = tlc.parse_tla(s_)
            if v[0] == "CHEB":
                byt[v[1] - 1] = Fr(v[2][0], v[2][1])
        if len(byt) != len(tj):
            raise MachineryError("Cheb.tla evaluation incomplete:\n" + "\n".join(rr.out.splitlines()[-25:]))
        chk.add(states=rr.distinct, transitions=rr.generated)
        for i, t in enumerate(tj):
            if byt[i] != expected(t["cell"], t["a"]):
                raise MachineryError(f"closed form: TLC says {byt[i]} but the big-integer evaluation says {expected(t['cell'], t['a'])} for {t}")
    nterm = nz = 0
    samples = []
    for r in res:
        j = r["job"]
        lab = f"{j['cell']}/degree={j['q']}/{j['scheme']}"
        if "error" in r:
            if j["scheme"] == "GLL":
                chk.note(f"{lab}: not available ({r['error'][:120]})")
                continue
            chk.violation(f"exactness:{lab}:rejected", f"{lab}: ffcx failed on a polynomial functional: {r['error']}", {"job": j})
            continue
        for a, val in zip(j["terms"], r["values"]):
            ex = expected(j["cell"], a)
            nterm += 1
            nz += ex != 0
            if abs(val - float(ex)) > 2e-12:
                chk.violation(f"exactness:{lab}",
                              f"{lab}: Int prod T_a(2x-1) with a={a} is {val!r} from the kernel but exactly {ex} = {float(ex)!r} "
                              f"(|diff| = {abs(val - float(ex)):.3g}): the degree-{j['q']} rule does not integrate degree-{max(sum(a), 0)} exactly",
                              {"job": j, "a": a, "kernel": val, "exact": str(ex)})
        if len(samples) < 3:
            samples.append({"rule": lab, "a": j["terms"][0], "exact": str(expected(j["cell"], j["terms"][0])), "kernel": r["values"][0]})
    chk.add(exactness_terms=nterm, exactness_rules=len(res), closed_forms_by_tlc=len(byt), samples=samples,
            traces_validated_against_impl=nterm, evaluations=nterm)
    return nz


def run(chk):
    quick = chk.tier == "quick"
    s5.check_rules(chk)
    nzs = sweep(chk)
    cases = s5.enumerate_formspace(chk)
    pool = [c for c in cases if c["rule"] == "vertex" or c["term"] == "tworules" or c["elem"] == "quad"
            or (c["rule"] == "exact" and c["term"] in ("mass", "stiff", "coefmass", "xmass", "load", "energy"))]
    sel = s5.sample_cases(pool, 20 if quick else 300, chk.seed + 5, max_cost=30 if quick else 300)
    items = [{"case": c, "seed": chk.seed * 100003 + i, "scalar": "float64", "ninputs": 1 if quick else 2} for i, c in enumerate(sel)]
    mr = [{"builder": "harness.corpus.realise_multirule", "must_compile": True, "mr": {"cell": cl, "variant": v}, "seed": chk.seed * 7 + k,
           "scalar": "float64", "ninputs": 2, "geom": "affine", "label": f"multirule/{cl}/{v}"}
          for k, (cl, v) in enumerate([(cl, v) for cl in ("interval", "triangle", "quadrilateral", "tetrahedron") for v in range(3 if quick else 8)])]
    items += mr
    items += [{"builder": "harness.corpus.realise_multirule", "must_compile": True, "mr": {"cell": cl, "variant": 0, "onepoint": True}, "seed": chk.seed * 7 + 50 + k,
               "scalar": "float64", "ninputs": 1, "geom": "affine", "label": f"multirule/{cl}/onepoint"}
              for k, cl in enumerate(("interval", "triangle", "quadrilateral", "tetrahedron"))]
    items += [{"builder": "harness.corpus.realise_multirule", "must_compile": True, "mr": {"cell": cl, "variant": 0, "onepoint": n},
               "seed": chk.seed * 7 + 60 + 2 * k + n, "scalar": "float64", "ninputs": 1, "geom": "affine", "label": f"multirule/{cl}/onepoint{n}"}
              for k, cl in enumerate(("interval", "triangle", "quadrilateral", "tetrahedron")) for n in (2, 3) if not quick or (k + n) % 2]
    items += [{"builder": "harness.corpus.realise_multirule", "must_compile": True, "mr": {"cell": cl, "variant": v, "samepoints": True},
               "seed": chk.seed * 7 + 90 + k, "scalar": "float64", "ninputs": 1, "geom": "affine", "label": f"multirule/{cl}/samepoints{v}"}
              for k, (cl, v) in enumerate([(cl, v) for cl in ("interval", "triangle", "quadrilateral", "tetrahedron")
                                           for v in ((0, 1) if not quick else ((0,) if cl in ("interval", "quadrilateral") else (1,)))])]
    items += [{"builder": "harness.corpus.realise_multirule", "must_compile": True, "mr": {"cell": cl, "variant": v, "samesize": True}, "seed": chk.seed * 7 + 70 + k,
               "scalar": "float64", "ninputs": 1, "geom": "affine", "label": f"multirule/{cl}/samesize{v}"}
              for k, (cl, v) in enumerate([(cl, v) for cl in ("interval", "triangle", "quadrilateral", "tetrahedron", "hexahedron")
                                           for v in ((0,) if quick else (0, 1))])]
    # several rules in one facet integral (vertex scheme / custom facet rule / default rule)
    fm = [(cl, ms, v) for cl in ("triangle", "quadrilateral", "tetrahedron", "hexahedron") for ms in ("ds", "dS") for v in range(12)]
    random.Random(chk.seed + 21).shuffle(fm)
    if quick:                                          # every combination of rules once, the vertex-after-another-rule one twice
        fm = [next(t for t in fm if t[2] == v) for v in (0, 1, 2, 3, 4, 5, 7, 9, 6)]
    fm = sorted(fm, key=lambda t: t[2])
    for kk, (cl, ms, v) in enumerate(fm):
        items.append({"builder": "harness.corpus.realise_facet_multirule", "must_compile": True, "fm": {"cell": cl, "variant": v, "measure": ms},
                      "seed": chk.seed * 17 + kk, "scalar": "float64", "ninputs": 1, "geom": "affine", "max_entities": 2, "npairs": 1, "nperm": 1,
                      "label": f"facetmultirule/{cl}/{ms}/v{v}"})
    # integrals with and without an explicit degree on one subdomain
    for kk, (cl, var) in enumerate([(cl, var) for cl in ("interval", "triangle", "quadrilateral", "tetrahedron") for var in range(3 if quick else 6)]):
        items.append({"builder": "harness.corpus.realise_mixedmeta", "must_compile": True, "mm": {"cell": cl, "variant": var}, "seed": chk.seed * 13 + kk,
                      "scalar": "float64", "ninputs": 1, "geom": "affine", "label": f"mixedmeta/{cl}/v{var}"})
    for kk, (cl, var) in enumerate([(cl, var) for cl in ("interval", "triangle", "quadrilateral", "tetrahedron") for var in ((0, 1) if not quick else ((0,) if cl in ("triangle", "interval") else (1,)))]):
        items.append({"builder": "harness.corpus.realise_mixedmeta", "must_compile": True, "mm": {"cell": cl, "variant": var, "qe": True}, "seed": chk.seed * 13 + 40 + kk,
                      "scalar": "float64", "ninputs": 1, "geom": "affine", "label": f"mixedmeta/{cl}/qe{var}"})
    # the vertex scheme on facets (weights are those of the facet, not of the cell)
    fcs = s5.enumerate_formspace(chk, facets=True)
    for i, c in enumerate(s5.sample_cases([c for c in fcs if c["rule"] == "vertex"], 5 if quick else 40, chk.seed + 8, max_cost=30)):
        items.append({"case": c, "seed": chk.seed * 100003 + 700 + i, "scalar": "float64", "ninputs": 1, "builder": "harness.corpus.realise_facet",
                      "max_entities": 2, "npairs": 1, "nperm": 1})
    # requested degree honoured when it is *below* the integrand's degree (incl. degree 0)
    k = 0
    for cl in ("interval", "triangle", "quadrilateral", "tetrahedron", "hexahedron"):
        for q in (0, 1, 2):
            for rank in ((0, 1) if quick else (0, 1, 2)):
                if s5.basix_rational_rule(cl, q, "default") is None or (cl == "hexahedron" and rank == 2):
                    continue
                items.append({"builder": "harness.corpus.realise_underint", "must_compile": True, "ui": {"cell": cl, "q": q, "rank": rank, "how": "degree" if k % 2 else "metadata"},
                              "seed": chk.seed * 11 + k, "scalar": "float64", "ninputs": 1, "geom": "affine",
                              "label": f"underint/{cl}/degree={q}/rank{rank}"})
                k += 1
    recs = s5.run_items(chk, items, nworkers=4 if quick else 6)
    nz = s5.report(chk, items, recs)
    chk.add(underintegrated_cases=sum(1 for (lab, *_r) in nz if lab.startswith("underint/")))
    chk.add(distinct_nontrivial=len(nz) + nzs,
            rule="(1) Chebyshev-product functionals per (cell, degree, scheme), non-trivial = closed form non-zero; "
                 "(2) FormSpace.tla cases with vertex scheme / two rules / quadrature elements / default rule on polynomial integrands and the "
                 "multi-rule family (2-3 different rational rules + vertex + default in one integral), non-trivial = exact tensor not all zero")
    if nzs < (60 if quick else 900) or len(nz) < (12 if quick else 150):
        raise MachineryError(f"vacuity guard: {nzs} non-zero closed forms, {len(nz)} non-trivial rule cases")


def replay(chk, path):
    doc = json.loads(open(path).read())
    if "item" in doc["payload"]:
        return s5.replay(chk, path)
    raise MachineryError("replay of an exactness job: rerun ./check C11 with the same seed")
