"""C13 - JIT signatures are stable across processes and separate different inputs."""
from .. import s2

MANIFEST = {
    "engine": "S2-History",
    "technique": "TLA+ spec of process histories with write-once registries model-checked by TLC; TLC-enumerated and "
                 "TLC-simulated histories lived by real interpreters; the recorded behaviour validated by TLC against the spec",
    "text": "History.tla (see C12) with the registries name : request -> (module name, object names) [stability] and "
            "klass : module name -> code class [separation], and the per-module clause 'file-scope names are distinct "
            "valid C identifiers' (ValidIdent is defined in the spec over code points).  TLC checks the intended design "
            "exhaustively and refutes four designs that fall short: names from a lossy rendering of the evaluation points "
            "(Separating), names ignoring the option files (Separating), object names ignoring the position in the request "
            "(DistinctObjects), names depending on the hash seed or on a counter (Stable).  spec -> code: the request algebra is the spec's Req = Sig x n x Vis x Hid "
            "x Opt x Flag, enumerated exhaustively by TLC axis by axis (evaluation points: 5 arrays x {same, +1e-10, "
            "changed in the middle}, >1000 entries, float32/float64, n x 2 vs 2n x 1; literals differing by 1e-10 / 1 ulp; "
            "every scalar type; every option toggled; compile arguments permuted/extended; cffi_debug; the same form "
            "listed twice; the option files a process finds - Spawn(p, seed, conf) with conf in none / $PWD/ffcx_options.json / "
            "$XDG_CONFIG_HOME/ffcx/ffcx_options.json carrying scalar_type, epsilon, table_rtol/atol, sum_factorization, really "
            "installed in a private cwd / XDG_CONFIG_HOME before the first get_options(), for forms and expressions, a request "
            "being keyed by its merged options; forms and expressions living on two meshes, named under every seed and with "
            "id offsets 0/1/9) and simulated in long 3-process histories with junk objects and other compilations in between.  "
            "Each Name event really runs jit.compile_forms / compile_expressions with get_cached_module and cffi "
            "intercepted from outside: the names are the ones jit computes, the code class is a hash of exactly what "
            "jit hands to cffi (source and cdef with names normalised, final compiler arguments, libraries, debug flag).  "
            "code -> spec: the recorded behaviour is validated by TLC against HistoryTrace.tla; a rejected registry write "
            "is the violation (with a diff of the two normalised sources for a collision).  In every run a module name, an "
            "identifier code point and a definition list are corrupted in copies of the trace and TLC must reject each there.",
    "design_ref": "DESIGN.md section 4 C13, section 6 F2",
    "note": "Trusted: the interception points (jit.get_cached_module, jit.cffi), the name normalisation and the file-scope "
            "scanner in harness/histdrv/worker.py.  Bounded: the request algebra of harness/histdrv/corpus_meta.py; the "
            "code class is computed once per request recipe.",
}


def run(chk):
    s2.run_c13(chk)


def replay(chk, path):
    s2.replay(chk, path, "C13")
