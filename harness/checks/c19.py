"""C19 - accepted input always yields valid C; rejected input fails before the compiler."""
from .. import s4

MANIFEST = {
    "engine": "S4-Kernel/RuleIds (+ CC logging wrapper)",
    "technique": "TLA+ abstract machine executing the real generated kernels under TLC with the scope discipline as invariants; TLC "
                 "checks injectivity of the real quadrature-rule ids over all co-occurring rule pairs; clashes and unsupported constructs "
                 "are realised on the real JIT",
    "text": "(b) Kernel.tla executes every corpus kernel (real LNodes AST, blocks as the C formatter prints them) with ScopeDiscipline "
            "(every identifier resolves to a declaration in an open scope, arrays used as arrays, scalars as scalars) and UniqueNames "
            "(no identifier declared twice in one scope) evaluated on every statement instance. RuleIds.tla: the real "
            "QuadratureRule.id() of every rule FFCx builds for cell x degree 0..30 x scheme {default, GLL, vertex, default with sum "
            "factorisation} and two custom rules with equal points and different weights; TLC checks that co-occurring rules (same "
            "integration cell type, or the two facet types of a prism) with equal id are the same rule; every clash is realised as "
            "f*v*dx(rule a) + g*v*dx(rule b) through the real JIT and classified (compile error / wrong values / benign). "
            "(a) every corpus form (thorough: every demo) is JIT-compiled with -Wall -Werror; a family of unsupported constructs "
            "(custom and cut-cell integral types, vertex integrals with discontinuous elements, empty forms, interior-facet integrals "
            "on prisms, expressions with two arguments, codimension 3, sum factorisation without tensor-product elements, facet "
            "quantities at cell points, two integration domains with one (type, id), modified Bessel functions, restricted terminals and "
            "non-linear use of the Argument in expressions) must raise a Python exception while a logging CC wrapper records no compiler "
            "invocation; a case of that family that IS accepted is not waved through: its kernels are executed by Kernel.tla (InBounds, "
            "NoDeref) and, for expressions, compared with the exact oracle Fem.tla ('never silently computes something else'). "
            "(c) literal well-formedness is C16's grammar.",
    "design_ref": "DESIGN.md section 4 C19, section 6 F7",
    "note": "Trusted: harness/kexport.py, the CC wrapper (checked by a control compile in every run). Bounded: degrees 0..30, the "
            "corpus of harness/kcorpus.py (+ demos in the thorough tier). JIT traces of the other checks are judged by C14/C15 (S1).",
}


def build_unsupported_expr(item):
    """s5 item builder: an expression of the unsupported family that ffcx accepted"""
    from .. import kcorpus
    objs, _opts, _kind = kcorpus.UNSUPPORTED[item["uns"]]()
    e, pts = objs[0]
    return {"expr": e, "points": pts, "case": {"uns": item["uns"]}}


def run(chk):
    s4.run_names(chk)
    summary = s4.run_unsupported(chk)
    # "never produce code that silently computes something else": an EXPRESSION of the unsupported family that is
    # accepted is evaluated by the exact oracle (Fem.tla) like a C04 case - its kernel must then at least compute it
    acc = [n for n, v in summary.items() if v.startswith("accepted")]
    from .. import kcorpus, s5
    items = []
    for n in acc:
        objs, opts, kind = kcorpus.UNSUPPORTED[n]()
        if kind == "expr" and not opts:
            items.append({"builder": "harness.checks.c19.build_unsupported_expr", "uns": n, "seed": chk.seed + 5, "scalar": "float64",
                          "ninputs": 1, "label": f"accepted-unsupported/{n}"})
    if items:
        recs = s5.run_items(chk, items, nworkers=1)
        s5.report(chk, items, recs)


def replay(chk, path):
    import json
    from pathlib import Path

    doc = json.loads(Path(path).read_text())
    if ":rule-id-clash:" in doc.get("key", ""):
        s4.rule_ids(chk)
    elif ":unsupported-" in doc.get("key", ""):
        s4.run_unsupported(chk)
    else:
        s4.replay(chk, path, lambda c: (s4.run_names(c), s4.run_unsupported(c)))
