"""C07 - kernels accumulate into A and are pure functions of their inputs."""
from .. import s4

MANIFEST = {
    "engine": "S4-Kernel/KernelPair/KernelThreads",
    "technique": "TLA+ abstract machine executing the real generated kernels under TLC with WriteDiscipline and NoUninitialisedRead as "
                 "invariants; lock-step pairs of executions for additivity and repeatability; exhaustive interleaving model for threads; "
                 "conformance runs of the compiled C kernels",
    "text": "Kernel.tla executes every corpus kernel (real LNodes AST) one statement instance per TLC state. WriteDiscipline: the only "
            "write to a non-local is A[..] += e, A is read by nothing else, w/c/coordinate_dofs/entity_local_index/"
            "quadrature_permutation and every const array are never written, nothing is declared static without const (flags parsed "
            "from the C text printed by the real formatter). NoUninitialisedRead: every cell read was written in this call (C semantics "
            "for `= {0}`). KernelPair.tla: the same kernel on A0 = 0 and on random A0 (Additive: A_final - A0 identical), and twice in "
            "sequence (Repeatable), values in Z_46337. KernelThreads.tla: two threads x <= 3 statement instances over the statement "
            "kinds WriteDiscipline admits, shared static const region, disjoint A - every interleaving gives the sequential result "
            "(and TLC rejects the model once a mutable static cell is added). Real code: the compiled kernels are called from 8 "
            "threads on disjoint A and compared bit-for-bit with sequential calls, on random pre-filled A twice, and in a child "
            "process with all inputs in PROT_READ pages (a fault there is reported as a violation naming the kernel).",
    "design_ref": "DESIGN.md section 4 C07, appendix B",
    "note": "Trusted: harness/kexport.py, the Z_p interpretation (ring homomorphism on dyadic literals, uninterpreted math functions), "
            "C16 for AST<->C. Bounded: kernels up to 20k/250k statement instances, pairs up to 2.5k/30k; 2-thread model.",
}


def run(chk):
    s4.run_c07(chk)


def replay(chk, path):
    s4.replay(chk, path, s4.run_c07)
