"""C17 - AST simplifications and optimiser passes preserve the computed values."""
from .. import s6

MANIFEST = {
    "engine": "S6-LExprAlgebra (+ S4-KernelPair for the optimiser half when present)",
    "technique": "TLA+ spec of the value of LNodes expressions (rational arithmetic) and of the reference meaning of the overloaded operators; "
                 "TLC enumerates the operand-kind x operator cases, the real operators are executed, TLC evaluates the real results in all environments",
    "text": "LExprAlgebra.tla: Eval of LNodes trees over gcd-normalised rationals, reference meaning of + - * / unary minus and their reflected "
            "forms. TLC enumerates {LiteralFloat, LiteralInt, Python int, Python float of 0/1/-1/3|2.5/-3|-2.5, Symbol, Neg(Symbol), Neg(Neg(Symbol)), "
            "Sum, Product, ArrayAccess}^2 x 9 operators; the harness builds the real operands, applies the real overloaded operator and exports the "
            "real result; TLC checks Eval(result, env) = Op(Eval(a, env), Eval(b, env)) for every env in {-2..2}^variables where the reference is "
            "defined, and that the real code raised exactly for division by a literal zero. Also float_product(factors) against the product and "
            "MultiIndex.global_index against row-major flattening for all shapes with <= 4 axes of extent 1..4, all index values, with and "
            "without a literal-int index. Optimiser half (fuse_sections, fuse_loops, licm): engine S4 (KernelPair.tla) when available.",
    "design_ref": "DESIGN.md section 4 C17",
    "note": "Trusted: astexport and the mechanical projection to [k,s,a,n,d]. Ring/field semantics only (no floating-point rounding). "
            "The optimiser half is delegated to harness.s4.run_optimizer when that engine exists.",
}


def run(chk):
    s6.run_overloads(chk)
    # TODO(S4): optimiser half - KernelPair.tla lock-step execution of optimizer.optimize inputs/outputs
    try:
        from .. import s4
    except ImportError:
        chk.note("optimiser half not run: engine S4 (harness/s4.py) is not present yet")
        chk.add(optimizer_half="not run (S4 missing)")
        return
    if hasattr(s4, "run_optimizer"):
        s4.run_optimizer(chk)
    else:
        chk.note("optimiser half not run: harness.s4 has no run_optimizer yet")
        chk.add(optimizer_half="not run (s4.run_optimizer missing)")


def replay(chk, path):
    run(chk)
