"""CC wrapper of engine S4: records every compiler / linker invocation (one line per call) in $S4_CC_LOG, then runs gcc.

Used as  CC="/venv/bin/python -S -E /verif/harness/s4cc.py"  to show that a rejected (unsupported) input raised its
Python exception before any C compiler process was started (the log stays empty).
"""
import os
import sys


def main():
    log = os.environ.get("S4_CC_LOG")
    if log:
        with open(log, "a") as f:
            f.write(" ".join(sys.argv[1:]) + "\n")
    cc = os.environ.get("S4_REAL_CC", "gcc")
    os.execvp(cc, [cc, *sys.argv[1:]])


if __name__ == "__main__":
    main()
