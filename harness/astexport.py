"""LNodes AST -> plain JSON trees (a projection: no interpretation, no simplification).

Used by engine S6 (text <-> tree, operator overloads) and meant to be reused by S4 (kernel machine).
`ffcx` must already be importable from the tree under test (common.ensure_repo_on_path()).

    export_expr(node)  -> dict      any LExpr (also MultiIndex)
    export_stmt(node)  -> dict      any statement-level LNode (StatementList, Section, ForRange, ...)
    export(node)       -> dict      dispatches on the node

Every dict has "kind" (the LNodes class name).  Expression dicts also have "dtype"
(DataType name or None) and "prec" (the node's `precedence` attribute as coded today).

  LiteralFloat  value (float) | value {"re","im"} for complex, "complex": bool, "hex" exact spelling
  LiteralInt    value (int)
  Symbol        name
  ArrayAccess   array (name), array_dtype, indices [expr]
  MultiIndex    symbols [expr], sizes [int], global_index expr
  Neg Not       op, args [arg]
  BinOp family  op, args [lhs, rhs]          (Add Sub Mul Div EQ NE LT GT LE GE And Or, Assign*)
  Sum Product   op, args [...]
  MathFunction  function, args [...]
  Conditional   args [condition, true, false]

  Statement     expr
  StatementList statements [stmt]
  Section       name, declarations [stmt], statements [stmt], input [name], output [name], annotations [name]
  Comment       comment
  VariableDecl  symbol (name), dtype, value expr|None
  ArrayDecl     symbol (name), dtype, sizes [int], values nested list|None, values_kind "float"|"int"|"complex"|None, const
  ForRange      index expr, begin expr, end expr, body [stmt]

Python numbers met where an LExpr is expected (never produced by as_lexpr, but tolerated) are exported as
{"kind": "PyInt"|"PyFloat", "value": v}.
"""

from __future__ import annotations

import numbers

import numpy as np


def _L():
    import ffcx.codegeneration.lnodes as L  # noqa: PLC0415

    return L


def _dtype_name(node):
    d = getattr(node, "dtype", None)
    return getattr(d, "name", None) if d is not None else None


def float_hex(x: float) -> str:
    return float(x).hex()


def _lit_float(v) -> dict:
    if isinstance(v, complex):
        return {"value": {"re": float(v.real), "im": float(v.imag)}, "complex": True,
                "hex": f"{float(v.real).hex()}|{float(v.imag).hex()}"}
    return {"value": float(v), "complex": False, "hex": float(v).hex()}


def export_expr(node) -> dict:
    """Export one LNodes expression (recursively)."""
    L = _L()
    if isinstance(node, bool):
        raise TypeError("bool is not an LNodes expression")
    if not isinstance(node, L.LNode):
        if isinstance(node, numbers.Integral):
            return {"kind": "PyInt", "value": int(node)}
        if isinstance(node, numbers.Real):
            return {"kind": "PyFloat", "value": float(node), "hex": float(node).hex()}
        raise TypeError(f"cannot export {type(node)} as an expression")
    kind = type(node).__name__
    out: dict = {"kind": kind, "dtype": _dtype_name(node), "prec": getattr(node, "precedence", None)}
    if isinstance(node, L.LiteralFloat):
        out.update(_lit_float(node.value))
    elif isinstance(node, L.LiteralInt):
        out["value"] = int(node.value)
    elif isinstance(node, L.Symbol):
        out["name"] = node.name
    elif isinstance(node, L.MultiIndex):
        out["symbols"] = [export_expr(s) for s in node.symbols]
        out["sizes"] = [int(s) for s in node.sizes]
        out["global_index"] = export_expr(node.global_index)
    elif isinstance(node, L.ArrayAccess):
        out["array"] = node.array.name
        out["array_dtype"] = _dtype_name(node.array)
        out["indices"] = [export_expr(i) for i in node.indices]
    elif isinstance(node, L.PrefixUnaryOp):
        out["op"] = node.op
        out["args"] = [export_expr(node.arg)]
    elif isinstance(node, L.BinOp):
        out["op"] = node.op
        out["args"] = [export_expr(node.lhs), export_expr(node.rhs)]
    elif isinstance(node, L.NaryOp):
        out["op"] = node.op
        out["args"] = [export_expr(a) for a in node.args]
    elif isinstance(node, L.MathFunction):
        out["function"] = str(node.function)
        out["args"] = [export_expr(a) for a in node.args]
    elif isinstance(node, L.Conditional):
        out["args"] = [export_expr(node.condition), export_expr(node.true), export_expr(node.false)]
    else:
        raise TypeError(f"unknown LNodes expression class {kind}")
    return out


def _values(values):
    if values is None:
        return None, None
    arr = np.asarray(values)
    if np.iscomplexobj(arr):
        def cv(x):
            if isinstance(x, list):
                return [cv(y) for y in x]
            return {"re": float(x.real), "im": float(x.imag)}
        return cv(arr.tolist()), "complex"
    if np.issubdtype(arr.dtype, np.integer) or arr.dtype == np.bool_:
        return np.asarray(arr, dtype=np.int64).tolist(), "int"
    return np.asarray(arr, dtype=np.float64).tolist(), "float"


def export_stmt(node) -> dict:
    """Export one statement-level LNode (recursively)."""
    L = _L()
    kind = type(node).__name__
    if isinstance(node, L.StatementList):
        return {"kind": kind, "statements": [export_stmt(s) for s in node.statements]}
    if isinstance(node, L.Section):
        return {"kind": kind, "name": node.name,
                "declarations": [export_stmt(s) for s in node.declarations],
                "statements": [export_stmt(s) for s in node.statements],
                "input": [s.name for s in node.input], "output": [s.name for s in node.output],
                "annotations": [a.name for a in node.annotations]}
    if isinstance(node, L.Comment):
        return {"kind": kind, "comment": node.comment}
    if isinstance(node, L.VariableDecl):
        return {"kind": kind, "symbol": node.symbol.name, "dtype": _dtype_name(node.symbol),
                "value": None if node.value is None else export_expr(node.value)}
    if isinstance(node, L.ArrayDecl):
        vals, vk = _values(node.values)
        return {"kind": kind, "symbol": node.symbol.name, "dtype": _dtype_name(node.symbol),
                "sizes": [int(s) for s in node.sizes], "values": vals, "values_kind": vk,
                "values_dtype": None if node.values is None else str(np.asarray(node.values).dtype),
                "const": bool(node.const)}
    if isinstance(node, L.ForRange):
        return {"kind": kind, "index": export_expr(node.index), "begin": export_expr(node.begin),
                "end": export_expr(node.end), "body": [export_stmt(s) for s in node.body.statements]}
    if isinstance(node, L.Statement):          # plain Statement wrapping an (assignment) expression
        return {"kind": "Statement", "expr": export_expr(node.expr)}
    if isinstance(node, L.LExpr):              # an assignment expression used directly as a statement
        return {"kind": "Statement", "expr": export_expr(node)}
    raise TypeError(f"unknown LNodes statement class {kind}")


def export(node) -> dict:
    L = _L()
    if isinstance(node, L.LExpr) and not isinstance(node, L.AssignOp):
        return export_expr(node)
    return export_stmt(node)


def walk(tree: dict):
    """Yield every dict node of an exported tree (pre-order)."""
    stack = [tree]
    while stack:
        t = stack.pop()
        if isinstance(t, dict):
            yield t
            for v in t.values():
                if isinstance(v, (dict, list)):
                    stack.append(v)
        elif isinstance(t, list):
            stack.extend(t)
