"""Engine S2: History.tla <-> real Python processes running the FFCx code generator / JIT namer (C12, C13).

spec -> code   TLC enumerates (exhaustively for small depth) and simulates behaviours of History.tla over the
               real alphabet (template names, option names, request algebra); every process history in them
               is lived by a real interpreter started with PYTHONHASHSEED = the Spawn's seed.
code -> spec   the recorded events (signature key, sha1 of the text, names, code class, UFL counters) form one
               long behaviour that TLC validates against HistoryTrace.tla: the write-once registries of
               History.tla accept or reject every recorded value.

Python here only selects which TLC histories to run, runs them, and reads TLC's verdicts.
"""

from __future__ import annotations

import difflib
import heapq
import json
import random
import re
import subprocess
from concurrent.futures import ThreadPoolExecutor
from pathlib import Path

from . import tlc
from .common import NCPU, PY, REPO, MachineryError, child_env, scratch
from .histdrv import corpus_meta as meta

INVS = ["TypeOK", "Functional", "Stable", "Separating", "DistinctObjects", "ValidIdentifiers"]
OWNER = {"Functional": "C12", "Stable": "C13", "Separating": "C13", "DistinctObjects": "C13",
         "ValidIdentifiers": "C13"}
FIXED_SEEDS = [0, 1, 4242]
NW = max(2, min(6, NCPU))


# ---------------------------------------------------------------------------
# TLC configurations of History.tla


def consts(**kw) -> dict:
    c = dict(Proc=["p1", "p2"], Seed=[0, 1], Conf=["none"], Sig=["s1", "s2"], Route=[0, 1], Opt=["o1"], Vis=["v1"],
             Hid=["h1"], Flag=[], MaxObjs=1, MaxEvents=6, Record=False, Leak="none", Lossy=False, DropPos=False,
             IgnoreConf=False)
    c.update(kw)
    return c


def _render(v):
    if isinstance(v, (list, tuple, set)):
        return "{" + ", ".join(tlc.tla(x) for x in v) + "}"
    return tlc.tla(v)


def cfg(c: dict, invs=(), props=(), spec="Spec", view=False, subst=None) -> str:
    lines = [f"SPECIFICATION {spec}", "CONSTANTS"]
    for k, v in c.items():
        if not (subst and k in subst):
            lines.append(f"  {k} = {_render(v)}")
    for k, v in (subst or {}).items():
        lines.append(f"  {k} <- {v}")
    if view:
        lines.append("VIEW view")
    lines += [f"INVARIANT {i}" for i in invs] + [f"PROPERTY {p}" for p in props]
    return "\n".join(lines) + "\n"


_COV = re.compile(r"^<(\w+) line \d+, col \d+ to line \d+, col \d+ of module History[^>]*>: (\d+):(\d+)", re.M)


def model_check(chk, name, c, invs=INVS, props=("WriteOnce",), coverage=False, timeout=1500):
    d = tlc.stage(name, ["History"])
    r = tlc.run(d, "History", cfg_text=cfg(c, invs, props, view=True), coverage=coverage, timeout=timeout, workers=4)
    tlc.must_ok(r, name)
    if coverage:
        r.coverage = {m.group(1): (int(m.group(3)), int(m.group(2))) for m in _COV.finditer(r.out)}
    chk.add(states=r.distinct, transitions=r.generated)
    chk.note(f"TLC {name}: {r.generated} generated, {r.distinct} distinct, depth {r.depth}, {r.wall_s:.1f}s, "
             f"verdict={'ok' if r.ok else r.violated}")
    return r


def design_must_hold(chk, name, c, coverage=False):
    r = model_check(chk, name, c, coverage=coverage)
    if not r.ok:
        raise MachineryError(f"design spec History.tla violates {r.violated} in config {name}:\n" +
                             "\n".join(r.error_trace[:60]))
    if coverage:
        acts = ("Spawn", "Exit", "CreateJunk", "Generate") + (("Name",) if c["Flag"] else ())
        dead = [a for a in acts if r.coverage.get(a, (0, 0))[1] == 0]
        if dead:
            raise MachineryError(f"vacuity: actions never taken in {name}: {dead}")
        chk.add(action_coverage={a: r.coverage[a][1] for a in acts})
    return r


def control_must_fail(chk, name, c, expect):
    """A design that falls short (Leak / Lossy / DropPos) must be refuted by TLC with the expected invariant."""
    d = tlc.stage(name, ["History"])
    r = tlc.run(d, "History", cfg_text=cfg(c, [expect], (), view=True), workers=2, timeout=600)
    tlc.must_ok(r, name)
    chk.add(states=r.distinct, transitions=r.generated)
    if r.violated != expect:
        raise MachineryError(f"negative control {name}: expected TLC to refute {expect}, got {r.violated or 'no error'}")
    chk.add(controls_rejected=[f"{name}:{expect}"])
    return r


def run_parallel(fns):
    with ThreadPoolExecutor(max(1, min(len(fns), 6))) as ex:
        futs = [ex.submit(f) for f in fns]
        return [f.result() for f in futs]


# ---------------------------------------------------------------------------
# spec -> code: histories from TLC



def _printed_hists(out: str):
    """The values TLC printed for EmitHist (pretty-printed over several lines)."""
    return [tlc.parse_tla(out[m.start():])[1] for m in re.finditer(r'^<<\s*"HIST",', out, re.M)]


def enumerate_histories(name, c, timeout=900):
    """All behaviours of History.tla of exactly MaxEvents events (exhaustive search, hist not hidden by a VIEW)."""
    d = tlc.stage(name, ["History"])
    r = tlc.run(d, "History", cfg_text=cfg(dict(c, Record=True), invs=["EmitHist"]), timeout=timeout, workers=2)
    tlc.must_ok(r, name)
    if not r.ok:
        raise MachineryError(f"history enumeration {name} ended with {r.violated}")
    return _printed_hists(r.out), r


def simulate_histories(name, c, n, depth, seed, timeout=900):
    """n random behaviours of History.tla of `depth` events each."""
    d = tlc.stage(name, ["History"])
    w = max(1, min(2, n))
    per = max(1, (n + w - 1) // w)
    r = tlc.run(d, "History", cfg_text=cfg(dict(c, Record=True, MaxEvents=depth), invs=["EmitHist"]),
                simulate=f"num={per}", depth=depth + 2, seed=seed, workers=w, timeout=timeout)
    tlc.must_ok(r, name)
    return _printed_hists(r.out), r


def prefixes(life):
    return [dict(life, events=life["events"][:k]) for k in range(1, len(life["events"]) + 1)]


def recipe_of(req: dict) -> dict:
    """History.tla request record -> the harness' request recipe (harness/histdrv/corpus.build_request)."""
    t = req["sig"]
    pts = None
    if t == "expr_tri":
        hid = req["hid"]
        if hid == "eps" and req["vis"].endswith("_f32"):
            hid = "none"      # 1e-10 is below float32 resolution: the array (hence the request) is the unperturbed one
        pts = req["vis"] + ("" if hid == "none" else "+" + hid)
    elif t == "expr_int":
        pts = "int12" + ("" if req["hid"] == "none" else "+" + req["hid"])
    elif t == "expr_two_mesh":
        pts = "tri6" + ("" if req["hid"] == "none" else "+" + req["hid"])
    elif t.startswith("expr_lit"):
        pts = "tri6"
    return {"tmpl": t, "n": req["n"], "pts": pts, "opt": req["opt"], "flag": req["flag"]}


def realise(e: dict) -> dict:
    if e["act"] == "CreateJunk":
        return {"act": "CreateJunk", "kind": e["kind"]}
    if e["act"] == "Generate":
        t = e["sig"]
        return {"act": "Generate", "tmpl": "req:" + t if t in meta.REQ_FORMS + meta.REQ_EXPRS else t,
                "route": e["route"], "opt": e["opt"]}
    if e["act"] == "Name":
        return {"act": "Name", "recipe": recipe_of(e["req"]), "route": e["req"]["route"]}
    raise KeyError(e["act"])


def lives_of(hist) -> list[dict]:
    """Split a behaviour into process lives (processes share nothing, so their events commute)."""
    cur, out = {}, []
    for e in hist:
        p = e["proc"]
        if e["act"] == "Spawn":
            cur[p] = {"seed": e["seed"], "conf": e.get("conf", "none"), "events": []}
            out.append(cur[p])
        elif e["act"] == "Exit":
            cur.pop(p, None)
        else:
            cur[p]["events"].append(realise(e))
    return [x for x in out if x["events"]]


def life_key(life) -> str:
    return json.dumps([life["seed"], life.get("conf", "none"), life["events"]], sort_keys=True)


def dedupe(lives):
    seen, out = set(), []
    for x in lives:
        k = life_key(x)
        if k not in seen:
            seen.add(k)
            out.append(x)
    return out


# -- what a life exercises -----------------------------------------------------


def request_key(recipe, conf):
    """What is compiled with which options (the call's merged over the process' option files)."""
    return json.dumps([{k: v for k, v in recipe.items() if k != "opt"}, meta.effective_options(conf, recipe["opt"])],
                      sort_keys=True)


def subject(e, conf="none"):
    if e["act"] == "Generate":
        return ("G", e["tmpl"], e["opt"]) if conf == "none" else ("G", e["tmpl"], e["opt"], conf)
    return ("N", json.dumps(e["recipe"], sort_keys=True), conf)


def contexts(life):
    """For every Generate/Name event of a life: (index, subject, context) with context = what of the
    process' hidden state differs from a fresh seed-0 interpreter."""
    junk, comp, out = [], [], []
    for i, e in enumerate(life["events"]):
        if e["act"] == "CreateJunk":
            junk.append(e["kind"])
            if e["kind"] == "form":
                comp.append(("J",))
            continue
        sub = subject(e, life.get("conf", "none"))
        out.append((i, sub, {"seed": life["seed"], "conf": life.get("conf", "none"), "junk": sorted(set(junk)),
                             "ncompiled": len(comp),
                             "repeat": sub in comp, "route": e.get("route", 0),
                             "after": sorted({c[1] for c in comp if len(c) > 1})[:6]}))
        comp.append(sub)
    return out


def items_of(life):
    s = set()
    for _, sub, cx in contexts(life):
        plain = not cx["junk"] and not cx["ncompiled"] and not cx["route"]
        s.add(("sub", sub))
        if plain and cx["seed"] == 0:
            s.add(("base", sub, 0))
        s.add(("seed", sub, cx["seed"]))
        for k in cx["junk"]:
            s.add(("junk", sub, k))
        if cx["ncompiled"]:
            s.add(("after", sub))
        for a in cx["after"]:
            s.add(("after2", sub, a))
        if cx["repeat"]:
            s.add(("repeat", sub))
        if cx["route"]:
            s.add(("route", sub))
    return s


def cost_of(life) -> float:
    """Estimated cpu seconds of living it in a fork of the zygote (fork + copy-on-write dominate)."""
    c = 0.45
    for e in life["events"]:
        if e["act"] == "Generate":
            c += meta.COST.get(e["tmpl"], 0.04)
        elif e["act"] == "Name":
            c += 0.25 if (e["recipe"].get("pts") or "").startswith("tri600") else 0.04
        else:
            c += 0.03 if e["kind"] == "form" else 0.001
    return c


def select(lives, budget, must=()):
    """Greedy cover (lazy evaluation): most new (subject, context) items per cost until the budget is spent."""
    def worth(items):          # making a subject at all counts more than one more context of it
        return sum(8 if it[0] == "sub" else 1 for it in items)

    pool = [(x, items_of(x), cost_of(x)) for x in lives]
    chosen, seen, spent = [], set(), 0.0
    for x in must:
        chosen.append(x)
        seen |= items_of(x)
        spent += cost_of(x)
    heap = [(-worth(it) / c, i) for i, (_, it, c) in enumerate(pool)]
    heapq.heapify(heap)
    while heap and spent < budget:
        neg, i = heapq.heappop(heap)
        x, it, c = pool[i]
        gain = worth(it - seen) / c
        if gain <= 0:
            continue
        if heap and gain < -heap[0][0] - 1e-12:
            heapq.heappush(heap, (-gain, i))
            continue
        chosen.append(x)
        seen |= it
        spent += c
    return dedupe(chosen), seen, spent


# ---------------------------------------------------------------------------
# running lives on real interpreters


def run_lives(lives, fresh: set[int], tag="lives"):
    """lives[i] -> list of recorded events.  i in `fresh`: a brand-new interpreter (exec) for this life alone;
    otherwise a fork of a per-seed zygote that has imported ffcx/ufl/basix and done nothing else."""
    d = scratch(tag)
    texts = d / "texts"
    texts.mkdir(exist_ok=True)
    tasks = []
    for i in sorted(fresh):
        tasks.append((lives[i]["seed"], [i], False, cost_of(lives[i]) + 1.0))
    by_seed: dict[int, list[int]] = {}
    for i, x in enumerate(lives):
        if i not in fresh:
            by_seed.setdefault(x["seed"], []).append(i)
    total = sum(cost_of(lives[i]) for ids in by_seed.values() for i in ids) or 1.0
    for s, ids in by_seed.items():
        share = sum(cost_of(lives[i]) for i in ids) / total
        nchunks = max(1, min(len(ids), round(share * NW * 2)))
        chunks = [[] for _ in range(nchunks)]
        load = [0.0] * nchunks
        for i in sorted(ids, key=lambda i: -cost_of(lives[i])):
            j = load.index(min(load))
            chunks[j].append(i)
            load[j] += cost_of(lives[i])
        for ch, ld in zip(chunks, load):
            tasks.append((s, ch, True, ld + 1.0))
    tasks.sort(key=lambda t: -t[3])
    results: dict[int, list] = {}

    def one(t):
        n, (s, ids, zyg, _) = t
        jf, of = d / f"job{n}.json", d / f"out{n}.json"
        jobs = [{"pid": f"L{i}", "seed": s, "conf": lives[i].get("conf", "none"), "texts": str(texts), "tmp": str(d),
                 "events": lives[i]["events"]} for i in ids]
        jf.write_text(json.dumps({"zygote": zyg, "jobs": jobs}))
        p = subprocess.run([PY, "-m", "harness.histdrv.worker", str(jf), str(of)],
                           env=child_env({"PYTHONHASHSEED": s}), capture_output=True, text=True, timeout=3000)
        if p.returncode != 0 or not of.exists():
            raise MachineryError(f"history worker failed (rc={p.returncode}): {p.stderr[-3000:]}")
        return json.loads(of.read_text())

    with ThreadPoolExecutor(NW) as ex:
        for outs in ex.map(one, list(enumerate(tasks))):
            for o in outs:
                if "error" in o:
                    raise MachineryError(f"history worker error in {o['pid']}:\n{o['error']}")
                results[int(o["pid"][1:])] = o["events"]
    return [results[i] for i in range(len(lives))], texts


def slim(e: dict) -> dict:
    """What HistoryTrace.tla reads of a recorded event (no nulls, no nested harness data)."""
    a = e["act"]
    out = {"act": a, "proc": e["proc"], "seed": e["seed"]}
    if a == "Spawn":
        out["conf"] = e["conf"]
        return out
    out["made"], out["cnt"] = e["made"], e["cnt"]
    if a == "CreateJunk":
        out["kind"] = e["kind"]
    elif a == "Generate":
        out["sigkey"], out["sha"] = e["sigkey"], e["sha"]
    elif a == "Name":
        for k in ("reqkey", "modname", "objnames", "defs", "idc", "hasclass", "klass"):
            out[k] = e[k]
    return out


def assemble(lives, recorded):
    """One behaviour: for every life its Spawn, then its events.  Returns (events, index of the life of each)."""
    events, where = [], []
    for i, (life, evs) in enumerate(zip(lives, recorded)):
        events.append({"act": "Spawn", "proc": f"L{i}", "seed": life["seed"], "conf": life.get("conf", "none")})
        where.append((i, -1))
        for j, e in enumerate(evs):
            events.append(e)
            where.append((i, j))
    return events, where


def validate(events, name="trace"):
    """TLC judges the recorded behaviour.  -> (verdict list [(line, property, first line)], TlcResult)"""
    d = tlc.stage(name, ["History", "HistoryTrace"])
    f = d / "events.json"
    f.write_text(json.dumps([slim(e) for e in events]))
    c = consts(Proc=sorted({e["proc"] for e in events}), Seed=sorted({e["seed"] for e in events}),
               Conf=sorted({e["conf"] for e in events if e["act"] == "Spawn"}), MaxEvents=len(events) + 1, Record=False)
    text = cfg(c, invs=["Judge"], spec="TSpec")
    r = tlc.run(d, "HistoryTrace", cfg_text=text, workers=1, env={"HIST_FILE": str(f)}, timeout=2400, heap="6g")
    tlc.must_ok(r, f"trace validation {name}")
    at, viol, drift = 0, [], []
    for s in r.printed:
        if not s.startswith("<<"):
            continue
        v = tlc.parse_tla(s)
        if v[0] == "AT":
            at = max(at, v[1])
        elif v[0] == "VIOL":
            viol.append((v[1], v[2], v[3]))
        elif v[0] == "DRIFT":
            drift.append(v[1])
    if at != len(events) + 1:
        e = events[at - 1] if at - 1 < len(events) else None
        raise MachineryError(f"HistoryTrace consumed {at - 1} of {len(events)} events; no History step for "
                             f"{json.dumps({k: v for k, v in (e or {}).items() if k not in ('idc', 'defs')})[:400]}\n"
                             + "\n".join(r.out.splitlines()[-15:]))
    if drift:
        e = events[drift[0] - 1]
        raise MachineryError(f"hidden-state drift at event {drift[0]} ({e['act']} {e.get('kind', '')} in {e['proc']}): "
                             f"recorded counters {e.get('cnt')} are not what History.tla predicts - the driver does "
                             f"not live the history the spec describes ({len(drift)} such events)")
    return sorted(set(viol)), r


# ---------------------------------------------------------------------------
# reporting


def _ctx_of(lives, events, where, line):
    i, j = where[line - 1]
    e = events[line - 1]
    for jj, sub, cx in contexts(lives[i]):
        if jj == j:
            cx = dict(cx, objects_before={k: e["cnt"][k] - e["made"][k] for k in e["cnt"]},
                      ids=e.get("ids", {}), id_lex_ok=e.get("id_lex_ok", True))
            return i, cx
    return i, {}


def _label(cx1, cx2):
    """Which parts of the hidden state History.tla keeps differ between two observations."""
    if cx1.get("conf", "none") != cx2.get("conf", "none"):
        return "conf"
    if cx1.get("id_lex_ok", True) != cx2.get("id_lex_ok", True):
        # the ids of the meshes / constants used sort differently as numbers and as decimal strings in one of the two
        return "id-order"
    f = []
    if cx1.get("seed") != cx2.get("seed"):
        f.append("seed")
    if cx1.get("objects_before") != cx2.get("objects_before") or cx1.get("route") != cx2.get("route"):
        f.append("counters")
    if (cx1.get("ncompiled", 0) > 0) != (cx2.get("ncompiled", 0) > 0):
        f.append("cache")
    return "+".join(f) or "same-state"


def _diff(texts: Path, a: str, b: str, na: str, nb: str, limit=60):
    try:
        ta, tb = (texts / a).read_text().splitlines(), (texts / b).read_text().splitlines()
    except OSError:
        return ["(texts not kept)"]
    return list(difflib.unified_diff(ta, tb, na, nb, lineterm="", n=1))[:limit]


def _short(recipe):
    return f"{recipe['tmpl']}/{recipe.get('pts') or '-'}/{recipe['opt']}/{recipe['flag']}/n{recipe.get('n', 1)}"


def _abbrev(life):
    out = [f"seed={life['seed']}"] + ([f"conf={life['conf']}"] if life.get("conf", "none") != "none" else [])
    for e in life["events"]:
        if e["act"] == "CreateJunk":
            out.append("junk:" + e["kind"])
        elif e["act"] == "Generate":
            out.append(f"gen:{e['tmpl']}[{e['opt']}]" + (f"r{e['route']}" if e.get("route") else ""))
        else:
            out.append("name:" + _short(e["recipe"]) + ("*" if e.get("want_class") else ""))
    return out


def report(chk, own, lives, events, where, viol, texts):
    for line, prop, first in viol:
        e, f = events[line - 1], events[first - 1]
        li, cx = _ctx_of(lives, events, where, line)
        lf, cf = _ctx_of(lives, events, where, first)
        pay = {"property_invariant": prop, "event": {k: v for k, v in e.items() if k not in ("idc", "defs")},
               "first": {k: v for k, v in f.items() if k not in ("idc", "defs")},
               "context": cx, "first_context": cf, "lives": [lives[lf], lives[li]] if lf != li else [lives[li]],
               "abbrev": [_abbrev(lives[lf]), _abbrev(lives[li])]}
        if prop == "Functional":
            lab = _label(cf, cx)
            key = f"text:{lab}:{e['tmpl']}"
            what = (f"generated source for template {e['tmpl']} (options {e['opt']}) is not a function of its UFL "
                    f"signature: sha1 {f['sha'][:12]} in {f['proc']} {cf} but {e['sha'][:12]} in {e['proc']} {cx} "
                    f"[differs in: {lab}]")
            pay["diff"] = _diff(texts, f["sha"], e["sha"], f"{f['proc']}:{f['sha'][:12]}", f"{e['proc']}:{e['sha'][:12]}")
        elif prop == "Stable":
            lab = _label(cf, cx)
            key = f"name:{lab}:{_short(e['recipe'])}"
            what = (f"JIT names for request {_short(e['recipe'])} differ between processes: {f['modname']} "
                    f"{f['objnames']} in {f['proc']} {cf} vs {e['modname']} {e['objnames']} in {e['proc']} {cx}")
        elif prop == "Separating":
            ra, rb = sorted([dict(f["recipe"], conf=f.get("conf", "none")), dict(e["recipe"], conf=e.get("conf", "none"))],
                            key=lambda r: (_short(r), r["conf"]))
            dif = [f"{k}={ra.get(k)}|{rb.get(k)}" for k in ("tmpl", "n", "pts", "opt", "flag", "conf") if ra.get(k) != rb.get(k)]
            key = f"collision:{ra['tmpl']}:" + ",".join(dif)
            what = (f"requests {_short(f['recipe'])} [option files: {f.get('conf', 'none')}] and {_short(e['recipe'])} "
                    f"[option files: {e.get('conf', 'none')}] generate different code "
                    f"(class {f['klass'][:12]} vs {e['klass'][:12]}) but share the module name {e['modname']}")
            pay["class_parts"] = [f.get("klass_parts"), e.get("klass_parts")]
            if f.get("klass_parts") and e.get("klass_parts"):
                pay["diff"] = _diff(texts, f["klass_parts"]["source"], e["klass_parts"]["source"],
                                    _short(f["recipe"]), _short(e["recipe"]))
        elif prop == "DistinctObjects":
            dup = sorted({n for n in e["defs"] if e["defs"].count(n) > 1})
            key = f"dupnames:{e['recipe']['tmpl']}:n{e['recipe'].get('n', 1)}"
            what = f"module {e['modname']} for request {_short(e['recipe'])} defines a file-scope name twice: {dup[:4]}"
            pay["defs"] = e["defs"]
        else:
            key = f"badident:{e['recipe']['tmpl']}"
            what = f"module {e['modname']} for request {_short(e['recipe'])} has an object name that is not a C identifier"
            pay["defs"] = e["defs"]
        if OWNER[prop] == own:
            chk.violation(key, what, pay)
        else:
            chk.add(rejections_belonging_to_other_property=1)
            if chk.cov.get("rejections_belonging_to_other_property", 0) <= 3:
                chk.note(f"(belongs to {OWNER[prop]}) {what[:260]}")


def trace_controls(chk, own, events):
    """Binding check: corrupt one recorded field of a copy of the (beginning of the) recorded behaviour;
    TLC must reject exactly there with the expected property."""
    import copy

    ev = copy.deepcopy(events[:1500])
    cases = []
    if own == "C12":
        seen = set()
        for i, e in enumerate(ev):
            if e["act"] == "Generate":
                if e["sigkey"] in seen and not e["sha"].startswith("EXC"):
                    cases.append((i, "Functional", "sha"))
                seen.add(e["sigkey"])
        cases = cases[:1]
    else:
        seen, got = set(), {}
        for i, e in enumerate(ev):
            if e["act"] != "Name":
                continue
            if e["reqkey"] in seen:
                got.setdefault("Stable", (i, "Stable", "modname"))
            if e["hasclass"] and e["defs"] and len(e["idc"][0]) > 3:
                got.setdefault("ValidIdentifiers", (i, "ValidIdentifiers", "idc"))
                got.setdefault("DistinctObjects", (i, "DistinctObjects", "defs"))
            seen.add(e["reqkey"])
        cases = list(got.values())
    def one(case):
        i, prop, field = case
        bad = copy.deepcopy(ev[: i + 1])
        e = bad[i]
        if field == "sha":
            e["sha"] = ("0" if e["sha"][0] != "0" else "1") + e["sha"][1:]
        elif field == "modname":
            e["modname"] = e["modname"][:-1] + ("0" if e["modname"][-1] != "0" else "1")
        elif field == "idc":
            e["idc"][0][3] = 45            # '-' inside an identifier
        elif field == "defs":
            e["defs"] = e["defs"] + [e["defs"][0]]
            e["idc"] = e["idc"] + [e["idc"][0]]
        viol, r = validate(bad, f"control-{prop}")
        chk.add(states=r.distinct, transitions=r.generated)
        if not any(line == i + 1 and p == prop for line, p, _ in viol):
            raise MachineryError(f"negative control: corrupted {field} of event {i + 1} was not rejected as {prop} "
                                 f"(verdicts there: {[v for v in viol if v[0] == i + 1]})")
        return f"trace:{field}->{prop}@{i + 1}"

    done = run_parallel([lambda c=c: one(c) for c in cases]) if cases else []
    chk.add(controls_rejected=done)
    if not done:
        chk.note("no event suitable for a trace-corruption control in this run")


def seeds_for(chk, n_random=1):
    rnd = random.Random(chk.seed * 7919 + 13)
    out = list(FIXED_SEEDS)
    while len(out) < len(FIXED_SEEDS) + n_random:
        s = rnd.randrange(2, 2**31 - 1)
        if s not in out:
            out.append(s)
    return out


def execute_and_judge(chk, own, lives, n_fresh, tag):
    """Order the lives (plain seed-0 observations first), mark first class computations, run, validate, report."""
    def rank(x):
        it = items_of(x)
        return (0 if any(i[0] == "base" and i[2] == 0 for i in it) else 1, x["seed"], len(x["events"]))

    lives = sorted(lives, key=rank)
    seen_recipes = set()
    for x in lives:
        for e in x["events"]:
            if e["act"] == "Name":
                k = request_key(e["recipe"], x.get("conf", "none"))
                e["want_class"] = k not in seen_recipes
                seen_recipes.add(k)
    # truly fresh interpreters: the plain observations first, then a spread of the others
    order = sorted(range(len(lives)), key=lambda i: (rank(lives[i])[0], cost_of(lives[i])))
    plain = [i for i in order if rank(lives[i])[0] == 0]
    others = [i for i in order if rank(lives[i])[0] == 1]
    rnd = random.Random(chk.seed + 5)
    rnd.shuffle(others)
    fresh = set((plain[: (n_fresh * 2) // 3] + others)[:n_fresh])
    import time

    t0 = time.time()
    recorded, texts = run_lives(lives, fresh, tag)
    t1 = time.time()
    events, where = assemble(lives, recorded)
    viol, r = validate(events, tag)
    chk.add(phase_seconds={"tlc_design_and_histories": round(t0 - chk.t0, 1), "real_processes": round(t1 - t0, 1),
                           "trace_validation": round(time.time() - t1, 1)})
    chk.add(states=r.distinct, transitions=r.generated, traces_validated_against_impl=len(lives),
            fresh_interpreters=len(fresh), forked_interpreters=len(lives) - len(fresh))
    chk.note(f"{tag}: {len(lives)} process histories ({len(fresh)} in brand-new interpreters), {len(events)} events "
             f"validated by TLC in {r.wall_s:.1f}s, {len(viol)} rejected registry writes")
    report(chk, own, lives, events, where, viol, texts)
    if tag != "replay":
        trace_controls(chk, own, events)
    return lives, events, where, viol


# ---------------------------------------------------------------------------
# C12


def run_c12(chk):
    quick = chk.tier == "quick"
    seeds = seeds_for(chk, 1 if quick else 4)
    # design level ------------------------------------------------------------------------------------------
    base = consts(Sig=["s1", "s2"], Opt=["o1", "o2"], MaxEvents=5 if quick else 6)
    # vacuity (every action taken) is measured on a shallower copy: -coverage is slow
    jobs = [lambda: design_must_hold(chk, "c12-design", base),
            lambda: design_must_hold(chk, "c12-vacuity", dict(base, Opt=["o1"], MaxEvents=3), coverage=True)]
    for leak in ("seed", "counter", "cache"):
        jobs.append(lambda leak=leak: control_must_fail(chk, f"c12-leak-{leak}", dict(base, Leak=leak), "Functional"))
    # spec -> code: histories -------------------------------------------------------------------------------
    rnd = random.Random(chk.seed)
    tmpl = list(meta.QUICK if quick else meta.ALL_TEMPLATES) + ([] if quick else ["demo:" + d for d in meta.demo_names(REPO)])
    opts = ["default", "complex128", "sumfact"] if quick else \
        ["default", "complex128", "float32", "complex64", "sumfact", "epsilon", "diagonal", "table_rtol"]
    # route 9: the second mesh / constant of a template gets id 19 when the first gets 9 ("19" < "9" as strings)
    g = consts(Proc=["p1"], Seed=seeds, Sig=tmpl, Route=[0, 1], Opt=opts, Flag=[], Record=True)
    opt2 = ["default", opts[1 + chk.seed % (len(opts) - 1)]]
    sub = tmpl if quick else rnd.sample(tmpl, 24)
    # groups of templates that share every plausible memo key: all histories [X], [X, Y] over them
    gg = consts(Proc=["p1"], Seed=[0], Sig=meta.GROUP_TEMPLATES, Route=[0], Opt=["default"], Flag=[], Record=True, MaxEvents=3)
    (hg, rg), (h1, r1), (h2, r2), (h3, r3) = run_parallel(jobs + [
        lambda: enumerate_histories("c12-groups", gg),
        lambda: enumerate_histories("c12-enum2", dict(g, Route=[0, 1, 9], MaxEvents=2)),
        lambda: enumerate_histories("c12-enum3", dict(g, Seed=[0], Sig=sub, Opt=opt2, MaxEvents=3)),
        lambda: simulate_histories("c12-sim", dict(g, Proc=["p1", "p2", "p3"]), 240 if quick else 2400,
                                   36 if quick else 60, chk.seed + 11)])[-4:]
    cand = dedupe([y for h in hg + h1 + h2 for x in lives_of(h) for y in prefixes(x)] + [x for h in h3 for x in lives_of(h)])
    chk.add(transitions=rg.generated + r1.generated + r2.generated + r3.generated, states=rg.distinct + r1.distinct + r2.distinct,
            histories_enumerated=len(hg) + len(h1) + len(h2), histories_simulated=len(h3), candidate_lives=len(cand))
    def gen0(e, opt=None):
        return e["act"] == "Generate" and e["route"] == 0 and (opt is None or e["opt"] == opt)

    # the plain observation of every (template, options); and for every template one that differs from it in the
    # hash seed alone and one that differs in UFL's counters alone (so a rejected write names its cause)
    must = [x for x in cand if len(x["events"]) == 1 and gen0(x["events"][0], "default" if quick else None) and x["seed"] == 0]
    must += [x for x in cand if len(x["events"]) == 1 and gen0(x["events"][0], "default") and x["seed"] == seeds[1]]
    if not quick:
        must += [x for x in cand if len(x["events"]) == 2 and x["seed"] == 0
                 and x["events"][0] == {"act": "CreateJunk", "kind": "mesh"} and gen0(x["events"][1], "default")]
    must += [x for x in cand if len(x["events"]) == 1 and x["seed"] == 0 and x["events"][0]["act"] == "Generate"
             and x["events"][0]["route"] == 9 and x["events"][0]["opt"] == "default"]
    # the same objects generated twice in one process under a non-default option vector (shared options dict, memo
    # tables, counters: whatever the first generation leaves behind meets the second)
    tp = [t for t in tmpl if t.startswith("tp_")]
    rep = [x for x in cand if x["seed"] == 0 and len(x["events"]) == 2 and x["events"][0] == x["events"][1]
           and gen0(x["events"][0], "sumfact") and x["events"][0]["tmpl"] in tp]
    if not rep:      # (the enumerated histories may not contain it: the life is well-formed for any History.tla process)
        rep = [{"seed": 0, "conf": "none", "events": [{"act": "Generate", "tmpl": t, "route": 0, "opt": "sumfact"}] * 2} for t in tp[:1 if quick else 2]]
    cand += [x for x in rep if x not in cand]
    must += rep
    # "B after A in one process" against "B alone" for every ordered pair of a group (thorough: of all group templates)
    group_of = {t: g_ for g_, ts in meta.GROUPS.items() for t in ts}
    npairs = 0
    for x in cand:
        ev = x["events"]
        if x["seed"] == 0 and all(e["act"] == "Generate" and e["tmpl"] in group_of for e in ev):
            if len(ev) == 1 or (len(ev) == 2 and ev[0]["tmpl"] != ev[1]["tmpl"]
                                and (not quick or group_of[ev[0]["tmpl"]] == group_of[ev[1]["tmpl"]])):
                if all(gen0(e, "default") for e in ev):
                    must.append(x)
                    npairs += len(ev) == 2
    chk.add(memo_group_ordered_pairs=npairs)
    lives, seen, spent = select(cand, sum(map(cost_of, dedupe(must))) + (24 if quick else 700), must)
    chk.add(context_items_covered=len(seen))
    lives, events, where, viol = execute_and_judge(chk, "C12", lives, 16 if quick else 200, "c12")
    _evidence(chk, lives, events, "Generate")
    chk.assumptions += [
        "processes share nothing but the registries (no cache directory, no option files), so events of distinct "
        "processes commute: each process history is lived by one real interpreter, the behaviour lists them one after another",
        "'same input' is UFL's own renumbering-invariant signature (Form.signature, compute_expression_signature) plus the "
        "exact bytes of evaluation points, the option values, the namespace and the names given in a .py form file",
        "forked interpreters come from a per-seed zygote that imported ffcx/ufl/basix and created no object "
        "(UFL counters checked to be zero at Spawn); a third of the budget runs in brand-new interpreters",
        "a Generate that raises is recorded by its exception type"]


def _evidence(chk, lives, events, act):
    subs: dict = {}
    for x in lives:
        for _, sub, cx in contexts(x):
            subs.setdefault(sub, set()).add(json.dumps(cx, sort_keys=True))
    n = sum(1 for e in events if e["act"] == act)
    rejected = {("G", e["tmpl"], e["opt"]) for e in events if str(e.get("sha", "")).startswith("EXC:")}
    chk.add(evaluations=n, subjects=len(subs),
            distinct_nontrivial=sum(len(v) for k, v in subs.items() if len(v) > 1 and k not in rejected),
            errors_recorded=sum(1 for e in events if str(e.get("sha", "")).startswith("EXC:") or e.get("error")),
            rule="one case = one (template or request, options, process context) observation, context = (hash seed, "
                 "kinds of unrelated objects created before, compilations before, same subject compiled before, "
                 "construction route); counted when the same subject was observed in >= 2 distinct contexts and code generation "
                 "did not reject it (e.g. sum factorisation on a simplex)",
            samples=[_abbrev(x) for x in lives[:2] + lives[-3:]])


# ---------------------------------------------------------------------------
# C13


def c13_axes(quick):
    """The request algebra, as constants of History.tla (Req = Sig x 1..MaxObjs x Vis x Hid x Opt x Flag), one
    sub-algebra per axis of variation; every axis contains the plain request, so all of them meet in the registries."""
    forms = meta.REQ_FORMS
    some = ["mass_lit2", "two_forms", "prism"]
    return {
        "points": dict(Sig=["expr_tri", "expr_int"], Vis=meta.PTS_BASE, Hid=meta.PTS_HID, Opt=["default"],
                       Flag=["O2"], MaxObjs=1),
        # every option toggled, for every form (among them the integrands that differ in one literal)
        "options": dict(Sig=forms + ["expr_tri"], Vis=["tri6"], Hid=["none"], Opt=list(meta.OPTS), Flag=["O2"], MaxObjs=1),
        "flags": dict(Sig=["mass_lit2", "expr_tri"] if quick else ["mass_lit2", "two_forms", "expr_tri"], Vis=["tri6"],
                      Hid=["none"], Opt=["default"] if quick else ["default", "float32"], Flag=list(meta.FLAGS), MaxObjs=1),
        # the option files a process finds, for both entry points (forms and expressions)
        "conf": dict(Sig=(["mass_lit2", "two_forms", "expr_tri"] if quick else ["mass_lit2", "two_forms", "stokes", "expr_tri",
                                                                                "expr_two_mesh"]),
                     Vis=["tri6"], Hid=["none"], Opt=["default", "float32"] if quick else ["default", "float32", "epsilon"],
                     Flag=["O2"], MaxObjs=1, Conf=list(meta.CONF)[:6] if quick else list(meta.CONF)),
        # expressions that differ in one literal, requested one after the other in one process (each object is dead
        # when the next one is built: anything remembered per object identity is then remembered for the wrong object)
        "exprlit": dict(Sig=["expr_lit2", "expr_lit3", "expr_lit4", "expr_lit5"], Vis=["tri6"], Hid=["none"], Opt=["default"],
                        Flag=["O2"], MaxObjs=1),
        # objects living on two meshes: named under every seed and with several id offsets (routes)
        "twomesh": dict(Sig=meta.REQ_TWO_MESH, Vis=["tri6"], Hid=["none"], Opt=["default"], Flag=["O2"], MaxObjs=1),
        "listing": dict(Sig=(some if quick else forms) + ["expr_tri"], Vis=["tri6", "tri6_dyadic"], Hid=["none", "eps"],
                        Opt=["default"] if quick else ["default", "complex128"], Flag=["O2"] if quick else ["O2", "none"],
                        MaxObjs=2),
    }


def run_c13(chk):
    quick = chk.tier == "quick"
    seeds = seeds_for(chk, 1 if quick else 4)
    base = consts(Sig=["s1"], Route=[0] if quick else [0, 1], Opt=["o1"], Vis=["v1", "v2"],
                  Conf=["none"] if quick else ["none", "pwd"],
                  Hid=["h1", "h2"], Flag=["f1"] if quick else ["f1", "f2"], MaxObjs=2, MaxEvents=4)
    small = dict(base, Opt=["o1"], Flag=["f1"], Route=[0], Conf=["none"], MaxEvents=4)
    jobs0 = ([
        lambda: design_must_hold(chk, "c13-design", base),
        lambda: design_must_hold(chk, "c13-vacuity", dict(small, MaxEvents=3), coverage=True),
        lambda: control_must_fail(chk, "c13-lossy", dict(small, Lossy=True), "Separating"),
        lambda: control_must_fail(chk, "c13-droppos", dict(small, DropPos=True), "DistinctObjects"),
        lambda: control_must_fail(chk, "c13-leak-seed", dict(small, Leak="seed"), "Stable"),
        lambda: control_must_fail(chk, "c13-leak-counter", dict(small, Leak="counter"), "Stable"),
        lambda: control_must_fail(chk, "c13-ignoreconf", dict(small, Conf=["none", "pwd"], IgnoreConf=True), "Separating")])
    # spec -> code: the request algebra, axis by axis (exhaustive), then long random histories over each axis ---------
    ax = c13_axes(quick)
    jobs = []
    for i, (name, a) in enumerate(ax.items()):
        g = consts(Proc=["p1"], Seed=[0], Route=[0], Record=True, **a)
        if name == "twomesh":
            g = dict(g, Seed=seeds, Route=[0, 1, 9])
        jobs.append(lambda g=g, name=name: enumerate_histories(f"c13-enum-{name}", dict(g, MaxEvents=2)))
        # (one long-lived process per behaviour on the conf axis: the option files are fixed at Spawn)
        gs = dict(g, Proc=["p1"] if name == "conf" else ["p1", "p2", "p3"], Seed=seeds, Route=[0, 1])
        # (the two-mesh requests are lived alone under every seed / offset; their random histories only in thorough)
        nsim = (0 if name == "twomesh" else 48) if quick else 500
        jobs.append(lambda gs=gs, name=name, i=i, nsim=nsim: simulate_histories(
            f"c13-sim-{name}", gs, nsim, 40 if quick else 60, chk.seed + 31 + i) if nsim else ([], None))
    res = run_parallel(jobs0 + jobs)[len(jobs0):]
    enum = dedupe([x for (h, _) in res[0::2] for hh in h for x in lives_of(hh)])    # depth 2: Spawn + one event
    sim = dedupe([x for (h, _) in res[1::2] for hh in h for x in lives_of(hh)])
    single = {}
    for x in enum:
        e = x["events"][0]
        if e["act"] == "Name" and x["seed"] == 0 and e["route"] == 0:
            single[subject(e, x.get("conf", "none"))] = x
    recipes = set(single)
    must = [x for x in enum if x["events"][0]["act"] == "Name" and x["events"][0]["recipe"]["tmpl"] in meta.REQ_TWO_MESH
            and (x["seed"] == 0 or x["events"][0]["route"] == 0)]
    chk.add(transitions=sum(r.generated for _, r in res if r), states=sum(r.distinct for _, r in res[0::2]),
            requests_in_algebra=len(recipes), histories_simulated=sum(len(h) for h, _ in res[1::2]),
            candidate_lives=len(enum) + len(sim))
    lives, seen, spent = select(enum + sim, 50 if quick else 550, must)
    # every request of the algebra is made at least once (under every option-file variant of the conf axis)
    have = {sub for x in lives for _, sub, _ in contexts(x) if sub[0] == "N"}
    lives += [single[k] for k in sorted(recipes - have)]
    chk.add(context_items_covered=len(seen), requests_only_made_alone=len(recipes - have))
    lives, events, where, viol = execute_and_judge(chk, "C13", lives, 16 if quick else 150, "c13")
    _evidence(chk, lives, events, "Name")
    classes = {e["klass"] for e in events if e.get("hasclass")}
    mods = {e["modname"] for e in events if e["act"] == "Name"}
    chk.add(code_classes=len(classes), module_names=len(mods))
    chk.assumptions += [
        "a request's code class (what would be built) = sha1 of the source and cdef handed to cffi with the module name and "
        "the <kind>_<sha1> object names replaced by their order of appearance, the final compiler argument list, "
        "the libraries and the debug flag; it is computed once per request recipe (first occurrence)",
        "module and object names are the ones jit.compile_forms / compile_expressions hand to get_cached_module "
        "(intercepted); file-scope definitions are read from the source handed to cffi.set_source",
        "'the same request' = the same construction recipe (template, evaluation points, options, compiler arguments, "
        "debug flag) run in another process / after other objects / with other ids (route)",
        "processes share nothing but the registries, so events of distinct processes commute"]


# ---------------------------------------------------------------------------
# replay


def replay(chk, path, own):
    doc = json.loads(Path(path).read_text())
    lives = doc["payload"]["lives"]
    for x in lives:
        for e in x["events"]:
            e.pop("want_class", None)
    recorded_lives, events, where, viol = execute_and_judge(chk, own, lives, len(lives), "replay")
    chk.add(evaluations=sum(len(x["events"]) for x in lives), distinct_nontrivial=len(lives),
            samples=[_abbrev(x) for x in lives], rule="replay of the process histories of one recorded violation")
