"""Engine S6: text <-> tree (C16) and operator overloads (C17, overload half).

Specs: spec/CGrammar.tla, PyGrammar.tla, Format.tla (+ roots FormatMC.tla, FormatConform.tla),
       spec/LExprAlgebra.tla.

What Python does here (and nothing more):
  * asks TLC for the enumerated cases (FormatMC dumps the well-typed trees; LExprAlgebra dumps the
    operand-kind x operator cases) and realises each as REAL ffcx.codegeneration.lnodes objects;
  * runs the REAL formatters / REAL overloaded operators on them;
  * projects the real artefacts (emitted text -> maximal-munch tokens; real LNodes objects ->
    astexport JSON -> uniform [k, s, a, d] trees) and hands them to TLC;
  * reads TLC's printed verdicts.
The one comparison made in Python is the literal clause of C16 (a printed floating literal reads back
within one ulp): exact Fraction arithmetic on 53-bit significands, which TLC's 32-bit integers cannot
hold (DESIGN.md section 5).
"""

from __future__ import annotations

import json
import math
import random
import re
import subprocess
import sys
import time
from concurrent.futures import ThreadPoolExecutor
from fractions import Fraction
from pathlib import Path

from . import astexport, ctoken, pytoken, tlc
from .common import PY, MachineryError, child_env, ensure_repo_on_path, scratch

SCALAR_TYPES = ["float32", "float64", "complex64", "complex128"]
CLASSES = ["LiteralFloat", "LiteralInt", "Symbol", "MultiIndex", "Neg", "Not", "Add", "Sub", "Mul", "Div", "EQ", "NE",
           "LT", "GT", "LE", "GE", "And", "Or", "Sum", "Product", "MathFunction", "ArrayAccess", "Conditional",
           "Assign", "AssignAdd", "AssignSub", "AssignMul", "AssignDiv"]
FORMAT_MODULES = ["CGrammar", "PyGrammar", "Format", "FormatMC", "FormatConform"]

# readable names for root causes that TLC reports as a syntax error of the target grammar
KEY_ALIASES = {
    "numba:syntax:unexpected token bad '!'": "numba:Not:prints-bang",
    "C:syntax:operand of -- is not an lvalue": "C:Neg:negative-literal:prints-decrement",
    "numba:syntax:expected a name after '.'": "numba:dtype-name:prints-class-repr",
}


def lnodes():
    ensure_repo_on_path()
    import ffcx.codegeneration.lnodes as L  # noqa: PLC0415

    return L


def formatters():
    ensure_repo_on_path()
    from ffcx.codegeneration.C.formatter import Formatter as CF  # noqa: PLC0415
    from ffcx.codegeneration.numba.formatter import Formatter as NF  # noqa: PLC0415

    return {"C": CF, "Py": NF}


def prec_table(L) -> dict:
    """lnodes precedence of every expression class, as coded today."""
    return {n: int(getattr(L, n).precedence) for n in CLASSES}


# ---------------------------------------------------------------------------
# TLC output helpers

def printed_values(out: str, tag: str) -> list:
    """All values `<<"tag", ...>>` printed by TLC (PrintT may wrap a value over several lines)."""
    res = []
    start = re.compile(r'<<\s*"' + re.escape(tag) + '"')
    pos = 0
    while True:
        m = start.search(out, pos)
        if not m:
            return res
        i = m.start()
        depth, j, instr = 0, i, False
        while j < len(out):
            c = out[j]
            if instr:
                if c == "\\":
                    j += 1
                elif c == '"':
                    instr = False
            elif c == '"':
                instr = True
            elif out.startswith("<<", j):
                depth += 1
                j += 1
            elif out.startswith(">>", j):
                depth -= 1
                j += 1
                if depth == 0:
                    break
            j += 1
        res.append(tlc.parse_tla(out[i:j + 1]))
        pos = j + 1


def run_tlc(name, module, cfg, env, timeout=1500, stack="512m"):
    d = tlc.stage(name, FORMAT_MODULES + ["LExprAlgebra"])
    r = tlc.run(d, module, cfg_text=cfg, workers=1, env=env, timeout=timeout, java_opts=[f"-Xss{stack}"], heap="6g")
    tlc.must_ok(r, name)
    if not r.ok:
        raise MachineryError(f"TLC {name}: unexpected verdict {r.violated}\n" + "\n".join(r.out.splitlines()[-30:]))
    return r, d


# ---------------------------------------------------------------------------
# projection: astexport JSON -> uniform [k, s, a, d] trees (literal leaves keep their value in "_v")

def _leaf(k, s, d="", v=None):
    t = {"k": k, "s": s, "a": [], "d": d or ""}
    if v is not None:
        t["_v"] = v
    return t


def _float_leaf(x: float, d="REAL"):
    neg = math.copysign(1.0, x) < 0
    if math.isnan(x) or math.isinf(x):
        raise ValueError("non-finite literal")
    return _leaf("FloatNeg" if neg else "FloatPos", abs(x).hex(), d, abs(x))


def _int_leaf(n: int):
    return _leaf("IntNeg" if n < 0 else "IntPos", str(abs(int(n))), "INT", abs(int(n)))


def _complex_leaf(re_: float, im: float):
    pure = re_ == 0.0 and math.copysign(1.0, re_) > 0
    return {"k": "Complex", "s": "pure-imaginary" if pure else "", "a": [_float_leaf(re_), _float_leaf(im)],
            "d": "SCALAR"}


def project(e: dict) -> dict:
    """astexport dict -> [k, s, a, d] (a mechanical re-shaping; MultiIndex stands for its global_index)."""
    k = e["kind"]
    d = e.get("dtype") or ""
    if k == "LiteralFloat":
        if e["complex"]:
            return _complex_leaf(e["value"]["re"], e["value"]["im"])
        return _float_leaf(e["value"], d)
    if k == "LiteralInt":
        return _int_leaf(e["value"])
    if k == "Symbol":
        return _leaf("Symbol", e["name"], d)
    if k == "MultiIndex":           # one operand node; its meaning (and its printed form) is the flattened index a[0]
        return {"k": k, "s": "", "d": "INT", "a": [
            project(e["global_index"]),
            {"k": "symbols", "s": "", "a": [project(x) for x in e["symbols"]], "d": ""},
            {"k": "sizes", "s": "", "a": [_int_leaf(n) for n in e["sizes"]], "d": ""}]}
    if k == "ArrayAccess":
        return {"k": k, "s": e["array"], "a": [project(i) for i in e["indices"]], "d": d}
    if k == "MathFunction":
        return {"k": k, "s": e["function"], "a": [project(i) for i in e["args"]], "d": d}
    if k in ("PyInt", "PyFloat"):
        raise MachineryError(f"bare Python number inside an LNodes tree: {e}")
    if "args" in e:                      # Neg Not BinOp NaryOp Conditional Assign*
        return {"k": k, "s": "", "a": [project(i) for i in e["args"]], "d": d}
    # statements
    if k == "Statement":
        return project(e["expr"])
    if k == "StatementList":
        return {"k": k, "s": "", "a": [project(s) for s in e["statements"]], "d": ""}
    if k == "Section":
        return {"k": k, "s": "", "d": "", "a": [
            {"k": "decls", "s": "", "a": [project(s) for s in e["declarations"]], "d": ""},
            {"k": "body", "s": "", "a": [project(s) for s in e["statements"]], "d": ""}]}
    if k == "Comment":
        return _leaf("Comment", "")
    if k == "VariableDecl":
        val = _leaf("novalue", "") if e["value"] is None else project(e["value"])
        return {"k": k, "s": e["dtype"], "a": [_leaf("Symbol", e["symbol"], e["dtype"]), val], "d": ""}
    if k == "ArrayDecl":
        def vals(v):
            if isinstance(v, list):
                return {"k": "list", "s": "", "a": [vals(x) for x in v], "d": ""}
            if isinstance(v, dict):
                return _complex_leaf(v["re"], v["im"])
            return _int_leaf(v) if e["values_kind"] == "int" else _float_leaf(float(v))
        v = _leaf("novalues", "") if e["values"] is None else vals(e["values"])
        return {"k": k, "s": e["dtype"], "d": "", "a": [
            _leaf("Symbol", e["symbol"], e["dtype"]),
            {"k": "sizes", "s": "", "a": [_int_leaf(n) for n in e["sizes"]], "d": ""},
            v, _leaf("const" if e["const"] else "nonconst", "")]}
    if k == "ForRange":
        return {"k": k, "s": "", "d": "", "a": [project(e["index"]), project(e["begin"]), project(e["end"]),
                                                {"k": "body", "s": "", "a": [project(s) for s in e["body"]], "d": ""}]}
    raise MachineryError(f"cannot project exported node kind {k}")


def _count_leaves(v):
    return sum(_count_leaves(x) for x in v["a"]) if v["k"] == "list" else 1


def literals_in_print_order(t: dict, lang: str):
    """The literal leaves of a projected tree in the order their text appears (for aligning number tokens)."""
    k = t["k"]
    if k in ("FloatPos", "FloatNeg", "IntPos", "IntNeg"):
        yield t
        return
    if k == "Complex":
        if lang == "Py" and t["s"] == "pure-imaginary":
            yield t["a"][1]
        else:
            yield from t["a"]
        return
    kids = t["a"]
    if k == "MultiIndex":
        kids = kids[:1]                  # only the flattened index is printed
    if lang == "Py":
        if k == "Conditional":
            kids = [kids[1], kids[0], kids[2]]
        elif k == "ArrayDecl":
            sym, sizes, v, _c = kids
            if v["k"] == "novalues":
                kids = [sizes]
            elif _count_leaves(v) == 1:
                kids = [sizes, v]
            else:
                kids = [v]
    for c in kids:
        yield from literals_in_print_order(c, lang)


def strip(t):
    """Drop harness-only fields before handing a tree to TLC."""
    return {"k": t["k"], "s": t["s"], "a": [strip(c) for c in t["a"]], "d": t.get("d", "")}


# ---------------------------------------------------------------------------
# literal clause + token ids

def _round_to_double(q: Fraction) -> float:
    """Correctly rounded double nearest to the exact decimal value q (what strtod / Python's float() give)."""
    try:
        return q.numerator / q.denominator          # int/int true division is correctly rounded in CPython
    except OverflowError:
        return math.inf


def ulps_off(q: Fraction, x: float, st: str) -> Fraction:
    """Distance, in units in the last place of the kernel's real type, between the value the compiler reads from
    a literal whose exact decimal value is q and the tree's float x (both magnitudes).

    float64/complex128: r = double(q).  float32/complex64: the literal is an unsuffixed (double) constant that is
    converted to float where it is used, so r = float32(double(q)), compared with float32(x)."""
    r = _round_to_double(q)
    if st in ("float64", "complex128"):
        if math.isinf(r):
            return Fraction(10 ** 9)
        return abs(Fraction(r) - Fraction(x)) / Fraction(math.ulp(x))
    import numpy as np  # noqa: PLC0415

    with np.errstate(over="ignore"):
        r32, x32 = np.float32(r), np.float32(x)
    if np.isinf(r32) or np.isinf(x32):
        return Fraction(0) if np.isinf(r32) and np.isinf(x32) else Fraction(10 ** 9)
    if x32 == 0:
        u = Fraction(1, 2 ** 149)
    else:
        _m, e = math.frexp(float(x32))              # |x32| = m * 2**e, 0.5 <= m < 1: binade exponent e - 1
        u = Fraction(2) ** (max(e - 1, -126) - 23)
    return abs(Fraction(float(r32)) - Fraction(float(x32))) / u


def _token_value(lang, ty, text):
    if ty == "int":
        return Fraction(ctoken.int_value(text) if lang == "C" else int(text.replace("_", ""), 0))
    if ty == "imag":
        return Fraction(text[:-1].replace("_", ""))
    if lang == "C":
        return ctoken.float_fraction(text)
    return Fraction(text.replace("_", ""))


def tokens_for_tlc(lang: str, toks, ptree: dict, st: str):
    """Tokens as TLC records; number tokens get the id of the literal leaf printed at that place.

    Returns (tokens, literal_failures).  A float token is given the leaf's id iff their exact values are
    within one ulp (kernel real type); beyond that the literal clause is violated: the failure is returned,
    and the structure is still judged with the leaf's id (structure and literal value are separate clauses).
    Integer tokens are named by their exact value.  If the number of number tokens differs from the number
    of literal leaves nothing is aligned (ids "~text"), which TLC rejects.
    """
    leaves = list(literals_in_print_order(ptree, lang))
    nums = [i for i, (ty, _) in enumerate(toks) if ty in ("int", "flt", "imag")]
    out = [{"t": ty, "v": tx} for ty, tx in toks]
    fails = []
    aligned = len(leaves) == len(nums)
    for n, i in enumerate(nums):
        ty, tx = toks[i]
        try:
            q = _token_value(lang, ty, tx)
        except (ValueError, ZeroDivisionError):
            out[i]["v"] = "~" + tx
            continue
        if not aligned:
            # counts differ (TLC will reject the case): name tokens by value so that TLC's first difference
            # points at the structural cause rather than at the first literal
            if ty == "int":
                out[i]["v"] = str(int(q))
            else:
                m = [lf for lf in leaves if lf["k"] in ("FloatPos", "FloatNeg") and ulps_off(q, lf["_v"], st) <= 1]
                out[i]["v"] = m[0]["s"] if m else "~" + tx
            continue
        leaf = leaves[n]
        if leaf["k"] in ("IntPos", "IntNeg"):
            out[i]["v"] = str(int(q)) if (ty == "int" or q.denominator == 1) else "~" + tx
            continue
        x = leaf["_v"]
        off = ulps_off(q, x, st)
        if off > 1:
            fails.append({"value": x.hex(), "value_repr": repr(x), "text": tx, "ulps_off": float(off)})
        out[i]["v"] = leaf["s"]
    return out, fails


# ---------------------------------------------------------------------------
# realising TLC-enumerated trees as real LNodes objects

def build(t: dict, L):
    k, s, a = t["k"], t["s"], t["a"]
    DT = L.DataType
    if k == "Symbol":
        return L.Symbol(s, DT[t["d"]])
    if k == "FloatPos":
        return L.LiteralFloat(float(s))
    if k == "FloatNeg":
        return L.LiteralFloat(-float(s))
    if k == "IntPos":
        return L.LiteralInt(int(s))
    if k == "IntNeg":
        return L.LiteralInt(-int(s))
    if k == "Complex":
        re_, im = build(a[0], L).value, build(a[1], L).value
        return L.LiteralFloat(complex(re_, im))
    if k == "MultiIndex":           # a = <<reference flattened index, symbols, sizes>>
        syms = [build(x, L) for x in a[1]["a"]]
        return L.MultiIndex(syms, [int(x["s"]) for x in a[2]["a"]])
    kids = [build(x, L) for x in a]
    if k in ("Neg", "Not"):
        return getattr(L, k)(kids[0])
    if k in ("Add", "Sub", "Mul", "Div", "EQ", "NE", "LT", "GT", "LE", "GE", "And", "Or"):
        return getattr(L, k)(kids[0], kids[1])
    if k in ("Sum", "Product"):
        return getattr(L, k)(kids)
    if k == "MathFunction":
        return L.MathFunction(s, kids)
    if k == "ArrayAccess":
        return L.ArrayAccess(L.Symbol(s, DT[t["d"] or "REAL"]), kids)
    if k == "Conditional":
        return L.Conditional(*kids)
    raise MachineryError(f"cannot realise tree kind {k}")


def complex_only_function(t):
    """real/imag/conj nodes exist only in complex kernels (UFL strips them in real mode)."""
    return (t["k"] == "MathFunction" and t["s"] in ("real", "imag", "conj")) or any(complex_only_function(c) for c in t["a"])


def has_kind(t, kind):
    return t["k"] == kind or any(has_kind(c, kind) for c in t["a"])


def show(t) -> str:
    if t["k"] in ("FloatPos", "IntPos"):
        return t["s"]
    if t["k"] in ("FloatNeg", "IntNeg"):
        return "-" + t["s"]
    if t["k"] == "Symbol":
        return t["s"]
    if t["k"] == "MultiIndex":
        return "MultiIndex([" + ", ".join(show(c) for c in t["a"][1]["a"]) + "], [" + ", ".join(show(c) for c in t["a"][2]["a"]) + "])"
    nm = t["k"] + (":" + t["s"] if t["s"] else "")
    return nm + "(" + ", ".join(show(c) for c in t["a"]) + ")"


def same_shape(enumerated, projected) -> bool:
    """Did build() realise the enumerated tree?  (literal ids differ: TLC's are decimal, real ones are hex)"""
    if enumerated["k"] != projected["k"] or len(enumerated["a"]) != len(projected["a"]):
        return False
    if enumerated["k"] == "MultiIndex":      # same symbols and sizes; the flattened index is lnodes' own (judged by C17)
        return all(same_shape(x, y) for x, y in zip(enumerated["a"][1:], projected["a"][1:]))
    if enumerated["k"] in ("IntPos", "IntNeg"):
        return int(enumerated["s"]) == projected["_v"]
    if enumerated["k"] in ("FloatPos", "FloatNeg"):
        return float(enumerated["s"]) == projected["_v"]
    if enumerated["k"] == "Complex":
        return all(same_shape(x, y) for x, y in zip(enumerated["a"], projected["a"]))
    if enumerated["s"] != projected["s"]:
        return False
    return all(same_shape(x, y) for x, y in zip(enumerated["a"], projected["a"]))


# ---------------------------------------------------------------------------
# cases


class CaseSet:
    """Cases for FormatConform.tla plus the bookkeeping needed to report TLC's verdicts."""

    def __init__(self):
        self.cases = []          # dicts for TLC
        self.info = {}           # id -> {text, what, lang, st}
        self.lit_fail = []       # (lang, st, failure dict, case id)
        self.raised = []         # (lang, st, what, exception)
        self.rejected = set()    # ids TLC rejected

    def add(self, lang, st, mode, node, what, fmts):
        """Format the real `node` with the real formatter of (lang, st); record the case."""
        try:
            text = fmts[lang](st)(node)
        except Exception as ex:  # noqa: BLE001  - the real formatter refusing a tree is a finding, not a crash
            self.raised.append((lang, st, what, f"{type(ex).__name__}: {ex}"))
            return None
        exp = astexport.export(node)
        p = project(exp)
        toks = ctoken.tokenize(text) if lang == "C" else pytoken.tokenize(text)
        if lang == "Py" and mode == "expr" and toks and toks[-1][0] == "nl":
            toks = toks[:-1]
        tk, fails = tokens_for_tlc(lang, toks, p, st)
        cid = f"c{len(self.cases)}"
        self.cases.append({"id": cid, "lang": lang, "st": st, "mode": mode, "toks": tk, "tree": strip(p)})
        self.info[cid] = {"text": text if len(text) < 2000 else text[:2000] + "...", "what": what, "lang": lang, "st": st,
                          "ntok": len(tk)}
        for f in fails:
            self.lit_fail.append((lang, st, f, cid))
        return p


def backend_name(lang):
    return "C" if lang == "C" else "numba"


_OPNAME = {"+": "add", "-": "sub", "*": "mul", "/": "div", "<": "lt", "<=": "le", ">": "gt", ">=": "ge", "==": "eq", "!=": "ne",
           "&&": "land", "||": "lor", "!": "lnot", "=": "assign", "+=": "assign-add", "**": "pow", "%": "mod", "//": "floordiv"}


def _nm(s):
    s = str(s)
    return " ".join(_OPNAME.get(w, w) for w in s.split(" ")) if s else ""


def reason_key(lang, diff) -> str:
    b = backend_name(lang)
    if diff and diff[0] == "syntax":
        key = f"{b}:syntax:{diff[1]}"
    elif not diff:
        key = f"{b}:tree:unspecified-difference"
    else:
        _path, pk, ps, pl, ck, cs, cl = diff
        if ck.startswith("call?") or ck == "pycall?":
            key = f"{b}:MathFunction:{cs}:printed-as:{pk}:{ps}" + (f":args{pl}!={cl}" if pl != cl and pk == "call" else "")
        elif ck in ("flt", "int", "num", "imag"):
            key = f"{b}:literal:expected-{ck}:got-{pk}" + (":unaligned" if str(ps).startswith("~") else "")
        else:
            key = f"{b}:tree:expected-{ck}[{_nm(cs)}]x{cl}:got-{pk}[{_nm(ps)}]x{pl}"
    return KEY_ALIASES.get(key, key)


def _mi_operand(t, parent=None, site=""):
    """(parent kind, enclosing array/assigned symbol) of the first MultiIndex that is an operand rather than a whole subscript."""
    if t["k"] == "MultiIndex":
        return (parent, site) if parent not in (None, "ArrayAccess") else None
    if t["k"] in ("ArrayAccess",):
        site = t["s"]
    elif t["k"] in ("VariableDecl", "ArrayDecl") and t["a"]:
        site = t["a"][0]["s"]
    for c in t["a"]:
        r = _mi_operand(c, t["k"], site)
        if r:
            return r
    return None


def judge(chk, cs: CaseSet, name: str, chunk_tokens=400_000, parallel=3):
    """Run FormatConform over the cases (chunked), report TLC's verdicts; returns number of rejected cases."""
    if not cs.cases:
        return 0
    # identical (language, tokens, tree) under a meaning that does not depend on the scalar type are judged once
    uniq: dict[str, dict] = {}
    same: dict[str, list] = {}
    for c in cs.cases:
        dep = c["mode"] == "stmts" or '"MathFunction"' in json.dumps(c["tree"])
        key = json.dumps([c["lang"], c["mode"], c["st"] if dep else "", c["toks"], c["tree"]], sort_keys=True)
        if key not in uniq:
            uniq[key] = c
        same.setdefault(uniq[key]["id"], []).append(c["id"])
    chunks, cur, n = [], [], 0
    for c in uniq.values():
        cur.append(c)
        n += len(c["toks"]) + 50
        if n >= chunk_tokens:
            chunks.append(cur)
            cur, n = [], 0
    if cur:
        chunks.append(cur)
    sdir = scratch("s6")

    def one(ix_chunk):
        ix, chunk = ix_chunk
        f = sdir / f"{name}-cases-{ix}.json"
        f.write_text(json.dumps(chunk))
        r, _ = run_tlc(f"{name}-{ix}", "FormatConform", "SPECIFICATION JSpec\nINVARIANT Judge\n",
                       {"S6_CASES": str(f), "S6_PREC": str(sdir / "prec.json")})
        if r.distinct != len(chunk):
            raise MachineryError(f"TLC judged {r.distinct} of {len(chunk)} cases ({name}-{ix})")
        return r

    with ThreadPoolExecutor(max_workers=parallel) as ex:
        results = list(ex.map(one, enumerate(chunks)))
    rejected = 0
    groups: dict[str, list] = {}
    by_id0 = {c["id"]: c for c in cs.cases}
    for r in results:
        chk.add(states=r.distinct, transitions=r.generated)
        for v in printed_values(r.out, "VIOL"):
            _tag, rid, diff = v
            for cid in same[rid]:
                rejected += 1
                cs.rejected.add(cid)
                key = reason_key(cs.info[cid]["lang"], diff)
                mo = _mi_operand(by_id0[cid]["tree"]) if ":tree:" in key else None
                if mo:      # label only: a structural mismatch of a tree that has a MultiIndex as an arithmetic operand
                    key = f"{backend_name(cs.info[cid]['lang'])}:MultiIndex:operand-of:{mo[0]}" + ("" if name == "enum" else f":in:{mo[1]}")
                groups.setdefault(key, []).append((cid, diff))
    by_id = {c["id"]: c for c in cs.cases}
    for key, hits in sorted(groups.items()):
        cid, diff = min(hits, key=lambda h: cs.info[h[0]]["ntok"])
        info = cs.info[cid]
        chk.violation(key, f"{backend_name(info['lang'])} formatter ({info['st']}): emitted text does not parse back to the tree: "
                           f"{info['what']} -> {info['text'][:200]!r}; TLC: {diff} ({len(hits)} cases)",
                      {"engine": "S6", "kind": "conform", "first_case": by_id[cid], "text": info["text"], "what": info["what"],
                       "diff": diff, "cases_rejected": len(hits),
                       "other_examples": [cs.info[h[0]]["what"] for h in hits[1:6]]})
    chk.add(traces_validated_against_impl=len(cs.cases))
    total_wall = sum(r.wall_s for r in results)
    chk.note(f"TLC FormatConform[{name}]: {len(cs.cases)} cases ({len(uniq)} distinct judged) in {len(chunks)} run(s), {rejected} rejected, "
             f"{len(groups)} distinct root causes, TLC wall {total_wall:.1f}s")
    return rejected


def report_literals_and_raises(chk, cs: CaseSet):
    groups: dict[str, list] = {}
    for lang, st, f, cid in cs.lit_fail:
        groups.setdefault(f"{backend_name(lang)}:literal:{st}:more-than-1ulp", []).append((f, cid))
    for key, hits in sorted(groups.items()):
        worst = sorted(hits, key=lambda h: -h[0]["ulps_off"])[:10]
        f, cid = worst[0]
        chk.violation(key, f"printed floating literal reads back more than one ulp away: {f['value_repr']} printed as "
                           f"{f['text']!r} ({f['ulps_off']:.3g} ulp); {len(hits)} literals affected",
                      {"engine": "S6", "kind": "literal", "examples": [h[0] for h in worst],
                       "first_case": cs.info[cid], "count": len(hits)})
    rg: dict[str, list] = {}
    for lang, st, what, ex in cs.raised:
        rg.setdefault(f"{backend_name(lang)}:raises:{ex.split(':')[0]}:{what.split('(')[0].split(' ')[0]}", []).append((st, what, ex))
    for key, hits in sorted(rg.items()):
        st, what, ex = hits[0]
        chk.violation(key, f"real formatter raised on a well-typed tree ({st}): {what}: {ex} ({len(hits)} cases)",
                      {"engine": "S6", "kind": "raises", "examples": hits[:10]})


# ---------------------------------------------------------------------------
# (0) design-level check + tree enumeration by TLC

def design_check(chk, depth: int):
    L = lnodes()
    sdir = scratch("s6")
    prec = prec_table(L)
    (sdir / "prec.json").write_text(json.dumps(prec))
    out = sdir / f"trees-d{depth}.json"
    r, _ = run_tlc(f"design-d{depth}", "FormatMC", "SPECIFICATION DSpec\nINVARIANT DesignOK\n",
                   {"S6_PREC": str(sdir / "prec.json"), "S6_TREES_OUT": str(out), "S6_DEPTH": str(depth)})
    trees = json.loads(out.read_text())
    chk.add(states=r.distinct, transitions=r.generated)
    bad = printed_values(r.out, "DESIGN")
    causes: dict[str, int] = {}
    for _t, lang, _i, k, s in bad:
        causes[f"{lang}:{k}:{s}"] = causes.get(f"{lang}:{k}:{s}", 0) + 1
    chk.note(f"TLC FormatMC depth<={depth}: {r.distinct} well-typed trees, design rule 'parenthesise iff child.prec >= parent.prec' "
             f"with lnodes.PRECEDENCE as coded: {len(bad)} design-level counterexamples {causes if causes else ''} ({r.wall_s:.1f}s)")
    chk.add(design_trees=r.distinct, design_counterexamples=len(bad), design_causes=[f"{k} x{v}" for k, v in sorted(causes.items())])
    return trees, bad


# ---------------------------------------------------------------------------
# (i) enumerated trees on the real formatters

SPECIAL_FLOATS = [
    0.0, -0.0, 1.0, -1.0, 0.1, 1 / 3, 2 / 3, 0.5, 2.5, 1.0000000000000002, 1.0000000000000004, 0.9999999999999999,
    0.9999999999999998, 2.0000000000000004, 1.9999999999999998, 4.000000000000001, 3.9999999999999996, 0.30000000000000004,
    1024.0000000000002, 1023.9999999999999, 0.12500000000000003, 0.12499999999999999, 1e16, 9007199254740993.0, 1e22, 1e23,
    123456789.0, 1e-5, 1.5e-7, 5e-324, 2.2250738585072014e-308, 2.225073858507201e-308, 1.7976931348623157e308, 1e300,
    1e-300, 6.02214076e23, 3.141592653589793, 2.718281828459045, 0.054975871827661, 0.19283351126204784, 1.4142135623730951,
    16777217.0, 0.10000000149011612, 1.1754943508222875e-38, 3.4028234663852886e38, 1e-45, 65504.0, 4.35, 0.7, 5e-5,
]


def special_floats(rng: random.Random, n_random: int):
    vals = list(SPECIAL_FLOATS)
    for _ in range(n_random):
        m = rng.random() + 1.0
        vals.append(math.ldexp(m, rng.randint(-60, 60)))
        p = math.ldexp(1.0, rng.randint(-40, 40))
        vals.append(math.nextafter(p, math.inf) if rng.random() < 0.5 else math.nextafter(p, 0.0))
        vals.append(math.nextafter(math.nextafter(p, math.inf), math.inf))
    return vals


def run_enumerated(chk, trees, quick: bool):
    L = lnodes()
    fm = formatters()
    cs = CaseSet()
    skipped_complex = 0
    nontrivial = set()
    for t in trees:
        cplx = has_kind(t, "Complex") or complex_only_function(t)
        for st in SCALAR_TYPES:
            if cplx and not st.startswith("complex"):
                skipped_complex += 1
                continue
            node = build(t, L)
            for lang in ("C", "Py"):
                p = cs.add(lang, st, "expr", node, show(t), fm)
                if p is not None and not same_shape(t, p):
                    raise MachineryError(f"harness did not realise the enumerated tree {show(t)}")
        if t["a"]:
            nontrivial.add(show(t))
    chk.add(enumerated_trees=len(trees), skipped_complex_literal_in_real_kernel=skipped_complex)
    # literal clause: single literals, literals in expressions and in initialiser lists
    rng = random.Random(chk.seed)
    vals = special_floats(rng, 40 if quick else 400)
    x = L.Symbol("x", L.DataType.REAL)
    import numpy as np  # noqa: PLC0415

    for st in SCALAR_TYPES:
        for lang in ("C", "Py"):
            for v in vals:
                cs.add(lang, st, "expr", L.LiteralFloat(v), f"LiteralFloat({v!r})", fm)
                cs.add(lang, st, "expr", L.Sub(x, L.LiteralFloat(-v)), f"Sub(x, LiteralFloat({-v!r}))", fm)
            tab = L.Symbol("tab", L.DataType.REAL)
            arr = np.array(vals[: 2 * (len(vals) // 2)]).reshape(2, -1)
            cs.add(lang, st, "stmts", L.ArrayDecl(tab, sizes=arr.shape, values=arr, const=True), "ArrayDecl(special floats)", fm)
            cs.add(lang, st, "stmts", L.VariableDecl(L.Symbol("v", L.DataType.REAL), L.LiteralFloat(vals[14])), "VariableDecl", fm)
            # every assignment operator lnodes defines, as a statement followed by another statement (the terminator
            # of the first is what separates them) and as the body of a loop
            sv, sw, sy = (L.Symbol(n_, L.DataType.SCALAR) for n_ in ("v", "w", "y"))
            ii = L.Symbol("i", L.DataType.INT)
            # loop bounds that are expressions of low precedence (a selection, a sum)
            nn = L.Symbol("n", L.DataType.INT)
            for nm, bound in (("Conditional", L.Conditional(L.GT(nn, 2), 3, 4)), ("Add", L.Add(nn, 2))):
                lp = L.ForRange(ii if False else L.Symbol("i", L.DataType.INT), 0, bound,
                                body=[L.Statement(L.AssignAdd(L.Symbol("w", L.DataType.SCALAR), x))])
                cs.add(lang, st, "stmts", lp, f"ForRange[end={nm}]", fm)
            for cls in (L.Assign, L.AssignAdd, L.AssignSub, L.AssignMul, L.AssignDiv):
                two = L.StatementList([L.Statement(cls(sv, L.Add(x, sy))), L.Statement(L.Assign(sw, sy))])
                cs.add(lang, st, "stmts", two, f"{cls.__name__};Assign", fm)
                loop = L.ForRange(ii, 0, 3, body=[L.Statement(cls(L.ArrayAccess(L.Symbol("A", L.DataType.SCALAR), [ii]), L.Mul(x, sy))),
                                                  L.Statement(L.AssignAdd(sw, x))])
                cs.add(lang, st, "stmts", loop, f"ForRange[{cls.__name__};AssignAdd]", fm)
            if st.startswith("complex"):
                for v in vals[:24]:
                    for z in (complex(v, -v), complex(0.0, v), complex(-v, 0.5), complex(-0.0, v)):
                        cs.add(lang, st, "expr", L.LiteralFloat(z), f"LiteralFloat({z!r})", fm)
                        cs.add(lang, st, "expr", L.Mul(x, L.LiteralFloat(z)), f"Mul(x, LiteralFloat({z!r}))", fm)
    chk.add(literal_values=len(vals), distinct_nontrivial=len(nontrivial))
    chk.add(rule="TLC (FormatMC) enumerates the well-typed LNodes trees: every operator shape x operand position x leaf, every "
                 "(parent, position, child) triple [depth 3: every parent/child/grandchild chain], all leaf pairs under the binary "
                 "arithmetic/comparison nodes, n-ary arity 1-3, conditional nesting, every math function, a MultiIndex (1-3 symbols/literal "
                 "indices) as a direct operand of every operator shape in every position and inside subscripts; each is built as a real "
                 "lnodes object, formatted by the real C formatter (4 scalar types) and numba formatter, tokenised, and TLC "
                 "(FormatConform) parses the tokens and compares with the exported tree. Non-trivial = has at least one operator.")
    chk.add(samples=[{"tree": cs.info[c["id"]]["what"], "lang": c["lang"], "st": c["st"], "text": cs.info[c["id"]]["text"]}
                     for c in rng.sample(cs.cases, min(6, len(cs.cases)))])
    judge(chk, cs, "enum")
    report_literals_and_raises(chk, cs)
    return cs


# ---------------------------------------------------------------------------
# (ii) corpus: every statement of every kernel AST produced by the real pipeline
#      (generated in child processes: `python -m harness.s6 --gen jobs.json out.json`)

CORPUS = r'''
import basix.ufl, ufl
from ufl import *
def _mesh(cell, deg=1):
    gd = {"interval": 1, "triangle": 2, "quadrilateral": 2, "tetrahedron": 3, "hexahedron": 3}[cell]
    return Mesh(basix.ufl.element("Lagrange", cell, deg, shape=(gd,)))
def _space(cell, fam="Lagrange", deg=1, shape=None, **kw):
    m = _mesh(cell)
    e = basix.ufl.element(fam, cell, deg, shape=shape, **kw) if shape else basix.ufl.element(fam, cell, deg, **kw)
    return m, FunctionSpace(m, e)
def mass_p1_interval():
    m, V = _space("interval"); u, v = TrialFunction(V), TestFunction(V); return [inner(u, v) * dx]
def poisson_p2_triangle():
    m, V = _space("triangle", deg=2); u, v = TrialFunction(V), TestFunction(V); f = Coefficient(V)
    return [inner(grad(u), grad(v)) * dx, inner(f, v) * dx + inner(1.0, v) * ds]
def vector_tet():
    m, V = _space("tetrahedron", deg=1, shape=(3,)); u, v = TrialFunction(V), TestFunction(V)
    c = Constant(m, shape=(3,)); return [inner(sym(grad(u)), sym(grad(v))) * dx + div(u) * inner(c, v) * dx]
def conditional_form():
    m, V = _space("triangle", deg=1); u, v = TrialFunction(V), TestFunction(V); f = Coefficient(V); g = Coefficient(V)
    c1 = conditional(And(lt(f, 0.5), Not(ge(g, -2.5))), f, -1.5)
    c2 = conditional(Or(eq(f, g), ne(f, 2.0)), conditional(le(g, f), 1.0, g), f * g)
    c3 = conditional(gt(f, g), max_value(f, g), min_value(f, -g))
    return [(c1 + c2 * c3) * inner(u, v) * dx]
def math_form():
    m, V = _space("triangle", deg=1); v = TestFunction(V); f = Coefficient(V); g = Coefficient(V)
    e = sin(f) + cos(f) * tan(g) - exp(-f) / (2 + ln(abs(g) + 1.5)) + sqrt(f * f + 0.25) ** 3 + atan2(f, g) - erf(f) * tanh(g)
    e2 = acos(f / 4) + asin(g / 4) - atan(f) + cosh(f) - sinh(g) + abs(f) ** 2.5 + bessel_J(1, f) - bessel_Y(2, g + 3)
    return [inner(e + e2, v) * dx, inner(f ** 2 - g ** -2 - (-f) * (-(g - f)), v) * dx(degree=1)]
def math_complex():
    m, V = _space("triangle", deg=1); v = TestFunction(V); f = Coefficient(V); g = Coefficient(V)
    e = sin(f) + cos(f) * tan(g) - exp(-f) / (2 + ln(g + 1.5)) + sqrt(f * f + 0.25) ** 3 + abs(f) * tanh(g) - cosh(f) / sinh(g + 2)
    return [inner(e + conj(f) * real(g) - imag(f) * f ** 2, v) * dx]
def dg_facets():
    m, V = _space("triangle", "Discontinuous Lagrange", 1); u, v = TrialFunction(V), TestFunction(V)
    n = FacetNormal(m); h = CellDiameter(m)
    return [inner(jump(u, n), jump(v, n)) / avg(h) * dS + inner(avg(grad(u)), jump(v, n)) * dS + inner(u, v) * inner(n, n) * ds]
def stokes_th():
    m = _mesh("triangle")
    P2 = basix.ufl.element("Lagrange", "triangle", 2, shape=(2,)); P1 = basix.ufl.element("Lagrange", "triangle", 1)
    W = FunctionSpace(m, basix.ufl.mixed_element([P2, P1])); (u, p), (v, q) = TrialFunctions(W), TestFunctions(W)
    return [(inner(grad(u), grad(v)) - inner(p, div(v)) + inner(div(u), q)) * dx]
def quad_mass_gll():
    m, V = _space("quadrilateral", deg=2); u, v = TrialFunction(V), TestFunction(V); x = SpatialCoordinate(m)
    return [(1 + x[0] * x[1]) * inner(u, v) * dx, inner(u, v) * dx(metadata={"quadrature_rule": "GLL", "quadrature_degree": 2})]
def tp_sumfact():
    import basix
    def tp(cell, deg, shape=None):
        e = basix.ufl.wrap_element(basix.create_tp_element(basix.ElementFamily.P, cell, deg, basix.LagrangeVariant.gll_warped))
        return basix.ufl.blocked_element(e, shape=shape) if shape else e
    m = Mesh(tp(basix.CellType.quadrilateral, 1, (2,))); V = FunctionSpace(m, tp(basix.CellType.quadrilateral, 2))
    u, v = TrialFunction(V), TestFunction(V); return [inner(grad(u), grad(v)) * dx]
def hex_nonlinear():
    m, V = _space("hexahedron", deg=1); v = TestFunction(V); f = Coefficient(V)
    return [(1 + f ** 2) * inner(grad(f), grad(v)) * dx - inner(f, v) * dx]
def hcurl_mass():
    m, V = _space("triangle", "N1curl", 1); u, v = TrialFunction(V), TestFunction(V); return [inner(u, v) * dx + inner(curl(u), curl(v)) * dx]
def complex_sesq():
    m, V = _space("triangle", deg=1); u, v = TrialFunction(V), TestFunction(V); f = Coefficient(V)
    return [(1.5 - 2.5j) * inner(u, v) * dx + 1j * imag(f) * conj(f) * inner(grad(u), grad(v)) * dx, real(f) * inner(f, v) * dx - 0.5j * inner(1.0, v) * ds]
def vertex_and_custom():
    import numpy as np
    m, V = _space("triangle", deg=1); u, v = TrialFunction(V), TestFunction(V)
    pts = np.array([[0.25, 0.25], [0.5, 0.25], [0.25, 0.5]]); w = np.array([1 / 6, 1 / 6, 1 / 6])
    return [inner(u, v) * dP, inner(u, v) * dx(metadata={"quadrature_rule": "custom", "quadrature_points": pts, "quadrature_weights": w})]
def expression_interp():
    import numpy as np
    m, V = _space("triangle", deg=2); f = Coefficient(V)
    return [(grad(f) * sin(f), np.array([[0.0, 0.0], [1.0, 0.0], [0.0, 1.0], [0.25, 0.25]]))]
def _tp(cell, deg, shape=None):
    import basix
    ct = {"quadrilateral": basix.CellType.quadrilateral, "hexahedron": basix.CellType.hexahedron}[cell]
    e = basix.ufl.wrap_element(basix.create_tp_element(basix.ElementFamily.P, ct, deg, basix.LagrangeVariant.gll_warped))
    return basix.ufl.blocked_element(e, shape=shape) if shape else e
def _sf(cell, deg, blocked):
    """Forms for sum-factorised kernels: tensor-product elements, scalar / blocked coefficient."""
    gd = 2 if cell == "quadrilateral" else 3
    m = Mesh(_tp(cell, 1, (gd,))); V = FunctionSpace(m, _tp(cell, deg)); W = FunctionSpace(m, _tp(cell, deg, (gd,)))
    f = Coefficient(V); g = Coefficient(W)
    if blocked:
        u, v = TrialFunction(W), TestFunction(W)
        return [inner(g, g) * inner(u, v) * dx + f * inner(grad(u), grad(v)) * dx, inner(g, v) * dx + f * inner(g, v) * dx]
    u, v = TrialFunction(V), TestFunction(V)
    return [f * inner(u, v) * dx + inner(grad(u), grad(v)) * dx, inner(f, v) * dx, f * f * dx]
def _mk_sf(cell, deg, blocked):
    def fn():
        return _sf(cell, deg, blocked)
    fn.__name__ = f"sf_{cell}_{deg}_{'blocked' if blocked else 'scalar'}"
    return fn
SF = [_mk_sf(c, d, b) for c in ("quadrilateral", "hexahedron") for d in (1, 2) for b in (False, True)]
def multi_rule():
    m, V = _space("triangle", deg=2); u, v = TrialFunction(V), TestFunction(V); f = Coefficient(V)
    return [inner(u, v) * dx(degree=1) + f * inner(grad(u), grad(v)) * dx(degree=3) + inner(u, v) * dx(scheme="vertex", degree=1)
            + f * inner(u, v) * ds(degree=1) + inner(u, v) * ds(degree=4)]
def dg0_real_tables():
    m = _mesh("triangle"); V = FunctionSpace(m, basix.ufl.element("Lagrange", "triangle", 1))
    D = FunctionSpace(m, basix.ufl.element("Discontinuous Lagrange", "triangle", 0)); Q = FunctionSpace(m, basix.ufl.quadrature_element("triangle", degree=2))
    u, v = TrialFunction(V), TestFunction(V); k = Coefficient(D); q = Coefficient(Q); c = Constant(m); t = Constant(m, shape=(2, 2))
    return [k * q * inner(u, v) * dx(degree=2) + c * inner(dot(t, grad(u)), grad(v)) * dx, k * inner(c, v) * dx]
def facet_coeff_dS():
    m, V = _space("triangle", "Discontinuous Lagrange", 2); u, v = TrialFunction(V), TestFunction(V); f = Coefficient(V)
    n = FacetNormal(m)
    return [avg(f) * inner(jump(u), jump(v)) * dS + f("+") * inner(dot(grad(u)("-"), n("+")), v("+")) * dS,
            inner(f, v) * ds + avg(f) * inner(f("-"), v("+")) * dS]
def geometry_quantities():
    m, V = _space("tetrahedron", deg=1); v = TestFunction(V); x = SpatialCoordinate(m); n = FacetNormal(m)
    return [inner(CellVolume(m) + Circumradius(m) + x[0] * x[2], v) * dx,
            inner(FacetArea(m) * MinFacetEdgeLength(m) + MaxFacetEdgeLength(m) * n[1] + CellDiameter(m), v) * ds]
def manifold_mass():
    m = Mesh(basix.ufl.element("Lagrange", "triangle", 1, shape=(3,))); V = FunctionSpace(m, basix.ufl.element("Lagrange", "triangle", 1))
    u, v = TrialFunction(V), TestFunction(V); return [inner(grad(u), grad(v)) * dx + inner(u, v) * ds]
def quad_nonaffine_piola():
    m, V = _space("quadrilateral", "RTCF", 1); u, v = TrialFunction(V), TestFunction(V)
    return [inner(u, v) * dx + div(u) * div(v) * dx]
def expr_facet_points():
    import numpy as np
    m, V = _space("triangle", deg=2); f = Coefficient(V); x = SpatialCoordinate(m); W = FunctionSpace(m, basix.ufl.element("Lagrange", "triangle", 1, shape=(2,)))
    g = Coefficient(W)
    return [(f * grad(f) + x, np.array([[0.0], [0.5], [1.0]])), (dot(g, g) * g + grad(f), np.array([[0.25], [0.75]])),
            (f * TrialFunction(V), np.array([[0.0, 0.0], [0.5, 0.5]]))]
FORMS = {f.__name__: f for f in SF + [multi_rule, dg0_real_tables, facet_coeff_dS, geometry_quantities, manifold_mass,
                                      quad_nonaffine_piola, expr_facet_points]}
FORMS.update({f.__name__: f for f in [mass_p1_interval, poisson_p2_triangle, vector_tet, conditional_form, math_form, math_complex, dg_facets,
                                 stokes_th, quad_mass_gll, tp_sumfact, hex_nonlinear, hcurl_mass, complex_sesq, vertex_and_custom,
                                 expression_interp]})
'''
COMPLEX_ONLY = {"complex_sesq", "math_complex"}
REAL_ONLY = {"math_form", "conditional_form"}
QUICK_FORMS = ["mass_p1_interval", "poisson_p2_triangle", "vector_tet", "conditional_form", "math_form", "math_complex", "dg_facets",
               "stokes_th", "quad_mass_gll", "hex_nonlinear", "hcurl_mass", "complex_sesq", "vertex_and_custom",
               "expression_interp"]


def _kernel_asts(objs, st, extra_opts=None):
    """(name, root LNode) for every kernel the real pipeline generates for the UFL objects."""
    import ffcx.options  # noqa: PLC0415
    from ffcx.analysis import analyze_ufl_objects  # noqa: PLC0415
    from ffcx.codegeneration.backend import FFCXBackend  # noqa: PLC0415
    from ffcx.codegeneration.expression_generator import ExpressionGenerator  # noqa: PLC0415
    from ffcx.codegeneration.integral_generator import IntegralGenerator  # noqa: PLC0415
    from ffcx.ir.representation import compute_ir  # noqa: PLC0415

    opts = ffcx.options.get_options({"scalar_type": st, **(extra_opts or {})})
    an = analyze_ufl_objects(objs, opts["scalar_type"])
    ir = compute_ir(an, {}, "s6", opts, False)
    out = []
    for iir in ir.integrals:
        for dom in sorted(set(i[0] for i in iir.expression.integrand.keys()), key=lambda c: c.name):
            parts = IntegralGenerator(iir, FFCXBackend(iir, opts)).generate(dom)
            out.append((f"{iir.expression.name}_{dom.name}", parts))
    for eir in ir.expressions:
        out.append((eir.expression.name, ExpressionGenerator(eir, FFCXBackend(eir, opts)).generate()))
    return out


def _top_parts(root, L):
    """The top-level statements of a kernel (nested StatementLists spliced)."""
    if isinstance(root, L.StatementList):
        out = []
        for s in root.statements:
            out.extend(_top_parts(s, L))
        return out
    return [root]


def _nested_simple(p, L):
    """Simple statements (declarations, assignments) strictly inside a composite statement."""
    out = []

    def walk(n, top):
        if isinstance(n, L.StatementList):
            for c in n.statements:
                walk(c, False)
        elif isinstance(n, L.Section):
            for c in list(n.declarations) + list(n.statements):
                walk(c, False)
        elif isinstance(n, L.ForRange):
            walk(n.body, False)
        elif not top and not isinstance(n, L.Comment):
            out.append(n)

    walk(p, True)
    return out


def gen_main(jobfile: str, outfile: str):
    """Child process: generate kernel ASTs, format every top-level statement, write cases."""
    ensure_repo_on_path()
    L = lnodes()
    fm = formatters()
    jobs = json.loads(Path(jobfile).read_text())
    cs = CaseSet()
    nested = CaseSet()
    nested_of: dict[str, list] = {}
    stats = {"kernels": 0, "parts": 0, "skipped": [], "whole_mismatch": 0, "kinds": {}}
    ns: dict = {}
    exec(CORPUS, ns)  # noqa: S102
    import signal  # noqa: PLC0415

    def _alarm(_sig, _frm):
        raise TimeoutError("job exceeded its time limit")

    signal.signal(signal.SIGALRM, _alarm)
    for job in jobs:
        st = job["st"]
        signal.alarm(int(job.get("limit", 300)))
        try:
            if job["kind"] == "form":
                objs = ns["FORMS"][job["name"]]()
            elif job["kind"] == "kcorpus":
                from . import kcorpus  # noqa: PLC0415

                objs, kopts = kcorpus.build(job["name"])
                job = {**job, "opts": {**{k: v for k, v in kopts.items() if k != "scalar_type"}, **(job.get("opts") or {})}}
                st = str(kopts.get("scalar_type", st))
            else:
                import ufl  # noqa: PLC0415

                ufd = ufl.algorithms.load_ufl_file(job["name"])
                objs = ufd.forms + ufd.expressions
            asts = _kernel_asts(objs, st, job.get("opts"))
        except (Exception, BaseException) as ex:  # noqa: BLE001 - (ufl's ArityMismatch is a BaseException) a form the pipeline rejects is not a C16 matter
            if isinstance(ex, (KeyboardInterrupt, SystemExit)):
                raise
            signal.alarm(0)
            stats["skipped"].append(f"{job['name']}[{st}]: {type(ex).__name__}: {str(ex)[:120]}")
            continue
        signal.alarm(0)
        for kname, root in asts:
            stats["kernels"] += 1
            parts = _top_parts(root, L)
            for lang in ("C", "Py"):
                f = fm[lang](st)
                try:
                    whole = f(root)
                    if whole != "".join(f(p) for p in parts):
                        stats["whole_mismatch"] += 1
                        parts_l = [root]
                    else:
                        parts_l = parts
                except Exception:  # noqa: BLE001 - reported per part below
                    parts_l = parts
                for i, p in enumerate(parts_l):
                    if isinstance(p, L.Comment):
                        continue
                    stats["parts"] += 1
                    stats["kinds"][type(p).__name__] = stats["kinds"].get(type(p).__name__, 0) + 1
                    tag = f"{Path(job['name']).name}:{kname}:stmt{i}"
                    n0 = len(cs.cases)
                    cs.add(lang, st, "stmts", p, f"{tag}:{type(p).__name__}", fm)
                    if len(cs.cases) == n0:
                        continue
                    # every simple statement nested in a loop / section again on its own: judged only if TLC rejects
                    # the enclosing statement, so that one defect does not hide another one later in the same loop
                    # body (TLC reports the first difference)
                    parent = cs.cases[-1]["id"]
                    for j, q in enumerate(_nested_simple(p, L)):
                        stats["nested"] = stats.get("nested", 0) + 1
                        nested.add(lang, st, "stmts", q, f"{tag}.{j}:{type(q).__name__}", fm)
                        nested_of.setdefault(parent, []).append(nested.cases[-1]["id"])
    Path(outfile).write_text(json.dumps({"cases": cs.cases, "info": cs.info, "lit_fail": cs.lit_fail, "raised": cs.raised,
                                         "stats": stats, "nested_of": nested_of,
                                         "nested": {"cases": nested.cases, "info": nested.info, "lit_fail": nested.lit_fail,
                                                    "raised": nested.raised}}))


def run_corpus(chk, quick: bool):
    from .common import REPO  # noqa: PLC0415

    jobs = []
    for name in QUICK_FORMS:
        sts = ["complex128", "complex64"] if name in COMPLEX_ONLY else (["float64", "complex128"] if quick else SCALAR_TYPES)
        if name in REAL_ONLY:
            sts = ["float64", "float32"]
        if quick and name in ("vector_tet", "stokes_th", "hex_nonlinear", "hcurl_mass", "quad_mass_gll"):
            sts = ["float64"]
        for st in sts:
            jobs.append({"kind": "form", "name": name, "st": st})
    # option / feature combinations that select other code paths of definitions.py, access.py and the two generators:
    # sum-factorised kernels (tensor-product elements, scalar and blocked coefficients, degree 1-2, quadrilateral and
    # hexahedron), part="diagonal", several quadrature rules in one kernel, expressions at facet points, DG0 / quadrature /
    # constant tables, interior facets with coefficients, geometry quantities, manifolds, Piola-mapped elements
    SFO = {"sum_factorization": True}
    sf_all = [f"sf_{c}_{d}_{b}" for c in ("quadrilateral", "hexahedron") for d in (1, 2) for b in ("scalar", "blocked")]
    sf_quick = ["sf_quadrilateral_1_scalar", "sf_quadrilateral_2_blocked", "sf_hexahedron_1_blocked", "sf_hexahedron_1_scalar"]
    feature = ["multi_rule", "dg0_real_tables", "facet_coeff_dS", "geometry_quantities", "manifold_mass", "quad_nonaffine_piola",
               "expr_facet_points"]
    if quick:
        jobs.append({"kind": "form", "name": "poisson_p2_triangle", "st": "float32"})
        for i, n in enumerate(sf_quick):
            jobs.append({"kind": "form", "name": n, "st": ["float64", "complex128", "float32", "float64"][i], "opts": SFO})
        jobs.append({"kind": "form", "name": "sf_quadrilateral_1_blocked", "st": "float64", "opts": {**SFO, "part": "diagonal"}})
        jobs.append({"kind": "form", "name": "sf_quadrilateral_2_scalar", "st": "float64"})
        jobs.append({"kind": "form", "name": "poisson_p2_triangle", "st": "float64", "opts": {"part": "diagonal"}})
        jobs.append({"kind": "form", "name": "stokes_th", "st": "float64", "opts": {"part": "diagonal"}})
        for n in feature:
            jobs.append({"kind": "form", "name": n, "st": "float64"})
        jobs.append({"kind": "form", "name": "facet_coeff_dS", "st": "complex128"})
        jobs.append({"kind": "form", "name": "expr_facet_points", "st": "complex64"})
    else:
        for f in sorted((REPO / "demo").glob("*.py")):
            if f.name.startswith("test_"):
                continue
            half = random.Random(f"{chk.seed}:{f.name}").random() < 0.5
            for st in SCALAR_TYPES:
                if f.name == "ComplexPoisson.py" and not st.startswith("complex"):
                    continue
                if st in ("float32", "complex64") and not half:
                    continue
                jobs.append({"kind": "demo", "name": str(f), "st": st})
        for n in sf_all:
            for st in SCALAR_TYPES:
                jobs.append({"kind": "form", "name": n, "st": st, "opts": SFO})
            jobs.append({"kind": "form", "name": n, "st": "float64", "opts": {**SFO, "part": "diagonal"}})
            jobs.append({"kind": "form", "name": n, "st": "float64"})
        for n in ("poisson_p2_triangle", "stokes_th", "vector_tet", "dg_facets", "hcurl_mass"):
            jobs.append({"kind": "form", "name": n, "st": "float64", "opts": {"part": "diagonal"}})
        for n in feature:
            for st in SCALAR_TYPES:
                jobs.append({"kind": "form", "name": n, "st": st})
        try:                                  # the kernel corpus of engine S4, when present (read-only use)
            from . import kcorpus  # noqa: PLC0415

            for n in kcorpus.names("thorough"):
                jobs.append({"kind": "kcorpus", "name": n, "st": "float64"})
        except Exception as ex:  # noqa: BLE001
            chk.note(f"S4 kernel corpus not used: {type(ex).__name__}: {ex}")
    rng = random.Random(chk.seed)
    rng.shuffle(jobs)
    nproc = 4
    sdir = scratch("s6")
    procs = []
    for w in range(nproc):
        mine = jobs[w::nproc]
        if not mine:
            continue
        jf, of = sdir / f"jobs-{w}.json", sdir / f"gen-{w}.json"
        jf.write_text(json.dumps(mine))
        procs.append((subprocess.Popen([PY, "-m", "harness.s6", "--gen", str(jf), str(of)], env=child_env(),
                                       cwd=str(Path(__file__).resolve().parents[1]), stdout=subprocess.PIPE,
                                       stderr=subprocess.STDOUT, text=True), of))
    cs = CaseSet()
    nested = CaseSet()
    nested_of: dict[str, list] = {}
    stats = {"kernels": 0, "parts": 0, "nested": 0, "skipped": [], "whole_mismatch": 0, "kinds": {}}
    for w, (p, of) in enumerate(procs):
        out, _ = p.communicate(timeout=3000)
        if p.returncode != 0 or not of.exists():
            raise MachineryError(f"corpus generator {w} failed:\n{out[-3000:]}")
        d = json.loads(of.read_text())
        ren = {}
        for c in d["cases"]:
            nid = f"g{w}{c['id']}"
            ren[c["id"]] = nid
            c["id"] = nid
            cs.cases.append(c)
        for k, v in d["info"].items():
            cs.info[ren[k]] = v
        cs.lit_fail += [(a, b, c, ren[e]) for a, b, c, e in d["lit_fail"]]
        cs.raised += [tuple(x) for x in d["raised"]]
        nren = {}
        for c in d["nested"]["cases"]:
            nid = f"n{w}{c['id']}"
            nren[c["id"]] = nid
            c["id"] = nid
            nested.cases.append(c)
        for k, v in d["nested"]["info"].items():
            nested.info[nren[k]] = v
        # literal failures / formatter exceptions of nested statements are those of the enclosing statement's text
        nested.raised += [tuple(x) for x in d["nested"]["raised"]]
        for k, v in d["nested_of"].items():
            nested_of[ren[k]] = [nren[x] for x in v]
        for k in ("kernels", "parts", "whole_mismatch", "nested"):
            stats[k] += d["stats"].get(k, 0)
        stats["skipped"] += d["stats"]["skipped"]
        for k, v in d["stats"]["kinds"].items():
            stats["kinds"][k] = stats["kinds"].get(k, 0) + v
    ntok = sum(len(c["toks"]) for c in cs.cases)
    chk.note(f"corpus: {len(jobs)} (form, scalar type) jobs -> {stats['kernels']} kernel ASTs, {stats['parts']} top-level statements ({stats['nested']} nested simple statements kept for a second pass) "
             f"formatted by the real C and numba formatters, {ntok} tokens; statement kinds {stats['kinds']}; "
             f"skipped {len(stats['skipped'])}; whole-text != concatenation of parts: {stats['whole_mismatch']}")
    for s in stats["skipped"][:10]:
        chk.note(f"corpus job skipped (pipeline raised): {s}")
    chk.add(corpus_kernels=stats["kernels"], corpus_statements=stats["parts"], corpus_tokens=ntok,
            corpus_jobs_skipped=len(stats["skipped"]))
    if stats["kernels"] == 0:
        raise MachineryError("corpus produced no kernels")
    judge(chk, cs, "corpus", parallel=4)
    report_literals_and_raises(chk, cs)
    if cs.rejected:
        want = {n for cid in cs.rejected for n in nested_of.get(cid, [])}
        sub = CaseSet()
        sub.cases = [c for c in nested.cases if c["id"] in want]
        sub.info = {c["id"]: nested.info[c["id"]] for c in sub.cases}
        chk.note(f"{len(cs.rejected)} top-level statements rejected; judging their {len(sub.cases)} nested simple statements one by one")
        judge(chk, sub, "corpus-nested", parallel=4)
    cs.raised += nested.raised
    return cs


# ---------------------------------------------------------------------------
# controls: a corrupted recorded stream must be rejected by TLC

def run_controls(chk, cs: CaseSet):
    rng = random.Random(chk.seed + 1)
    cands = [c for c in cs.cases if 8 <= len(c["toks"]) <= 60 and c["id"] not in cs.rejected]
    picked = rng.sample(cands, min(40, len(cands)))
    ctl = CaseSet()
    for c in picked:
        c2 = json.loads(json.dumps(c))
        ix = [i for i, t in enumerate(c2["toks"]) if t["t"] in ("op", "id") and t["v"] not in ("(", ")")]
        i = rng.choice(ix)
        t = c2["toks"][i]
        if t["t"] == "id":
            t["v"] = t["v"] + "_x"
        else:
            swap = {"+": "*", "*": "+", "-": "/", "/": "-", "<": ">=", ">": "<=", "<=": ">", ">=": "<", "==": "!=", "!=": "==",
                    "&&": "||", "||": "&&", "?": ":", ":": "?", "[": "(", "]": ")", "=": "+=", "+=": "=", ",": "+", ";": ",",
                    "{": "(", "}": ")", "!": "-", "++": "--", ".": ","}
            t["v"] = swap.get(t["v"], "%")
        c2["id"] = "k" + c2["id"]
        ctl.cases.append(c2)
        ctl.info[c2["id"]] = cs.info[c["id"]]
    if not ctl.cases:
        return
    sdir = scratch("s6")
    f = sdir / "controls.json"
    f.write_text(json.dumps(ctl.cases))
    r, _ = run_tlc("controls", "FormatConform", "SPECIFICATION JSpec\nINVARIANT Judge\n",
                   {"S6_CASES": str(f), "S6_PREC": str(sdir / "prec.json")})
    rejected = {v[1] for v in printed_values(r.out, "VIOL")}
    missed = [c["id"] for c in ctl.cases if c["id"] not in rejected]
    chk.add(controls_rejected=len(rejected), controls_total=len(ctl.cases))
    chk.note(f"negative control: {len(ctl.cases)} recorded token streams with one corrupted token -> TLC rejected {len(rejected)}")
    if missed:
        ex = next(c for c in ctl.cases if c["id"] == missed[0])
        raise MachineryError(f"negative control failed: TLC accepted a corrupted token stream: {json.dumps(ex)[:800]}")


# ---------------------------------------------------------------------------
# C16 entry points

def run_c16(chk):
    quick = chk.tier == "quick"
    t0 = time.time()
    trees, bad = design_check(chk, 2 if quick else 3)
    cs1 = run_enumerated(chk, trees, quick)
    if bad and not any(i["lang"] == "C" for cid, i in cs1.info.items() if cid in cs1.rejected):
        # DESIGN.md section 7: model drift is reported, it is not a violation
        chk.note("model drift: the pure design rule (Format.tla) has C counterexamples that the real C formatter does not show - "
                 "the code guards the rule (e.g. parenthesises a unary-minus operand whose text starts with '-')")
    t1 = time.time()
    cs2 = run_corpus(chk, quick)
    t2 = time.time()
    run_controls(chk, cs1)
    chk.note(f"wall: design+enumerated {t1 - t0:.1f}s, corpus {t2 - t1:.1f}s, controls {time.time() - t2:.1f}s")
    chk.add(evaluations=len(cs1.cases) + len(cs2.cases))
    chk.assumptions += [
        "tokenisers (harness/ctoken.py, pytoken.py) implement maximal munch of C11 6.4 / Python ch.2 for the emitted character set",
        "literal clause (|printed - tree| <= 1 ulp in the kernel's real type) is decided in Python with exact Fractions; "
        "TLC judges structure with number tokens named by the literal leaf printed at that place",
        "astexport/project are mechanical re-shapings of the real LNodes objects; a MultiIndex is one operand node whose meaning is "
        "its flattened index global_index (whose value is checked by C17)",
        "math-function names are accepted per C11 7.12/7.3 family (any precision suffix) / numpy-math-scipy synonyms listed in Format.tla",
    ]


def replay_c16(chk, path):
    doc = json.loads(Path(path).read_text())
    pl = doc["payload"]
    if pl.get("kind") == "conform":
        L = lnodes()
        sdir = scratch("s6")
        (sdir / "prec.json").write_text(json.dumps(prec_table(L)))
        cs = CaseSet()
        c = pl["first_case"]
        cs.cases.append(c)
        cs.info[c["id"]] = {"text": pl["text"], "what": pl["what"], "lang": c["lang"], "st": c["st"], "ntok": len(c["toks"])}
        judge(chk, cs, "replay")
        chk.note("replayed the recorded token stream/tree through TLC (the recorded artefact, not a fresh run of the formatter)")
    else:
        run_c16(chk)


if __name__ == "__main__":
    if len(sys.argv) == 4 and sys.argv[1] == "--gen":
        gen_main(sys.argv[2], sys.argv[3])
    else:
        sys.exit("usage: python -m harness.s6 --gen jobs.json out.json")


# ---------------------------------------------------------------------------
# C17, operator-overload half (LExprAlgebra.tla)

def alg_project(e: dict) -> dict:
    """astexport dict -> [k, s, a, n, d] for LExprAlgebra (literals as exact rationals)."""
    k = e["kind"]

    def node(kk, s="", a=(), n=0, d=1):
        return {"k": kk, "s": s, "a": list(a), "n": int(n), "d": int(d)}

    if k in ("LiteralFloat", "PyFloat"):
        if k == "LiteralFloat" and e["complex"]:
            raise MachineryError("complex literal in an algebra case")
        f = Fraction(e["value"])
        return node("Lit", n=f.numerator, d=f.denominator)
    if k in ("LiteralInt", "PyInt"):
        return node("Lit", n=e["value"], d=1)
    if k == "Symbol":
        return node("Var", e["name"])
    if k == "ArrayAccess":
        def nm(i):
            return i.get("name") or str(i.get("value"))
        return node("Var", e["array"] + "[" + ",".join(nm(i) for i in e["indices"]) + "]")
    if k in ("Neg", "Add", "Sub", "Mul", "Div", "Sum", "Product"):
        return node(k, a=[alg_project(x) for x in e["args"]])
    raise MachineryError(f"LExprAlgebra has no meaning for node kind {k}")


def _operand(kind: str, L, side: str):
    """Real operand for an enumerated operand kind; side 'a' uses names x,y,A[i]; side 'b' uses u,v,B[j]."""
    n1, n2, arr, ix = ("x", "y", "A", "i") if side == "a" else ("u", "v", "B", "j")
    R, I = L.DataType.REAL, L.DataType.INT
    vals = {"0": 0, "1": 1, "m1": -1, "3": 3, "m3": -3, "2.5": 2.5, "m2.5": -2.5}
    if kind[:2] in ("LF", "LI", "PI", "PF"):
        v = vals[kind[2:]]
        return {"LF": lambda: L.LiteralFloat(float(v)), "LI": lambda: L.LiteralInt(int(v)),
                "PI": lambda: int(v), "PF": lambda: float(v)}[kind[:2]]()
    s1, s2 = L.Symbol(n1, R), L.Symbol(n2, R)
    return {"Sym": lambda: s1, "NegSym": lambda: L.Neg(s1), "NegNegSym": lambda: L.Neg(L.Neg(s1)),
            "Sum": lambda: L.Sum([s1, s2]), "Product": lambda: L.Product([s1, s2]),
            "ArrayAccess": lambda: L.ArrayAccess(L.Symbol(arr, R), (L.Symbol(ix, I),))}[kind]()


def _apply(op: str, a, b):
    import operator  # noqa: PLC0415

    if op == "neg":
        return -a
    if op in ("add", "sub", "mul", "div"):
        return {"add": operator.add, "sub": operator.sub, "mul": operator.mul, "div": operator.truediv}[op](a, b)
    return getattr(b, {"radd": "__radd__", "rsub": "__rsub__", "rmul": "__rmul__", "rdiv": "__rtruediv__"}[op])(a)


def run_overloads(chk):
    """C17, overload half: TLC enumerates the cases, the real operators are applied, TLC judges the real results."""
    L = lnodes()
    sdir = scratch("s6")
    out = sdir / "alg-cases.json"
    r, _ = run_tlc("alg-enum", "LExprAlgebra", "SPECIFICATION ASpec\nINVARIANT Judge\n", {"S6_ALG_OUT": str(out)})
    enum = json.loads(out.read_text())
    cases, info = [], {}

    def add(c, key, what):
        c["id"] = f"a{len(cases)}"
        cases.append(c)
        info[c["id"]] = (key, what)

    n_raised = 0
    for oc in sorted(enum["ops"], key=lambda c: (c["op"], c["a"], c["b"])):
        a = _operand(oc["a"], L, "a")
        b = a if oc["op"] == "neg" else _operand(oc["b"], L, "b")
        ea, eb = alg_project(astexport.export_expr(a)), alg_project(astexport.export_expr(b))
        try:
            res = _apply(oc["op"], a, b)
            raised, er, rtxt = False, alg_project(astexport.export_expr(res)), repr(astexport.export_expr(res))[:300]
        except MachineryError:
            raise
        except Exception as ex:  # noqa: BLE001 - whether raising is right is for the spec to say
            raised, er, rtxt = True, ea, f"raised {type(ex).__name__}: {ex}"
            n_raised += 1
        add({"kind": "op", "op": oc["op"], "a": ea, "b": eb, "raised": raised, "res": er},
            f"overload:{oc['op']}:{oc['a']}:{oc['b']}", f"{oc['a']} {oc['op']} {oc['b']} -> {rtxt}")
    for fs in sorted(enum["products"], key=str):
        facs = [_operand(k, L, "a" if i % 2 == 0 else "b") for i, k in enumerate(fs)]
        res = L.float_product(facs)
        add({"kind": "product", "fs": [alg_project(astexport.export_expr(f)) for f in facs],
             "res": alg_project(astexport.export_expr(res))}, f"float_product:{','.join(fs)}",
            f"float_product({fs}) -> {astexport.export_expr(res)}")
    for mc in sorted(enum["mi"], key=str):
        sizes, lit = list(mc["sizes"]), mc["lit"]
        syms, idx = [], []
        for k, n in enumerate(sizes, start=1):
            if k == lit:
                syms.append(n - 1)
                idx.append({"k": "Lit", "s": "", "a": [], "n": n - 1, "d": 1})
            else:
                syms.append(L.Symbol(f"i{k}", L.DataType.INT))
                idx.append({"k": "Var", "s": f"i{k}", "a": [], "n": 0, "d": 1})
        mi = L.MultiIndex(syms, sizes)
        add({"kind": "mi", "sizes": sizes, "idx": idx, "res": alg_project(astexport.export_expr(mi.global_index))},
            f"global_index:{'x'.join(map(str, sizes))}:lit{lit}", f"MultiIndex(sizes={sizes}, literal axis {lit}).global_index")
    # the translation of UFL's complex-part operators (ufl_to_lnodes / _math_function) on REAL-typed operands
    import basix.ufl  # noqa: PLC0415
    import ufl  # noqa: PLC0415
    um = ufl.Mesh(basix.ufl.element("Lagrange", "interval", 1, shape=(1,)))
    uf = ufl.Coefficient(ufl.FunctionSpace(um, basix.ufl.element("Lagrange", "interval", 1)))
    uops = {"conj": ufl.algebra.Conj(uf), "real": ufl.algebra.Real(uf), "imag": ufl.algebra.Imag(uf)}
    xr, yr = L.Symbol("a", L.DataType.REAL), L.Symbol("b", L.DataType.REAL)
    operands = {"sym": xr, "lit2.5": L.LiteralFloat(2.5), "litm1": L.LiteralFloat(-1.0), "neg": L.Neg(xr),
                "mul": L.Mul(xr, L.LiteralFloat(2.5)), "sum": L.Add(xr, yr), "div": L.Div(xr, L.LiteralFloat(2.5))}
    ncpart = 0
    for opn, uop in sorted(uops.items()):
        for okind, a in sorted(operands.items()):
            res = L.ufl_to_lnodes(uop, a)
            add({"kind": "cpart", "op": opn, "a": alg_project(astexport.export_expr(a)), "res": alg_project(astexport.export_expr(res))},
                f"ufl_to_lnodes:{opn}:{okind}", f"{opn}({astexport.export_expr(a)}) -> {repr(astexport.export_expr(res))[:200]}")
            ncpart += 1
    f = sdir / "alg-results.json"
    f.write_text(json.dumps(cases))
    r2, _ = run_tlc("alg-judge", "LExprAlgebra", "SPECIFICATION ASpec\nINVARIANT Judge\n", {"S6_ALG_CASES": str(f)})
    if r2.distinct != len(cases):
        raise MachineryError(f"TLC judged {r2.distinct} of {len(cases)} algebra cases")
    viol = printed_values(r2.out, "VIOL")
    by_id = {c["id"]: c for c in cases}
    for _t, cid, kind in viol:
        key, what = info[cid]
        chk.violation(key, f"operator overloads do not preserve the value: {what}", {"engine": "S6", "kind": kind, "case": by_id[cid]})
    nops = len(enum["ops"])
    chk.add(states=r2.distinct, transitions=r2.generated, traces_validated_against_impl=len(cases), evaluations=len(cases),
            overload_cases=nops, overload_cases_raised=n_raised, float_product_cases=len(enum["products"]), complex_part_translation_cases=ncpart,
            multiindex_cases=len(enum["mi"]),
            distinct_nontrivial=len({json.dumps(c.get("res")) for c in cases if c["kind"] == "op" and not c["raised"]}))
    chk.add(rule="LExprAlgebra.tla enumerates operand kinds (LiteralFloat/LiteralInt/Python int/float of 0, 1, -1, 3|2.5, -3|-2.5, Symbol, "
                 "Neg(Symbol), Neg(Neg(Symbol)), Sum, Product, ArrayAccess) squared x {+,-,*,/, unary -, reflected forms}, float_product "
                 "factor lists, MultiIndex shapes (<=4 axes, extents 1..4, optional literal-int axis); each is executed on the real lnodes "
                 "operators and the exported real result is evaluated by TLC in the rationals for every environment over {-2..2}^variables "
                 "(all index values for global_index). distinct_nontrivial = distinct result trees of the operator cases.")
    chk.add(samples=[info[c["id"]][1] for c in random.Random(chk.seed).sample(cases, 6)])
    chk.note(f"TLC LExprAlgebra: {nops} operator cases ({n_raised} raised), {len(enum['products'])} float_product cases, "
             f"{len(enum['mi'])} MultiIndex cases judged for all environments: {len(viol)} rejected ({r2.wall_s:.1f}s)")
    # negative control: a corrupted recorded result must be rejected
    ctl = []
    rng = random.Random(chk.seed)
    pool = [c for c in cases if c["kind"] == "op" and not c["raised"] and c["res"]["k"] in ("Add", "Sub", "Mul", "Div", "Neg")]
    for c in rng.sample(pool, min(25, len(pool))):
        c2 = json.loads(json.dumps(c))
        c2["id"] = "k" + c["id"]
        c2["res"]["k"] = {"Add": "Sub", "Sub": "Add", "Mul": "Div", "Div": "Mul", "Neg": "Sum"}[c2["res"]["k"]]
        ctl.append(c2)
    fc = sdir / "alg-controls.json"
    fc.write_text(json.dumps(ctl))
    r3, _ = run_tlc("alg-controls", "LExprAlgebra", "SPECIFICATION ASpec\nINVARIANT Judge\n", {"S6_ALG_CASES": str(fc)})
    rej = {v[1] for v in printed_values(r3.out, "VIOL")}
    # swapping + and - (or * and /) changes the value unless an operand is neutral in every environment; count, require most
    chk.add(controls_rejected=len(rej), controls_total=len(ctl))
    chk.note(f"negative control: {len(ctl)} recorded results with one operator swapped -> TLC rejected {len(rej)}")
    if len(rej) < max(1, (len(ctl) * 3) // 4):
        raise MachineryError("negative control failed: TLC accepted most corrupted operator results")
    chk.assumptions += [
        "Eval interprets LNodes arithmetic in the field of rationals (ring laws only); floating-point rounding differences between "
        "a folded and an unfolded expression are outside this clause",
        "the reference is compared only in environments where it is defined (no division by zero)",
    ]
