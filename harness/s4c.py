"""Child process of engine S4: calls compiled kernels on protected memory (plain ctypes, no ffcx import).

    python -m harness.s4c JOB.json LOG

JOB = {"kernels": [{"id", "so", "sym", "ext": {A: n, w, c, coordinate_dofs, entity_local_index, quadrature_permutation},
                    "data": {"w": [...], "c": [...], "x": [...]}, "inis": [{"e": [...], "q": [...]}, ...]}],
       "mode": "ro" | "guard"}

mode "ro":    w, c, coordinate_dofs, entity_local_index, quadrature_permutation live in PROT_READ pages with a page of
              readable slack on both sides: a store to an input faults, a small over-read does not.
mode "guard": every buffer (A included) ends exactly at a PROT_NONE page, then (second pass) starts exactly after
              one: an access one element outside the UFCx extent faults.
Before every call one line `B <id> <mode> <pass> <ini index>` is written (unbuffered) to LOG and `E ...` after it,
so that the parent can name the kernel that crashed.  Results (A after the call) are written as `R <id> <json>`.
"""

from __future__ import annotations

import ctypes
import json
import mmap
import os
import sys

PAGE = mmap.PAGESIZE
PROT_NONE = 0
libc = ctypes.CDLL(None, use_errno=True)
libc.mmap.restype = ctypes.c_void_p
libc.mmap.argtypes = [ctypes.c_void_p, ctypes.c_size_t, ctypes.c_int, ctypes.c_int, ctypes.c_int, ctypes.c_long]
libc.mprotect.argtypes = [ctypes.c_void_p, ctypes.c_size_t, ctypes.c_int]
libc.munmap.argtypes = [ctypes.c_void_p, ctypes.c_size_t]

CT = {"d": (ctypes.c_double, 8), "i": (ctypes.c_int, 4), "b": (ctypes.c_uint8, 1)}


class Region:
    """An anonymous mapping [guard | data pages | guard] with the array placed as requested."""

    def __init__(self, kind: str, values, place: str, readonly: bool, slack: bool):
        ct, sz = CT[kind]
        n = len(values)
        nbytes = max(1, n * sz)
        npages = (nbytes + PAGE - 1) // PAGE + (2 if slack else 0)
        self.total = (npages + 2) * PAGE
        base = libc.mmap(None, self.total, mmap.PROT_READ | mmap.PROT_WRITE, mmap.MAP_PRIVATE | mmap.MAP_ANONYMOUS, -1, 0)
        if base in (None, ctypes.c_void_p(-1).value):
            raise OSError(ctypes.get_errno(), "mmap failed")
        self.base = base
        lo, hi = base + PAGE, base + PAGE + npages * PAGE
        if slack:
            addr = lo + PAGE                                   # a page of readable slack before and after
        elif place == "end":
            addr = hi - n * sz                                 # last element ends at the guard page
        else:
            addr = lo                                          # first element starts right after the guard page
        self.addr = addr
        self.arr = (ct * max(1, n)).from_address(addr)
        for i, v in enumerate(values):
            self.arr[i] = v
        self.n = n
        if libc.mprotect(base, PAGE, PROT_NONE) or libc.mprotect(hi, PAGE, PROT_NONE):
            raise OSError(ctypes.get_errno(), "mprotect(guard) failed")
        if readonly and libc.mprotect(lo, npages * PAGE, mmap.PROT_READ):
            raise OSError(ctypes.get_errno(), "mprotect(ro) failed")

    def ptr(self):
        return ctypes.c_void_p(self.addr)

    def values(self):
        return [self.arr[i] for i in range(self.n)]

    def free(self):
        libc.munmap(self.base, self.total)


def main():
    job = json.load(open(sys.argv[1]))
    log = os.open(sys.argv[2], os.O_WRONLY | os.O_CREAT | os.O_APPEND, 0o644)

    def say(s):
        os.write(log, (s + "\n").encode())

    mode = job["mode"]
    libs = {}
    for k in job["kernels"]:
        lib = libs.get(k["so"])
        if lib is None:
            lib = libs[k["so"]] = ctypes.CDLL(k["so"])
        fn = getattr(lib, k["sym"])
        fn.restype = None
        fn.argtypes = [ctypes.c_void_p] * 7
        ext = k["ext"]
        passes = ["mid"] if mode == "ro" else ["end", "start"]
        for ps in passes:
            slack = mode == "ro"
            w = Region("d", k["data"]["w"], ps, True, slack)
            c = Region("d", k["data"]["c"], ps, True, slack)
            x = Region("d", k["data"]["x"], ps, True, slack)
            for ii, ini in enumerate(k["inis"]):
                e = Region("i", ini["e"], ps, True, slack)
                q = Region("b", ini["q"], ps, True, slack)
                a = Region("d", k["data"]["A0"], ps, False, False if mode == "guard" else True)
                say(f"B {k['id']} {mode} {ps} {ii}")
                # an absent array is NULL in guard mode (any dereference faults) and a readable dummy in ro mode
                nul = mode == "guard"
                fn(a.ptr(), w.ptr() if ext["w"] or not nul else None, c.ptr() if ext["c"] or not nul else None, x.ptr(),
                   e.ptr() if ext["entity_local_index"] or not nul else None,
                   q.ptr() if ext["quadrature_permutation"] or not nul else None, None)
                say(f"E {k['id']} {mode} {ps} {ii}")
                if ps == passes[0]:
                    say("R " + json.dumps({"id": k["id"], "ini": ii, "A": [float.hex(v) for v in a.values()]}))
                for r in (e, q, a):
                    r.free()
            for r in (w, c, x):
                r.free()
    say("DONE")
    os.close(log)


if __name__ == "__main__":
    main()
