"""Real LNodes kernels -> the bytecode JSON that spec/Kernel.tla executes (engine S4).

A projection, not an interpretation: every LNodes statement becomes one instruction (the flattening mirrors the
block structure the C formatter prints: Section declarations outside the braces, Section statements inside,
`for (int i ...) { body }`), expressions stay trees (harness/astexport.py), float literals / table entries are
mapped to residues mod P by `zp`.  Extents of A, w, c, coordinate_dofs, entity_local_index and
quadrature_permutation are computed from the UFL form and the basix elements (never from FFCx's IR).

    capture(objs, options, variants)     run the real pipeline once, return every generated kernel AST (per variant
                                         of the optimiser) plus every recorded optimizer.optimize call
    kernel_json(cap, ...)                one kernel in the format of DESIGN.md appendix B
    form_extents / expr_extents          the UFCx memory contract of a kernel, from UFL/basix
    planes(ext, seed, n)                 seeded input data in Z_p
    count_steps(code)                    exact number of machine steps (literal loop bounds)
"""

from __future__ import annotations

import copy
import hashlib
import random
from dataclasses import dataclass, field

import numpy as np

from . import astexport, ctoken
from .common import MachineryError

P = 46337
_INV2 = pow(2, P - 2, P)
J_UNIT = next(j for j in range(2, P) if (j * j) % P == P - 1)   # sqrt(-1) mod P  (P = 1 mod 4)

MATH_FUNCTIONS = ["sqrt", "abs", "cos", "sin", "tan", "acos", "asin", "atan", "cosh", "sinh", "tanh", "acosh",
                  "asinh", "atanh", "power", "exp", "ln", "erf", "atan_2", "min_value", "max_value", "bessel_y",
                  "bessel_j", "real", "imag", "conj", "bessel_i", "bessel_k"]
FCODE = {n: i + 1 for i, n in enumerate(MATH_FUNCTIONS)}

DT = {"REAL": "R", "SCALAR": "S", "INT": "I", "BOOL": "B", "NONE": "B", None: "B"}


# --------------------------------------------------------------------------------------------- Z_p
_zp_cache: dict[str, int] = {}


def zp(x) -> int:
    """Residue of a float: exact ring homomorphism on dyadic rationals with numerator, denominator < 2^16,
    a fixed non-zero pseudo-random residue (odd in the sign) for every other value."""
    if isinstance(x, complex):
        return (zp(x.real) + J_UNIT * zp(x.imag)) % P
    x = float(x)
    if x != x or x in (float("inf"), float("-inf")):
        raise MachineryError(f"non-finite literal {x} in a kernel")
    if x == 0:
        return 0
    key = x.hex()
    r = _zp_cache.get(key)
    if r is None:
        a = abs(x)
        num, den = a.as_integer_ratio()
        if num < 65536 and den <= 65536:
            r = (num % P) * pow(den % P, P - 2, P) % P
            if r == 0:                      # multiples of P keep their meaning (0) - harmless but note it
                r = 0
        else:
            h = int.from_bytes(hashlib.sha1(a.hex().encode()).digest()[:8], "big")
            r = 1 + h % (P - 1)
        if x < 0:
            r = (P - r) % P
        _zp_cache[key] = r
    return r


def zp_array(values) -> list[int]:
    arr = np.asarray(values)
    if np.iscomplexobj(arr):
        return [zp(complex(v)) for v in arr.ravel()]
    if np.issubdtype(arr.dtype, np.integer) or arr.dtype == np.bool_:
        return [int(v) for v in arr.ravel()]
    return [zp(float(v)) for v in np.asarray(arr, dtype=np.float64).ravel()]


# ------------------------------------------------------------------------------------ expressions
def compact(e: dict) -> dict:
    """astexport expression dict -> the compact tree Kernel.tla evaluates."""
    k = e["kind"]
    t = DT[e.get("dtype")]
    if k == "LiteralFloat":
        v = e["value"]
        return {"k": "lit", "t": t, "v": zp(complex(v["re"], v["im"])) if e.get("complex") else zp(v)}
    if k in ("LiteralInt", "PyInt"):
        return {"k": "lit", "t": "I", "v": int(e["value"])}
    if k == "PyFloat":
        return {"k": "lit", "t": "R", "v": zp(e["value"])}
    if k == "Symbol":
        return {"k": "sym", "t": t, "n": e["name"]}
    if k == "MultiIndex":
        return {"k": "mi", "t": "I", "s": [compact(s) for s in e["symbols"]], "z": [int(z) for z in e["sizes"]],
                "g": compact(e["global_index"])}
    if k == "ArrayAccess":
        return {"k": "acc", "t": DT[e.get("dtype")], "a": e["array"], "i": [compact(i) for i in e["indices"]]}
    if k == "Neg":
        return {"k": "neg", "t": t, "x": [compact(e["args"][0])]}
    if k == "Not":
        return {"k": "not", "t": "B", "x": [compact(e["args"][0])]}
    if k in ("Add", "Sub", "Mul", "Div"):
        return {"k": "bin", "t": t, "o": e["op"], "x": [compact(a) for a in e["args"]]}
    if k in ("EQ", "NE", "LT", "GT", "LE", "GE", "And", "Or"):
        return {"k": "bin", "t": "B", "o": e["op"], "x": [compact(a) for a in e["args"]]}
    if k == "Sum":
        return {"k": "sum", "t": t, "x": [compact(a) for a in e["args"]]}
    if k == "Product":
        return {"k": "prod", "t": t, "x": [compact(a) for a in e["args"]]}
    if k == "MathFunction":
        if e["function"] not in FCODE:
            raise MachineryError(f"math function {e['function']!r} unknown to the S4 exporter")
        return {"k": "fn", "t": t, "f": FCODE[e["function"]], "fname": e["function"], "x": [compact(a) for a in e["args"]]}
    if k == "Conditional":
        return {"k": "cond", "t": t, "x": [compact(a) for a in e["args"]]}
    raise MachineryError(f"S4 exporter: expression kind {k} not supported")


def has_div(e) -> bool:
    if isinstance(e, dict):
        if e.get("k") == "bin" and e.get("o") == "/":
            return True
        return any(has_div(v) for v in e.values())
    if isinstance(e, list):
        return any(has_div(v) for v in e)
    return False


# ---------------------------------------------------------------------- declarations: the C text
def parse_decl(text: str) -> dict:
    """Parse the declaration the real C formatter printed: storage/qualifier flags, name, dimensions."""
    cut = len(text)
    for ch in "=;":
        j = text.find(ch)
        if j >= 0:
            cut = min(cut, j)
    toks = ctoken.tokenize(text[:cut])
    if any(ty == "bad" for ty, _ in toks):
        raise MachineryError(f"cannot tokenise declaration {text[:80]!r}")
    flags = {"static": False, "const": False, "extern": False, "volatile": False}
    i = 0
    types = []
    while i < len(toks) and toks[i][0] == "kw":
        w = toks[i][1]
        if w in flags:
            flags[w] = True
        else:
            types.append(w)
        i += 1
    if i >= len(toks) or toks[i][0] != "id" or not types:
        raise MachineryError(f"not a declaration: {text[:80]!r}")
    name = toks[i][1]
    i += 1
    dims = []
    while i < len(toks):
        if toks[i] == ("op", "[") and i + 2 < len(toks) + 0 and toks[i + 1][0] == "int" and toks[i + 2] == ("op", "]"):
            dims.append(ctoken.int_value(toks[i + 1][1]))
            i += 3
        else:
            raise MachineryError(f"unexpected declarator in {text[:80]!r}")
    return {"static": flags["static"], "const": flags["const"], "name": name, "dims": dims, "ctype": " ".join(types),
            "init": "=" in text[cut:cut + 1]}


# ------------------------------------------------------------------------------------- statements
class Flattener:
    def __init__(self, fmt):
        self.fmt = fmt
        self.code: list[dict] = []
        self.decl_texts: list[str] = []

    def emit(self, ins):
        self.code.append(ins)
        return len(self.code)            # 1-based pc

    def stmt(self, node, L):
        if isinstance(node, L.StatementList):
            for s in node.statements:
                self.stmt(s, L)
        elif isinstance(node, L.Section):
            for d in node.declarations:
                self.stmt(d, L)
            if len(node.statements) > 0:
                self.emit({"op": "scope_in", "name": node.name})
                for s in node.statements:
                    self.stmt(s, L)
                self.emit({"op": "scope_out"})
        elif isinstance(node, L.Comment):
            pass
        elif isinstance(node, L.VariableDecl):
            text = self.fmt(node) if node.value is not None else None
            fl = parse_decl(text) if text else {"static": False, "const": False, "name": node.symbol.name, "dims": []}
            if fl["name"] != node.symbol.name or fl["dims"]:
                raise MachineryError(f"C text of a scalar declaration does not match its node: {text[:80]!r}")
            val = compact(astexport.export_expr(node.value)) if node.value is not None else {"k": "none", "t": "B"}
            self.emit({"op": "vdecl", "sym": node.symbol.name, "t": DT[node.symbol.dtype.name], "val": val,
                       "hd": has_div(val), "static": fl["static"], "const": fl["const"]})
        elif isinstance(node, L.ArrayDecl):
            text = self.fmt(node)
            fl = parse_decl(text)
            dims = [int(s) for s in node.sizes]
            if fl["name"] != node.symbol.name or fl["dims"] != dims:
                raise MachineryError(f"C text of an array declaration does not match its node: {text[:80]!r}")
            n = int(np.prod(dims)) if dims else 1
            if node.values is None:
                init, vals = "none", []
            else:
                arr = np.asarray(node.values)
                if arr.size == n and (arr.shape == tuple(dims) or arr.ndim == 1):
                    init, vals = "full", zp_array(arr)
                elif arr.size == 1:
                    init, vals = "first", zp_array(arr)       # `= {v}`: first element v, the rest zero (C 6.7.9p21)
                else:
                    raise MachineryError(f"partial initialiser of shape {arr.shape} for {node.symbol.name}{dims}")
            if fl["const"] and init != "full":
                raise MachineryError(f"const array {node.symbol.name} without a full initialiser")
            self.emit({"op": "adecl", "sym": node.symbol.name, "t": DT[node.symbol.dtype.name], "dims": dims, "init": init,
                       "vals": vals, "static": fl["static"], "const": fl["const"], "aconst": bool(node.const)})
            self.decl_texts.append(text[: text.find("=")] if "=" in text else text)
        elif isinstance(node, L.ForRange):
            if not isinstance(node.index, L.Symbol):
                raise MachineryError("ForRange over a MultiIndex is not supported by the S4 exporter")
            pc = self.emit({"op": "loop", "i": node.index.name, "b": compact(astexport.export_expr(node.begin)),
                            "e": compact(astexport.export_expr(node.end)), "end": 0})
            for s in node.body.statements:
                self.stmt(s, L)
            end = self.emit({"op": "endloop", "start": pc})
            self.code[pc - 1]["end"] = end
        elif isinstance(node, L.Statement) or isinstance(node, L.AssignOp):
            ex = node.expr if isinstance(node, L.Statement) and not isinstance(node, L.Declaration) else node
            if isinstance(ex, L.Assign):
                op = "assign"
            elif isinstance(ex, L.AssignAdd):
                op = "aadd"
            else:
                raise MachineryError(f"statement {type(ex).__name__} is not supported by the S4 exporter")
            lhs = compact(astexport.export_expr(ex.lhs))
            if lhs["k"] not in ("sym", "acc"):
                raise MachineryError(f"assignment to a {lhs['k']} node")
            rhs = compact(astexport.export_expr(ex.rhs))
            self.emit({"op": op, "t": lhs["t"], "lhs": lhs, "rhs": rhs, "hd": has_div(rhs)})
        else:
            raise MachineryError(f"S4 exporter: statement class {type(node).__name__} not supported")


def flatten(ast, scalar_type="float64"):
    """-> (code, declaration texts) for one kernel body."""
    import ffcx.codegeneration.lnodes as L  # noqa: PLC0415
    from ffcx.codegeneration.C.formatter import Formatter  # noqa: PLC0415

    fl = Flattener(Formatter(scalar_type))
    fl.stmt(ast, L)
    return fl.code, fl.decl_texts


def count_steps(code) -> int | None:
    """Number of machine steps of one run (every loop bound must be a literal)."""
    def block(lo, hi):          # instructions lo..hi (1-based, inclusive)
        n, pc = 0, lo
        while pc <= hi:
            ins = code[pc - 1]
            if ins["op"] == "loop":
                b, e = ins["b"], ins["e"]
                if b["k"] != "lit" or e["k"] != "lit":
                    return None
                it = max(0, e["v"] - b["v"])
                inner = block(pc + 1, ins["end"] - 1)
                if inner is None:
                    return None
                n += 1 + it * (inner + 1)
                pc = ins["end"] + 1
            else:
                n += 1
                pc += 1
        return n
    return block(1, len(code))


# ------------------------------------------------------------------------------------------ capture
@dataclass
class Captured:
    kind: str                  # "integral" | "expression"
    name: str                  # factory name: <ir name>_<domain>  /  expression name
    itype: str                 # integral type as labelled by the generator ("expression" for expressions)
    entity: str                # "cell" | "facet" | "vertex" | "ridge"
    domain: str                # basix cell type name of the integration domain (integrals)
    obj_index: int             # which of the compiled objects it belongs to
    asts: dict = field(default_factory=dict)          # variant -> LNodes AST
    opt_calls: list = field(default_factory=list)     # [{"n_in":, "n_out":, "in": exported, "out": exported}] (variant "full")
    ir_enabled: list | None = None                    # informational only (the verdict uses the compiled struct)
    part: str = "full"
    npoints: int = 0
    scalar_type: str = "float64"


VARIANTS = ("full", "none", "sections", "loops", "licm")


def _variant_optimize(variant, real):
    import ffcx.codegeneration.lnodes as L  # noqa: PLC0415
    import ffcx.codegeneration.optimizer as O  # noqa: PLC0415

    def only_sections(code, rule):
        code = O.fuse_sections(code, "Coefficient")
        return O.fuse_sections(code, "Jacobian")

    def per_section(fn):
        def run(code, rule):
            code = list(code)
            for i, s in enumerate(code):
                if isinstance(s, L.Section):
                    code[i] = fn(s, rule)
            return code
        return run

    def loops(s, rule):
        return O.fuse_loops(s) if L.Annotation.fuse in s.annotations else s

    def licm(s, rule):
        return O.licm(s, rule) if L.Annotation.licm in s.annotations else s

    return {"full": real, "none": lambda code, rule: list(code), "sections": only_sections,
            "loops": per_section(loops), "licm": per_section(licm)}[variant]


def capture(objs, options: dict, variants=("full",), record_calls=False, jit: dict | None = None):
    """Run the real pipeline once with recording wrappers around the generators and the optimiser, then
    re-run the real generators once per additional optimiser variant on the recorded IR.

    jit = None: ffcx.compiler.compile_ufl_objects (no C compiler).
    jit = {"cache_dir": path, "cflags": [...]}: ffcx.codegeneration.jit.compile_forms / compile_expressions, so
          that the recorded ASTs are exactly those of the compiled module.
    -> (list[Captured], jitinfo | None)      jitinfo = {"compiled", "module", "so", "code", "kind"}
    """
    import ffcx.codegeneration.expression_generator as EG  # noqa: PLC0415
    import ffcx.codegeneration.integral_generator as IG  # noqa: PLC0415
    import ffcx.codegeneration.optimizer as O  # noqa: PLC0415
    import ffcx.compiler as FC  # noqa: PLC0415
    import ffcx.options  # noqa: PLC0415
    from ffcx.codegeneration.backend import FFCXBackend  # noqa: PLC0415

    opts = ffcx.options.get_options(dict(options))
    st = np.dtype(opts["scalar_type"]).name
    real_optimize = O.optimize
    if IG.optimize is not real_optimize:
        raise MachineryError("integral_generator.optimize is not optimizer.optimize - S4 wrapper out of date")
    real_gen, real_egen, real_cir = IG.IntegralGenerator.generate, EG.ExpressionGenerator.generate, FC.compute_ir
    caps: list[Captured] = []
    recorded: list = []          # (Captured, ir, domain)
    irs: list = []
    calls_now: list | None = None

    def exp(s):
        # the generators also put plain (empty) Python lists into the statement lists they hand to optimize()
        if isinstance(s, list | tuple):
            return {"kind": "PyList", "items": [exp(x) for x in s]}
        return astexport.export_stmt(s)

    def rec_optimize(code, rule):
        before = [exp(s) for s in code] if calls_now is not None else None   # BEFORE the call: licm mutates in place
        out = real_optimize(code, rule)
        if calls_now is not None:
            calls_now.append({"in": before, "out": [exp(s) for s in out]})
        return out

    def rec_gen(self, domain):
        nonlocal calls_now
        iir = self.ir
        cap = Captured("integral", f"{iir.expression.name}_{domain.name}", iir.expression.integral_type,
                       iir.expression.entity_type, domain.name, -1,
                       ir_enabled=[bool(b) for b in iir.enabled_coefficients], part=iir.part.name, scalar_type=st)
        calls_now = cap.opt_calls if record_calls else None
        try:
            ast = real_gen(self, domain)
        finally:
            calls_now = None
        cap.asts["full"] = ast
        caps.append(cap)
        recorded.append((cap, iir, domain))
        return ast

    def rec_egen(self):
        eir = self.ir
        (_, rule), = list(eir.expression.integrand.keys())
        cap = Captured("expression", eir.expression.name, "expression", eir.expression.entity_type, "", -1,
                       npoints=int(rule.points.shape[0]), scalar_type=st)
        ast = real_egen(self)
        cap.asts["full"] = ast
        caps.append(cap)
        recorded.append((cap, eir, None))
        return ast

    def rec_cir(*a, **kw):
        ir = real_cir(*a, **kw)
        irs.append(ir)
        return ir

    jitinfo = None
    IG.optimize, IG.IntegralGenerator.generate, EG.ExpressionGenerator.generate, FC.compute_ir = (
        rec_optimize, rec_gen, rec_egen, rec_cir)
    try:
        if jit is None:
            FC.compile_ufl_objects(list(objs), options=opts, namespace="s4")
        else:
            import ffcx.codegeneration.jit as J  # noqa: PLC0415

            is_expr = bool(objs) and isinstance(objs[0], tuple)
            fn = J.compile_expressions if is_expr else J.compile_forms
            compiled, module, code = fn(list(objs), options=dict(options), cache_dir=jit["cache_dir"],
                                        cffi_extra_compile_args=list(jit.get("cflags", ["-O0"])))
            jitinfo = {"compiled": compiled, "module": module, "so": module.__file__, "code": code,
                       "kind": "expr" if is_expr else "form"}
    finally:
        IG.optimize, IG.IntegralGenerator.generate, EG.ExpressionGenerator.generate, FC.compute_ir = (
            real_optimize, real_gen, real_egen, real_cir)
    if len(irs) != 1:
        raise MachineryError(f"compute_ir was called {len(irs)} times during one compilation")
    owner = {}
    for fi, f in enumerate(irs[0].forms):
        for names in f.integral_names.values():
            for n in names:
                owner[n] = fi
    enames = [e.expression.name for e in irs[0].expressions]
    for cap, xir, dom in recorded:
        cap.obj_index = owner.get(xir.expression.name, 0) if cap.kind == "integral" else enames.index(xir.expression.name)
    # the other optimiser variants, generated by the real generators from the same IR
    try:
        for cap, xir, dom in recorded:
            if cap.kind != "integral":
                continue
            for var in variants:
                if var == "full":
                    continue
                IG.optimize = _variant_optimize(var, real_optimize)
                cap.asts[var] = IG.IntegralGenerator(xir, FFCXBackend(xir, opts)).generate(dom)
    finally:
        IG.optimize = real_optimize
    return caps, jitinfo


# ------------------------------------------------------------------------------------------ extents
def _topology(cellname):
    import basix  # noqa: PLC0415

    return basix.topology(getattr(basix.CellType, cellname))


def entity_contract(cellname: str, itype: str, entity: str):
    """-> (extent of entity_local_index, extent of quadrature_permutation, valid values per slot)  [ufcx.h]."""
    top = _topology(cellname)
    tdim = len(top) - 1
    if entity == "cell":
        return 0, 0, [], []
    if entity == "facet":
        nent = len(top[tdim - 1])
    elif entity == "vertex":
        nent = len(top[0])
    elif entity == "ridge":
        nent = len(top[tdim - 2])
    else:
        raise MachineryError(f"unknown entity type {entity}")
    if itype == "interior_facet" or (itype == "expression" and entity == "facet"):
        # ufcx.h: permutations are passed for interior facets (two entries).  FFCx documents in
        # ir/elementtables.py that expressions tabulated at facet points are permuted as well (one entry).
        sizes = {len(f) for f in top[tdim - 1]}
        if len(sizes) != 1:
            raise MachineryError("interior facets of a cell with several facet types")
        nperm = {1: 1, 2: 2, 3: 6, 4: 8}[sizes.pop()]
        n = 2 if itype == "interior_facet" else 1
        return n, n, [list(range(nent))] * n, [list(range(nperm))] * n
    return 1, 0, [list(range(nent))], []


def _coord_nodes(domain):
    ce = domain.ufl_coordinate_element()
    (sub,) = set(ce.sub_elements)
    return int(sub.dim)


def form_extents(form, itype: str, entity: str, part: str, scalar_type: str) -> dict:
    """The memory contract of one kernel of `form`, from UFL + basix only."""
    import ufl  # noqa: PLC0415
    import ufl.algorithms  # noqa: PLC0415

    two = 2 if itype == "interior_facet" else 1
    args = sorted(form.arguments(), key=lambda a: (a.number(), a.part() or 0))
    adims = [int(a.ufl_function_space().ufl_element().dim) * two for a in args]
    if part == "diagonal" and len(adims) == 2:
        if adims[0] != adims[1]:
            raise MachineryError("diagonal part of a non-square form")
        adims = adims[:1]
    fd = ufl.algorithms.compute_form_data(
        form, do_apply_function_pullbacks=True, do_apply_integral_scaling=True, do_apply_geometry_lowering=True,
        preserve_geometry_types=(ufl.classes.Jacobian,), do_apply_restrictions=True,
        do_append_everywhere_integrals=False, complex_mode=scalar_type.startswith("complex"))
    woff, o = [], 0
    for cf in fd.reduced_coefficients:
        wdt = int(cf.ufl_function_space().ufl_element().dim) * two
        woff.append([o, o + wdt])
        o += wdt
    coff, oc = [], 0
    for cst in form.constants():
        sz = int(np.prod(cst.ufl_shape, dtype=int))
        coff.append([oc, oc + sz])
        oc += sz
    (domain,) = set(ufl.domain.extract_domains(form)) if len(set(ufl.domain.extract_domains(form))) == 1 else (None,)
    if domain is None:
        raise MachineryError("forms over several domains are outside the S4 corpus")
    cellname = domain.ufl_cell().cellname
    ne, nq, ve, vq = entity_contract(cellname, itype, entity)
    return {"ext": {"A": adims, "w": o, "c": oc, "coordinate_dofs": 3 * _coord_nodes(domain) * two,
                    "entity_local_index": ne, "quadrature_permutation": nq},
            "woff": woff, "coff": coff, "valid": {"e": ve, "q": vq}, "cell": cellname,
            "ncoeff": len(woff), "orig_pos": [int(i) for i in fd.original_coefficient_positions]}


def expr_extents(expr, points, entity: str) -> dict:
    import ufl  # noqa: PLC0415
    import ufl.algorithms  # noqa: PLC0415
    from ufl.algorithms.apply_algebra_lowering import apply_algebra_lowering  # noqa: PLC0415
    from ufl.algorithms.apply_derivatives import apply_derivatives  # noqa: PLC0415

    low = apply_derivatives(apply_algebra_lowering(expr))
    args = ufl.algorithms.extract_arguments(low)
    adims = [int(a.ufl_function_space().ufl_element().dim) for a in args]
    comps = int(np.prod(expr.ufl_shape, dtype=int))
    npts = int(np.asarray(points).shape[0])
    woff, o = [], 0
    for cf in ufl.algorithms.extract_coefficients(low):
        wdt = int(cf.ufl_function_space().ufl_element().dim)
        woff.append([o, o + wdt])
        o += wdt
    coff, oc = [], 0
    for cst in ufl.algorithms.analysis.extract_constants(expr):
        sz = int(np.prod(cst.ufl_shape, dtype=int))
        coff.append([oc, oc + sz])
        oc += sz
    doms = ufl.domain.extract_domains(expr)
    domain = max(doms, key=lambda d: d.topological_dimension) if doms else None
    if domain is None:
        raise MachineryError("spatially constant expressions are outside the S4 corpus")
    cellname = domain.ufl_cell().cellname
    ne, nq, ve, vq = entity_contract(cellname, "expression", entity)
    return {"ext": {"A": [npts, comps] + adims, "w": o, "c": oc, "coordinate_dofs": 3 * _coord_nodes(domain),
                    "entity_local_index": ne, "quadrature_permutation": nq},
            "woff": woff, "coff": coff, "valid": {"e": ve, "q": vq}, "cell": cellname, "ncoeff": len(woff), "orig_pos": []}


# ------------------------------------------------------------------------------------------- planes
def planes(ext: dict, seed: int, n: int = 3) -> list[dict]:
    """Seeded input data in Z_p.  Plane 2k+1 has A0 = 0, plane 2k+2 the same inputs with random A0 (k < n);
    `w2` is an independent second coefficient vector (for DisabledIrrelevant)."""
    out = []
    na = int(np.prod(ext["A"], dtype=int)) if ext["A"] else 1
    for k in range(n):
        r = random.Random(f"s4-{seed}-{k}")
        base = {"w": [r.randrange(1, P) for _ in range(ext["w"])],
                "w2": [r.randrange(1, P) for _ in range(ext["w"])],
                "c": [r.randrange(1, P) for _ in range(ext["c"])],
                "x": [r.randrange(1, P) for _ in range(ext["coordinate_dofs"])]}
        out.append(dict(base, A0=[0] * na))
        out.append(dict(base, A0=[r.randrange(0, P) for _ in range(na)]))
    return out


def kernel_json(cap: Captured, variant: str, contract: dict, enabled: list[bool], seed: int,
                inimode: str = "all", extra=None, runplanes=(1,), nplanes: int = 3) -> dict:
    code, decl_texts = flatten(cap.asts[variant], cap.scalar_type)
    k = {"name": cap.name if variant == "full" else f"{cap.name}@{variant}", "itype": cap.itype, "entity": cap.entity,
         "cell": contract["cell"], "ext": contract["ext"], "enabled": [bool(b) for b in enabled],
         "woff": contract["woff"], "coff": contract["coff"], "valid": contract["valid"], "inimode": inimode,
         "extra": list(extra or []), "runplanes": list(runplanes), "code": code,
         "planes": planes(contract["ext"], seed, nplanes), "steps": count_steps(code), "decls": decl_texts}
    return k


def deepcopy_ast(ast):
    return copy.deepcopy(ast)
