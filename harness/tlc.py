"""Run TLC and read what it says.  Nothing here decides a property; it only reports TLC's verdict."""

from __future__ import annotations

import os
import re
import shutil
import subprocess
import time
from dataclasses import dataclass, field
from pathlib import Path

from .common import NCPU, SPEC, MachineryError, scratch

JAR = "/opt/veriftools/tla/tla2tools.jar"
DEPS = "/opt/veriftools/tla/CommunityModules-deps.jar"


@dataclass
class TlcResult:
    ok: bool                      # finished with no error reported
    generated: int = 0
    distinct: int = 0
    depth: int = 0
    violated: str | None = None   # invariant / property name, "deadlock", "assumption", "eval-error"
    out: str = ""
    wall_s: float = 0.0
    workdir: Path | None = None
    printed: list[str] = field(default_factory=list)   # PrintT lines
    coverage: dict = field(default_factory=dict)        # action -> (distinct, taken)
    error_trace: list[str] = field(default_factory=list)

    def summary(self) -> dict:
        return {"generated": self.generated, "distinct": self.distinct, "depth": self.depth,
                "violated": self.violated, "wall_s": round(self.wall_s, 2)}


def stage(name: str, modules: list[str] | None = None, extra_files: dict[str, str] | None = None) -> Path:
    """Copy spec modules (all of spec/*.tla by default) into a fresh scratch dir."""
    d = scratch("tlc") / f"{name}-{os.getpid()}-{int(time.time() * 1e6) % 10**9}"
    d.mkdir(parents=True)
    for f in SPEC.glob("*.tla"):
        if modules is None or f.stem in modules:
            shutil.copy(f, d / f.name)
    for fn, text in (extra_files or {}).items():
        (d / fn).write_text(text)
    return d


_RE_STATES = re.compile(r"(\d+) states generated, (\d+) distinct states found")
_RE_DEPTH = re.compile(r"The depth of the complete state graph search is (\d+)")
_RE_INV = re.compile(r"Invariant (\S+) is violated")
_RE_PROP = re.compile(r"(?:Action|Temporal) propert(?:y|ies) (\S*) ?(?:is|were) violated")
_RE_COV = re.compile(r"^<(\w+) line \d+, col \d+ to line \d+, col \d+ of module (\w+)>: (\d+):(\d+)", re.M)


def run(workdir: Path, module: str, cfg_text: str | None = None, cfg: str | None = None,
        workers: int | str = "auto", simulate: str | None = None, depth: int | None = None,
        seed: int | None = None, coverage: bool = False, timeout: int = 1200,
        deadlock: bool = False, extra: list[str] | None = None, env: dict | None = None,
        java_opts: list[str] | None = None, dfs_queue: bool = False, cont: bool = False,
        heap: str = "4g") -> TlcResult:
    """Run TLC on `module`.tla in workdir.  cfg_text is written to <module>.cfg unless cfg names a file."""
    if cfg_text is not None:
        cfg = f"{module}_run.cfg"
        (workdir / cfg).write_text(cfg_text)
    if cfg is None:
        cfg = f"{module}.cfg"
    meta = workdir / "meta"
    jtmp = workdir / "jtmp"                      # TLC unpacks its module jar into java.io.tmpdir on every start
    jtmp.mkdir(exist_ok=True)
    cmd = ["java", "-XX:+UseParallelGC", f"-Xmx{heap}", "-Xss64m", f"-Djava.io.tmpdir={jtmp}"]
    if dfs_queue:
        cmd.append("-Dtlc2.tool.queue.IStateQueue=StateDeque")
    cmd += list(java_opts or [])
    cmd += ["-cp", f"{JAR}:{DEPS}", "tlc2.TLC", "-config", cfg, "-metadir", str(meta),
            "-noGenerateSpecTE"]
    w = NCPU if workers == "auto" else workers
    cmd += ["-workers", str(w)]
    if not deadlock:
        cmd.append("-deadlock")          # -deadlock *disables* deadlock checking
    if simulate is not None:
        cmd += ["-simulate", simulate]
    if depth is not None:
        cmd += ["-depth", str(depth)]
    if seed is not None:
        cmd += ["-seed", str(seed)]
    if coverage:
        cmd += ["-coverage", "1"]
    if cont:
        cmd.append("-continue")
    cmd += list(extra or [])
    cmd.append(f"{module}.tla")
    e = dict(os.environ)
    e.pop("JAVA_TOOL_OPTIONS", None)
    if env:
        e.update(env)
    t0 = time.time()
    try:
        p = subprocess.run(cmd, cwd=workdir, capture_output=True, text=True, timeout=timeout, env=e)
    except subprocess.TimeoutExpired as ex:
        raise MachineryError(f"TLC timed out after {timeout}s on {module}") from ex
    out = p.stdout + p.stderr
    r = TlcResult(ok=False, out=out, wall_s=time.time() - t0, workdir=workdir)
    for m in _RE_STATES.finditer(out):
        r.generated, r.distinct = int(m.group(1)), int(m.group(2))
    m = _RE_DEPTH.search(out)
    if m:
        r.depth = int(m.group(1))
    m = _RE_INV.search(out)
    if m:
        r.violated = m.group(1)
    elif _RE_PROP.search(out):
        r.violated = _RE_PROP.search(out).group(1) or "temporal-property"
    elif "Deadlock reached" in out:
        r.violated = "deadlock"
    elif "Assumption" in out and "is false" in out:
        r.violated = "assumption"
    elif "Temporal properties were violated" in out:
        r.violated = "temporal-property"
    r.printed = _printed_values(out)
    if coverage:
        for m in _RE_COV.finditer(out):
            r.coverage[m.group(1)] = (int(m.group(4)), int(m.group(3)))
    if r.violated:
        r.error_trace = _grab_trace(out)
    finished = "Model checking completed. No error has been found." in out or (
        simulate is not None and r.violated is None and "Error:" not in out)
    r.ok = bool(finished) and r.violated is None
    if not r.ok and r.violated is None:
        # TLC itself failed: parse error, evaluation error, overflow ...
        if "Error:" in out or p.returncode != 0:
            r.violated = "eval-error"
    return r


def _printed_values(out: str) -> list[str]:
    """PrintT output: values starting with << at column 0, possibly spanning several lines."""
    vals, buf, depth = [], [], 0
    for line in out.splitlines():
        if not buf:
            if not line.startswith("<<"):
                continue
        buf.append(line.strip())
        depth += _bracket_delta(line)
        if depth <= 0:
            vals.append(" ".join(buf))
            buf, depth = [], 0
    return vals


def _bracket_delta(line: str) -> int:
    d, i, n, instr = 0, 0, len(line), False
    while i < n:
        ch = line[i]
        if instr:
            if ch == "\\":
                i += 1
            elif ch == '"':
                instr = False
        elif ch == '"':
            instr = True
        elif ch in "<([{" and (ch != "<" or line.startswith("<<", i)):
            d += 1
            if ch == "<":
                i += 1
        elif ch in ">)]}" and (ch != ">" or line.startswith(">>", i)):
            d -= 1
            if ch == ">":
                i += 1
        i += 1
    return d


def _grab_trace(out: str) -> list[str]:
    lines, keep = [], False
    for line in out.splitlines():
        if line.startswith("Error: The behavior up to this point is") or line.startswith("Error: The following behavior"):
            keep = True
            continue
        if keep:
            if re.match(r"^\d+ states generated", line) or line.startswith("Finished"):
                break
            lines.append(line)
    return lines


def must_ok(r: TlcResult, what: str) -> TlcResult:
    if r.violated == "eval-error" or (not r.ok and r.violated is None):
        tail = "\n".join(r.out.splitlines()[-40:])
        raise MachineryError(f"TLC failed ({what}):\n{tail}")
    return r


# ---------------------------------------------------------------------------
# TLA+ value printing / parsing (data exchange with generated modules)


def tla(v) -> str:
    """Python value -> TLA+ literal.  dict->record (str keys) ; list/tuple->sequence; set->set."""
    if isinstance(v, bool):
        return "TRUE" if v else "FALSE"
    if isinstance(v, int):
        return str(v)
    if isinstance(v, str):
        return '"' + v.replace("\\", "\\\\").replace('"', '\\"') + '"'
    if isinstance(v, dict):
        if not v:
            return "<<>>"
        if all(isinstance(k, str) and re.fullmatch(r"[A-Za-z_][A-Za-z0-9_]*", k) for k in v):
            return "[" + ", ".join(f"{k} |-> {tla(x)}" for k, x in v.items()) + "]"
        return "(" + " @@ ".join(f"({tla(k)} :> {tla(x)})" for k, x in v.items()) + ")"
    if isinstance(v, (list, tuple)):
        return "<<" + ", ".join(tla(x) for x in v) + ">>"
    if isinstance(v, (set, frozenset)):
        return "{" + ", ".join(tla(x) for x in sorted(v, key=repr)) + "}"
    if v is None:
        return '"null"'
    raise TypeError(f"cannot print {type(v)} as TLA+")


def parse_tla(s: str):
    """Parse a TLA+ value as printed by TLC (sequences, sets, records, functions, strings, ints, bools)."""
    pos = 0
    n = len(s)

    def ws():
        nonlocal pos
        while pos < n and s[pos] in " \t\r\n":
            pos += 1

    def val():
        nonlocal pos
        ws()
        if s.startswith("<<", pos):
            pos += 2
            items = []
            ws()
            if s.startswith(">>", pos):
                pos += 2
                return items
            while True:
                items.append(val())
                ws()
                if s.startswith(">>", pos):
                    pos += 2
                    return items
                assert s[pos] == ",", s[pos:pos + 20]
                pos += 1
        if s[pos] == "{":
            pos += 1
            items = []
            ws()
            if s[pos] == "}":
                pos += 1
                return set()
            while True:
                x = val()
                items.append(_freeze(x))
                ws()
                if s[pos] == "}":
                    pos += 1
                    return set(items)
                assert s[pos] == ",", s[pos:pos + 20]
                pos += 1
        if s[pos] == "[":
            pos += 1
            d = {}
            while True:
                ws()
                m = re.compile(r"[A-Za-z_][A-Za-z0-9_]*").match(s, pos)
                k = m.group(0)
                pos = m.end()
                ws()
                assert s.startswith("|->", pos), s[pos:pos + 20]
                pos += 3
                d[k] = val()
                ws()
                if s[pos] == "]":
                    pos += 1
                    return d
                assert s[pos] == ",", s[pos:pos + 20]
                pos += 1
        if s[pos] == "(":
            # function printed as (a :> x @@ b :> y)
            pos += 1
            d = {}
            while True:
                k = val()
                ws()
                assert s.startswith(":>", pos), s[pos:pos + 20]
                pos += 2
                d[_freeze(k)] = val()
                ws()
                if s[pos] == ")":
                    pos += 1
                    return d
                assert s.startswith("@@", pos), s[pos:pos + 20]
                pos += 2
        if s[pos] == '"':
            j = pos + 1
            buf = []
            while s[j] != '"':
                if s[j] == "\\":
                    j += 1
                buf.append(s[j])
                j += 1
            pos = j + 1
            return "".join(buf)
        m = re.compile(r"-?\d+").match(s, pos)
        if m:
            pos = m.end()
            return int(m.group(0))
        m = re.compile(r"[A-Za-z_][A-Za-z0-9_]*").match(s, pos)
        if m:
            pos = m.end()
            w = m.group(0)
            return {"TRUE": True, "FALSE": False}.get(w, w)
        raise ValueError(f"cannot parse TLA+ value at {s[pos:pos + 30]!r}")

    v = val()
    return v


def _freeze(x):
    if isinstance(x, list):
        return tuple(_freeze(i) for i in x)
    if isinstance(x, dict):
        return tuple(sorted((k, _freeze(v)) for k, v in x.items()))
    if isinstance(x, set):
        return frozenset(_freeze(i) for i in x)
    return x
