"""./check <Cnn> [--tier quick|thorough] [--replay PATH]"""

from __future__ import annotations

import argparse
import importlib
import os
import sys
import traceback

from .common import Check, MachineryError


def main() -> int:
    ap = argparse.ArgumentParser()
    ap.add_argument("pid")
    ap.add_argument("--tier", default=os.environ.get("VERIF_TIER", "quick"), choices=["quick", "thorough"])
    ap.add_argument("--replay", default=None)
    ap.add_argument("--seed", type=int, default=int(os.environ.get("VERIF_SEED", "0") or 0))
    a = ap.parse_args()
    pid = a.pid.upper()
    try:
        mod = importlib.import_module(f"harness.checks.{pid.lower()}")
    except ModuleNotFoundError as e:
        print(f"no check for {pid}: {e}", file=sys.stderr)
        return 2
    chk = Check(pid, a.tier, a.seed, getattr(mod, "LEVEL", "model_checking"))
    try:
        if a.replay:
            mod.replay(chk, a.replay)
        else:
            mod.run(chk)
        return chk.finish()
    except MachineryError as e:
        print(f"[{pid}] MACHINERY FAILURE: {e}", file=sys.stderr, flush=True)
        return 2
    except Exception:
        traceback.print_exc()
        print(f"[{pid}] MACHINERY FAILURE (unexpected exception)", file=sys.stderr, flush=True)
        return 2


if __name__ == "__main__":
    sys.exit(main())
