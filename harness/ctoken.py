"""Maximal-munch tokeniser for the C text emitted by ffcx (C11 6.4 lexical elements, translation phase 3).

tokenize(text) -> list of (type, text):
    "kw"   keyword                 "id"   identifier
    "int"  integer constant        "flt"  floating constant
    "op"   punctuator              "bad"  a preprocessing token that is no valid C token
Comments and white space separate tokens and are dropped.  Punctuators are matched longest-first,
so `--x` is `--`,`x` (one decrement token), exactly as a C compiler reads it; numbers are scanned as
pp-numbers (6.4.8: a sign belongs to the number only directly after e/E/p/P) and then classified.
"""

from __future__ import annotations

import re

KEYWORDS = {
    "auto", "break", "case", "char", "const", "continue", "default", "do", "double", "else", "enum",
    "extern", "float", "for", "goto", "if", "inline", "int", "long", "register", "restrict", "return",
    "short", "signed", "sizeof", "static", "struct", "switch", "typedef", "union", "unsigned", "void",
    "volatile", "while", "_Bool", "_Complex", "_Imaginary", "bool",
}

PUNCT = sorted([
    "[", "]", "(", ")", "{", "}", ".", "->", "++", "--", "&", "*", "+", "-", "~", "!", "/", "%", "<<", ">>",
    "<", ">", "<=", ">=", "==", "!=", "^", "|", "&&", "||", "?", ":", ";", "...", "=", "*=", "/=", "%=",
    "+=", "-=", "<<=", ">>=", "&=", "^=", "|=", ",", "#", "##",
], key=len, reverse=True)

_ID = re.compile(r"[A-Za-z_][A-Za-z0-9_]*")
_PPNUM = re.compile(r"\.?[0-9](?:[eEpP][+-]|[0-9A-Za-z_.])*")
_INT = re.compile(r"(?:0[xX][0-9a-fA-F]+|0[0-7]*|[1-9][0-9]*)(?:[uU](?:ll|LL|l|L)?|(?:ll|LL|l|L)[uU]?)?\Z")
_FLT = re.compile(r"(?:(?:[0-9]*\.[0-9]+|[0-9]+\.)(?:[eE][+-]?[0-9]+)?|[0-9]+[eE][+-]?[0-9]+)[fFlL]?\Z")
_HEXFLT = re.compile(r"0[xX](?:[0-9a-fA-F]*\.[0-9a-fA-F]+|[0-9a-fA-F]+\.?)[pP][+-]?[0-9]+[fFlL]?\Z")


def tokenize(text: str) -> list[tuple[str, str]]:
    toks: list[tuple[str, str]] = []
    i, n = 0, len(text)
    while i < n:
        c = text[i]
        if c in " \t\r\n\f\v":
            i += 1
            continue
        if text.startswith("//", i):
            j = text.find("\n", i)
            i = n if j < 0 else j
            continue
        if text.startswith("/*", i):
            j = text.find("*/", i + 2)
            if j < 0:
                toks.append(("bad", text[i:]))
                break
            i = j + 2
            continue
        m = _ID.match(text, i)
        if m:
            w = m.group(0)
            toks.append(("kw" if w in KEYWORDS else "id", w))
            i = m.end()
            continue
        m = _PPNUM.match(text, i)
        if m:
            w = m.group(0)
            if _INT.match(w):
                toks.append(("int", w))
            elif _FLT.match(w) or _HEXFLT.match(w):
                toks.append(("flt", w))
            else:
                toks.append(("bad", w))
            i = m.end()
            continue
        for p in PUNCT:
            if text.startswith(p, i):
                toks.append(("op", p))
                i += len(p)
                break
        else:
            toks.append(("bad", c))
            i += 1
    return toks


def int_value(tok: str) -> int:
    t = tok.rstrip("uUlL")
    if t.lower().startswith("0x"):
        return int(t, 16)
    if len(t) > 1 and t[0] == "0":
        return int(t, 8)
    return int(t)


def float_fraction(tok: str):
    """Exact value of a decimal floating constant as a Fraction (suffix dropped)."""
    from fractions import Fraction  # noqa: PLC0415

    t = tok.rstrip("fFlL")
    if t.lower().startswith("0x"):
        return Fraction(float.fromhex(t))
    return Fraction(t)
