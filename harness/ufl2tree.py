"""UFL integrand (physical space: algebra lowered, derivatives applied, indices expanded)
-> the integrand tree Fem.tla evaluates.  A plain structural walk: no simplification."""

from __future__ import annotations

from fractions import Fraction

import numpy as np
import ufl
import ufl.classes as uc

from .basisx import OutOfModel, fr


def _num(x) -> dict:
    if isinstance(x, complex):
        return {"t": "num", "re": fr(_exact(x.real)), "im": fr(_exact(x.imag))}
    return {"t": "num", "re": fr(_exact(x)), "im": [0, 1]}


def _exact(x) -> Fraction:
    if isinstance(x, (int, np.integer)):
        return Fraction(int(x))
    f = Fraction(float(x))
    if f.denominator > (1 << 20) or abs(f.numerator) > (1 << 28):
        g = f.limit_denominator(1 << 12)
        if float(g) == float(x):        # e.g. 1/3 written as a Python float: exactly that double
            return g
        raise OutOfModel(f"literal {x!r} is not exactly representable in the model")
    return f


def _flat(idx, shape):
    c = 0
    for i, n in zip(idx, shape):
        c = c * n + i
    return c


class Treeifier:
    def __init__(self, coef_index, const_index, arg_pos=None, complex_mode=False):
        self.arg_pos = arg_pos or {}
        self.complex_mode = complex_mode
        self.coef_index = coef_index      # ufl Coefficient -> position in the kernel's w
        self.const_index = const_index    # ufl Constant -> position in c
        self.aleaves, self.cleaves = [], []
        self._akey, self._ckey = {}, {}
        self.uses_normal = False
        self.has_cond = False
        self.geos = []             # geometric quantities used: [name, restriction]
        self.ftabs = []            # transcendental function nodes: {"fn": name, "args": [subtree, ...]}
        self.max_deriv = 0
        self.nodes = 0

    # leaves -----------------------------------------------------------
    def _arg(self, n, c, d, r):
        k = (n, c, tuple(d), r)
        if k not in self._akey:
            self.aleaves.append({"n": n, "c": c, "d": list(d), "r": r})
            self._akey[k] = len(self.aleaves)
        self.max_deriv = max(self.max_deriv, len(d))
        return {"t": "al", "id": self._akey[k]}

    def _coef(self, kk, c, d, r):
        k = (kk, c, tuple(d), r)
        if k not in self._ckey:
            self.cleaves.append({"k": kk, "c": c, "d": list(d), "r": r})
            self._ckey[k] = len(self.cleaves)
        self.max_deriv = max(self.max_deriv, len(d))
        return {"t": "cl", "id": self._ckey[k]}

    def _terminal(self, e, idx):
        """e is (possibly restricted / differentiated) terminal, idx the fixed multi-index."""
        r, nd = "", 0
        idx = list(idx)
        while True:
            if isinstance(e, uc.Indexed):
                # indexing inside a restriction / derivative: (f[i])('+'), grad(f[i])[j] -> f's indices first
                base, mi = e.ufl_operands
                inner = []
                for i in mi.indices():
                    if not isinstance(i, uc.FixedIndex):
                        raise OutOfModel("free index left after expand_indices")
                    inner.append(int(i))
                idx = inner + idx
                e = base
            elif isinstance(e, uc.PositiveRestricted):
                r, e = "+", e.ufl_operands[0]
            elif isinstance(e, uc.NegativeRestricted):
                r, e = "-", e.ufl_operands[0]
            elif isinstance(e, uc.Grad):
                nd, e = nd + 1, e.ufl_operands[0]
            elif isinstance(e, (uc.ReferenceGrad, uc.ReferenceValue, uc.Div, uc.Curl)):
                raise OutOfModel(f"unexpected {type(e).__name__} after physical-space lowering")
            else:
                break
        vidx, didx = idx[:len(idx) - nd], idx[len(idx) - nd:]
        c = _flat(vidx, e.ufl_shape)
        if isinstance(e, uc.Argument):
            return self._arg(self.arg_pos.get(e.number(), e.number()), c, didx, r)
        if isinstance(e, uc.Coefficient):
            return self._coef(self.coef_index[e], c, didx, r)
        if isinstance(e, uc.Constant):
            if nd:
                return _num(0)
            return {"t": "const", "k": self.const_index[e], "c": c}
        if isinstance(e, uc.SpatialCoordinate):
            if nd:
                raise OutOfModel("derivative of x should have been evaluated by UFL")
            return {"t": "x", "c": c, "r": r}
        if isinstance(e, uc.FacetNormal):
            if nd:
                raise OutOfModel("derivative of the facet normal")
            self.uses_normal = True
            return {"t": "n", "c": c, "r": r}
        if isinstance(e, uc.Jacobian) and not nd:
            return {"t": "J", "c": idx[0], "k": idx[1], "r": r}
        if isinstance(e, uc.JacobianInverse) and not nd:
            return {"t": "K", "c": idx[0], "k": idx[1], "r": r}
        if isinstance(e, uc.JacobianDeterminant) and not nd:
            return {"t": "detJ", "r": r}
        geo = {uc.CellVolume: "volume", uc.Circumradius: "circumradius", uc.CellDiameter: "diameter",
               uc.FacetArea: "facetarea", uc.MinCellEdgeLength: "minedge", uc.MaxCellEdgeLength: "maxedge"}
        for cls, name in geo.items():
            if isinstance(e, cls):
                if nd:
                    return _num(0)
                if [name, r] not in self.geos:
                    self.geos.append([name, r])
                return {"t": "geo", "g": name, "r": r}
        raise OutOfModel(f"terminal {type(e).__name__} is outside the model")

    @staticmethod
    def _mathfn(e):
        """(name, operands) of a transcendental function node (evaluated in floating point by the harness on
        exact rational arguments and handed to Fem.tla as a per-point table), else None."""
        import ufl.mathfunctions as mf
        simple = {mf.Exp: "exp", mf.Ln: "ln", mf.Cos: "cos", mf.Sin: "sin", mf.Tan: "tan", mf.Cosh: "cosh",
                  mf.Sinh: "sinh", mf.Tanh: "tanh", mf.Acos: "acos", mf.Asin: "asin", mf.Atan: "atan", mf.Erf: "erf"}
        for cls, name in simple.items():
            if type(e) is cls:
                return name, e.ufl_operands
        if isinstance(e, mf.Atan2):
            return "atan2", e.ufl_operands
        for cls, name in ((mf.BesselJ, "bessel_j"), (mf.BesselY, "bessel_y"), (mf.BesselI, "bessel_i"), (mf.BesselK, "bessel_k")):
            if isinstance(e, cls):
                return name, e.ufl_operands
        if isinstance(e, uc.Power):
            p = e.ufl_operands[1]
            if isinstance(p, uc.ComplexValue) and complex(p.value()).imag != 0:
                return "pow", e.ufl_operands
            if isinstance(p, (uc.IntValue, uc.FloatValue, uc.ScalarValue)) and float(p.value()) != int(p.value()) \
                    and float(p.value()) != 0.5:
                return "pow", e.ufl_operands
        return None

    # operators --------------------------------------------------------
    def cond(self, e):
        self.has_cond = True
        ops = {uc.LT: "lt", uc.LE: "le", uc.GT: "gt", uc.GE: "ge", uc.EQ: "eq", uc.NE: "ne"}
        for cls, name in ops.items():
            if isinstance(e, cls):
                return {"t": name, "a": self.tree(e.ufl_operands[0]), "b": self.tree(e.ufl_operands[1])}
        if isinstance(e, uc.AndCondition):
            return {"t": "and", "a": self.cond(e.ufl_operands[0]), "b": self.cond(e.ufl_operands[1])}
        if isinstance(e, uc.OrCondition):
            return {"t": "or", "a": self.cond(e.ufl_operands[0]), "b": self.cond(e.ufl_operands[1])}
        if isinstance(e, uc.NotCondition):
            return {"t": "not", "a": self.cond(e.ufl_operands[0])}
        raise OutOfModel(f"condition {type(e).__name__}")

    def tree(self, e):
        self.nodes += 1
        fn = self._mathfn(e)
        if fn is None and self.complex_mode and isinstance(e, uc.Sqrt):
            fn = ("sqrt", e.ufl_operands)            # complex square root: libm, not the exact perfect-square node
        if fn is not None:
            name, operands = fn
            args = [self.tree(o) for o in operands]
            self.ftabs.append({"fn": name, "args": args})
            return {"t": "ftab", "id": len(self.ftabs)}
        if isinstance(e, uc.Zero):
            return _num(0)
        if isinstance(e, uc.ComplexValue):
            return _num(complex(e))
        if isinstance(e, (uc.IntValue, uc.FloatValue, uc.ScalarValue)):
            return _num(e.value())
        if isinstance(e, uc.Sum):
            return {"t": "sum", "a": [self.tree(o) for o in e.ufl_operands]}
        if isinstance(e, uc.Product):
            return {"t": "prod", "a": [self.tree(o) for o in e.ufl_operands]}
        if isinstance(e, uc.Division):
            return {"t": "div", "a": self.tree(e.ufl_operands[0]), "b": self.tree(e.ufl_operands[1])}
        if isinstance(e, uc.Power):
            b, p = e.ufl_operands
            if isinstance(p, (uc.IntValue, uc.FloatValue, uc.ScalarValue)):
                pv = p.value()
                if float(pv) == int(pv):
                    return {"t": "pow", "a": self.tree(b), "e": int(pv)}
                if float(pv) == 0.5:
                    return {"t": "sqrt", "a": self.tree(b)}
            raise OutOfModel("non-integer power")
        if isinstance(e, (uc.Sqrt, uc.Abs)):
            self.has_cond = True          # needs the scan for irrational / knife-edge values
        if isinstance(e, uc.Sqrt):
            return {"t": "sqrt", "a": self.tree(e.ufl_operands[0])}
        if isinstance(e, uc.Abs):
            return {"t": "abs", "a": self.tree(e.ufl_operands[0])}
        if isinstance(e, uc.Conj):
            return {"t": "conj", "a": self.tree(e.ufl_operands[0])}
        if isinstance(e, uc.Real):
            return {"t": "real", "a": self.tree(e.ufl_operands[0])}
        if isinstance(e, uc.Imag):
            return {"t": "imag", "a": self.tree(e.ufl_operands[0])}
        if isinstance(e, uc.Conditional):
            c, a, b = e.ufl_operands
            return {"t": "cond", "c": self.cond(c), "a": self.tree(a), "b": self.tree(b)}
        if isinstance(e, uc.MaxValue):
            return {"t": "max", "a": self.tree(e.ufl_operands[0]), "b": self.tree(e.ufl_operands[1])}
        if isinstance(e, uc.MinValue):
            return {"t": "min", "a": self.tree(e.ufl_operands[0]), "b": self.tree(e.ufl_operands[1])}
        if isinstance(e, uc.Indexed):
            base, mi = e.ufl_operands
            idx = []
            for i in mi.indices():
                if not isinstance(i, uc.FixedIndex):
                    raise OutOfModel("free index left after expand_indices")
                idx.append(int(i))
            return self._terminal(base, idx)
        if isinstance(e, uc.Restricted) and not isinstance(
                e.ufl_operands[0], (uc.Indexed, uc.Grad, uc.Restricted)) and not e.ufl_operands[0]._ufl_is_terminal_:
            raise OutOfModel("restriction of a compound expression (should have been propagated by UFL)")
        if isinstance(e, (uc.Restricted, uc.Grad)) or e._ufl_is_terminal_:
            return self._terminal(e, [])
        raise OutOfModel(f"operator {type(e).__name__} is outside the model")


def physical_form_data(form, complex_mode: bool):
    """UFL's own pre-processing, stopping before anything reference-space: the oracle's view of the form."""
    return ufl.algorithms.compute_form_data(
        form,
        do_apply_function_pullbacks=False,
        do_apply_integral_scaling=False,
        do_apply_geometry_lowering=False,
        do_apply_restrictions=True,
        do_append_everywhere_integrals=False,
        complex_mode=complex_mode,
    )


def lower_integrand(integrand, complex_mode: bool):
    from ufl.algorithms.expand_indices import expand_indices
    from ufl.algorithms.remove_complex_nodes import remove_complex_nodes

    e = expand_indices(integrand)
    if not complex_mode:
        e = remove_complex_nodes(e)
    return e
