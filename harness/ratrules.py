"""Exact rational quadrature rules (inputs to Fem.tla; each is checked by TLC against the closed-form
monomial integrals in RuleCheck before use, so a wrong rule is a machinery failure, not a verdict).

interval: closed Newton-Cotes; quadrilateral/hexahedron: tensor products;
triangle/tetrahedron: Duffy-collapsed tensor products; prism: triangle x interval.
"""

from __future__ import annotations

from fractions import Fraction as Fr
from functools import lru_cache


@lru_cache(None)
def newton_cotes(n: int):
    """n+1 equispaced points on [0,1]; exact for degree n (n odd) or n+1 (n even)."""
    if n == 0:
        return [Fr(1, 2)], [Fr(1)]
    pts = [Fr(i, n) for i in range(n + 1)]
    wts = []
    for i in range(n + 1):
        # integrate the Lagrange polynomial L_i exactly
        poly = [Fr(1)]
        den = Fr(1)
        for j in range(n + 1):
            if j == i:
                continue
            poly = [Fr(0)] + poly                                  # * x
            for k in range(len(poly) - 1):
                poly[k] -= pts[j] * poly[k + 1]
            den *= pts[i] - pts[j]
        wts.append(sum(c / (k + 1) for k, c in enumerate(poly)) / den)
    return pts, wts


def interval(deg: int):
    n = max(1, deg - 1 if deg % 2 == 1 else deg)
    if deg <= 1:
        n = 1
    return newton_cotes(n)


def rule(cell: str, deg: int):
    """(points, weights) exact for total degree `deg` (per-direction degree on hypercubes)."""
    deg = max(deg, 0)
    if cell == "vertex":
        return [[]], [Fr(1)]
    if cell == "interval":
        p, w = interval(deg)
        return [[x] for x in p], list(w)
    if cell == "quadrilateral":
        p, w = interval(deg)
        return [[x, y] for x in p for y in p], [a * b for a in w for b in w]
    if cell == "hexahedron":
        p, w = interval(deg)
        return ([[x, y, z] for x in p for y in p for z in p],
                [a * b * c for a in w for b in w for c in w])
    if cell == "triangle" and deg <= 1:
        return [[Fr(1, 3), Fr(1, 3)]], [Fr(1, 2)]
    if cell == "triangle" and deg == 2:
        return [[Fr(1, 6), Fr(1, 6)], [Fr(2, 3), Fr(1, 6)], [Fr(1, 6), Fr(2, 3)]], [Fr(1, 6)] * 3
    if cell == "triangle" and deg == 3:
        return ([[Fr(1, 3), Fr(1, 3)], [Fr(1, 5), Fr(1, 5)], [Fr(3, 5), Fr(1, 5)], [Fr(1, 5), Fr(3, 5)]],
                [Fr(-27, 96), Fr(25, 96), Fr(25, 96), Fr(25, 96)])
    if cell == "tetrahedron" and deg <= 1:
        return [[Fr(1, 4)] * 3], [Fr(1, 6)]
    if cell == "tetrahedron" and deg <= 3:
        return ([[Fr(1, 4)] * 3, [Fr(1, 6), Fr(1, 6), Fr(1, 6)], [Fr(1, 2), Fr(1, 6), Fr(1, 6)],
                 [Fr(1, 6), Fr(1, 2), Fr(1, 6)], [Fr(1, 6), Fr(1, 6), Fr(1, 2)]],
                [Fr(-2, 15), Fr(3, 40), Fr(3, 40), Fr(3, 40), Fr(3, 40)])
    if cell == "triangle":
        pu, wu = interval(deg + 1)
        pv, wv = interval(deg)
        P, W = [], []
        for u, a in zip(pu, wu):
            for v, b in zip(pv, wv):
                w_ = a * b * (1 - u)
                if w_ != 0:
                    P.append([u, v * (1 - u)])
                    W.append(w_)
        return _merge(P, W)
    if cell == "tetrahedron":
        pu, wu = interval(deg + 2)
        pv, wv = interval(deg + 1)
        pw, ww = interval(deg)
        P, W = [], []
        for u, a in zip(pu, wu):
            for v, b in zip(pv, wv):
                for t, c in zip(pw, ww):
                    w_ = a * b * c * (1 - u) ** 2 * (1 - v)
                    if w_ != 0:
                        P.append([u, v * (1 - u), t * (1 - u) * (1 - v)])
                        W.append(w_)
        return _merge(P, W)
    if cell == "prism":
        pt, wt = rule("triangle", deg)
        pz, wz = interval(deg)
        return [[x, y, z] for (x, y) in pt for z in pz], [a * b for a in wt for b in wz]
    raise ValueError(cell)


def _merge(P, W):
    acc = {}
    for p, w in zip(P, W):
        acc[tuple(p)] = acc.get(tuple(p), 0) + w
    items = [(list(p), w) for p, w in acc.items() if w != 0]
    return [p for p, _ in items], [w for _, w in items]


def vertex_rule(cell: str):
    verts = {
        "vertex": [[]],
        "interval": [[0], [1]],
        "triangle": [[0, 0], [1, 0], [0, 1]],
        "quadrilateral": [[0, 0], [1, 0], [0, 1], [1, 1]],
        "tetrahedron": [[0, 0, 0], [1, 0, 0], [0, 1, 0], [0, 0, 1]],
        "hexahedron": [[x, y, z] for z in (0, 1) for y in (0, 1) for x in (0, 1)],
    }[cell]
    vol = {"vertex": Fr(1), "interval": Fr(1), "triangle": Fr(1, 2), "quadrilateral": Fr(1),
           "tetrahedron": Fr(1, 6), "hexahedron": Fr(1)}[cell]
    return [[Fr(c) for c in v] for v in verts], [vol / len(verts)] * len(verts)
