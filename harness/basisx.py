"""Function-space descriptions and exact rational tabulations for the S5 oracle (Fem.tla).

A basix.ufl element is flattened into *sub-elements*: (offset, block size, nodes, raw basix
element, pull-back).  Dof numbering rule stated here independently of FFCx:
blocked: dof = node * block_size + block;  mixed: concatenation of the sub-elements' dofs.
Only the raw basix elements are tabulated (basix is trusted); everything FFCx does with the
tabulations - component extraction, derivative indexing, offsets/strides, restrictions,
permutations - is on the tested side.
"""

from __future__ import annotations

import itertools
from fractions import Fraction

import basix
import basix.ufl
import numpy as np

MAXDEN = 1 << 16


class OutOfModel(Exception):
    """The case cannot be represented exactly in the model (skipped and counted)."""


def frac(x: float, what="value") -> Fraction:
    f = Fraction(float(x)).limit_denominator(MAXDEN)
    if abs(float(f) - float(x)) > 1e-12 * max(1.0, abs(float(x))):
        raise OutOfModel(f"{what} {x!r} is not a small rational")
    return f


def fr(fq: Fraction) -> list[int]:
    if abs(fq.numerator) >= 2**30 or fq.denominator >= 2**30:
        raise OutOfModel("rational too large for TLC")
    return [fq.numerator, fq.denominator]


def _map_name(el) -> str:
    mt = el.map_type
    return {basix.MapType.identity: "identity", basix.MapType.covariantPiola: "covariantPiola",
            basix.MapType.contravariantPiola: "contravariantPiola"}.get(mt) or _unsupported(str(mt))


def _unsupported(what):
    raise OutOfModel(f"unsupported in the model: {what}")


class Space:
    """Flattened description of a (possibly mixed / blocked) element."""

    def __init__(self, element):
        self.element = element
        self.subs = []       # dicts: off, bs, nn, map, tab(key), raw (basix.ufl element), kind
        self.cmap = []       # per flat physical value component: [sub(1-based), block, raw comp]
        self._flatten(element)
        self.dim = sum(s["bs"] * s["nn"] for s in self.subs)
        if self.dim != element.dim:
            raise OutOfModel(f"dimension mismatch flattening {element!r}")

    def _flatten(self, el):
        off = sum(s["bs"] * s["nn"] for s in self.subs)
        if isinstance(el, basix.ufl._MixedElement):
            for sub in el.sub_elements:
                self._flatten(sub)
            return
        if isinstance(el, basix.ufl._BlockedElement):
            raw = el._sub_element
            bs = el.block_size
            shape = el._block_shape
            sidx = len(self.subs) + 1
            self.subs.append(self._sub(raw, off, bs))
            if el.is_symmetric:
                n = shape[0]
                sym = {}
                k = 0
                for i in range(n):
                    for j in range(i + 1):
                        sym[(i, j)] = sym[(j, i)] = k
                        k += 1
                for i, j in itertools.product(range(n), range(n)):
                    self.cmap.append([sidx, sym[(i, j)], 0])
            else:
                for b in range(bs):
                    self.cmap.append([sidx, b, 0])
            return
        # plain element (incl. custom / enriched, quadrature, real)
        sidx = len(self.subs) + 1
        sub = self._sub(el, off, 1)
        self.subs.append(sub)
        if sub["map"] == "identity":
            for vc in range(int(np.prod(el.reference_value_shape, dtype=int))):
                self.cmap.append([sidx, 0, vc])
        else:
            gdim_comps = int(np.prod(el.reference_value_shape, dtype=int))
            for c in range(gdim_comps):
                self.cmap.append([sidx, 0, c])

    def _sub(self, raw, off, bs):
        if isinstance(raw, basix.ufl._QuadratureElement):
            kind, mp = "quadrature", "identity"
        elif isinstance(raw, basix.ufl._RealElement):
            kind, mp = "real", "identity"
        elif isinstance(raw, basix.ufl._BasixElement):
            kind, mp = "basix", _map_name(raw)
        else:
            _unsupported(type(raw).__name__)
        return {"off": off, "bs": bs, "nn": raw.dim, "map": mp, "raw": raw, "kind": kind,
                "tab": None}

    def describe(self, names):
        """JSON description; `names` assigns tabulation keys to raw elements."""
        subs = []
        for s in self.subs:
            s["tab"] = names(s["raw"])
            subs.append({"off": s["off"], "bs": s["bs"], "nn": s["nn"], "map": s["map"], "tab": s["tab"]})
        return {"dim": self.dim, "subs": subs, "cmap": self.cmap}


def deriv_indices(tdim: int, nderiv: int):
    """Multi-indices in the order Fem.tla indexes tabulations: value, first derivatives, second."""
    out = [tuple([0] * tdim)]
    if nderiv >= 1:
        for k in range(tdim):
            out.append(tuple(1 if a == k else 0 for a in range(tdim)))
    if nderiv >= 2:
        for k in range(tdim):
            for l in range(k, tdim):
                m = [0] * tdim
                m[k] += 1
                m[l] += 1
                out.append(tuple(m))
    return out


def tabulate_raw(sub, points, nderiv: int, tdim: int, unused: bool = False):
    """[deriv][q][node][vc] as [num, den] pairs, for one raw sub-element at rational points.
    unused: the integrand evaluated at these points does not refer to this element (a quadrature element that
    belongs to another integral of the same kernel): a table of zeros of the right shape."""
    npts = len(points)
    if unused and sub["kind"] == "quadrature":
        nn = int(np.asarray(sub["raw"]._points).shape[0])
        return [[[[[0, 1]] for _ in range(nn)] for _ in range(npts)] for _ in range(len(deriv_indices(tdim, nderiv)))]
    pts = np.array([[float(c) for c in p] for p in points], dtype=np.float64).reshape(npts, tdim)
    raw = sub["raw"]
    idxs = deriv_indices(tdim, nderiv)
    if sub["kind"] == "real":
        return [[[[[1, 1] if d == 0 else [0, 1]] for _ in range(1)] for _ in range(npts)] for d in range(len(idxs))]
    if sub["kind"] == "quadrature":
        qp = np.asarray(raw._points)
        if qp.shape[0] != npts or not np.allclose(qp, pts):
            raise OutOfModel("quadrature element evaluated away from its own points")
        return [[[[[1, 1] if (d == 0 and n == q) else [0, 1]] for n in range(npts)] for q in range(npts)]
                for d in range(len(idxs))]
    el = raw.basix_element
    if tdim == 0:
        t = el.tabulate(0, pts.reshape(npts, 0))
    else:
        t = el.tabulate(nderiv, pts)          # (nderivs, npts, ndofs, vs)
    out = []
    for mi in idxs:
        bi = basix.index(*mi) if tdim > 0 else 0
        out.append([[[fr(frac(t[bi, q, n, vc], "tabulated basis value")) for vc in range(t.shape[3])]
                     for n in range(t.shape[2])] for q in range(npts)])
    return out
