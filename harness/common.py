"""Shared plumbing for every check: paths, scratch dirs, verdict bookkeeping, evidence.

Conventions (DESIGN.md section 3):
  * exit 0  - property held on everything explored (KNOWN-FINDING lines allowed)
  * exit 1  - at least one `VIOLATION property=<id> replay=<path>` line
  * exit 2  - machinery failure (never a verdict)
"""

from __future__ import annotations

import atexit
import json
import os
import re
import shutil
import sys
import tempfile
import time
from pathlib import Path

VERIF = Path(__file__).resolve().parents[1]
# The implementation under test.  Always /repo's working tree unless a scratch
# worktree is named explicitly (used only to try seeded changes without touching /repo).
REPO = Path(os.environ.get("VERIF_REPO", "/repo")).resolve()
PY = "/venv/bin/python"
SPEC = VERIF / "spec"
NCPU = int(os.environ.get("VERIF_NCPU", os.cpu_count() or 4))


class MachineryError(RuntimeError):
    """Raised when the harness itself cannot proceed (exit 2)."""


def child_env(extra: dict | None = None) -> dict:
    """Environment for child Python processes: import ffcx from REPO's working tree."""
    env = dict(os.environ)
    pp = [str(REPO), str(VERIF)]
    if env.get("PYTHONPATH"):
        pp.append(env["PYTHONPATH"])
    env["PYTHONPATH"] = os.pathsep.join(pp)
    env.setdefault("PYTHONHASHSEED", "0")
    env["PYTHONDONTWRITEBYTECODE"] = "1"
    for v in ("OMP_NUM_THREADS", "OPENBLAS_NUM_THREADS", "MKL_NUM_THREADS", "NUMEXPR_NUM_THREADS"):
        env.setdefault(v, "1")
    env["TMPDIR"] = str(scratch("tmp"))          # children's temporary directories disappear with the scratch tree
    if extra:
        env.update({k: str(v) for k, v in extra.items()})
    return env


def ensure_repo_on_path() -> None:
    """Make `import ffcx` in *this* process come from REPO's working tree."""
    if str(REPO) not in sys.path[:1]:
        sys.path.insert(0, str(REPO))
    import ffcx  # noqa: PLC0415

    got = Path(ffcx.__file__).resolve().parent.parent
    if got != REPO:
        raise MachineryError(f"ffcx imported from {got}, expected {REPO}")


_scratch_root: Path | None = None


def scratch(name: str = "") -> Path:
    """A private scratch directory, removed at exit."""
    global _scratch_root
    if _scratch_root is None:
        base = os.environ.get("TMPDIR", "/tmp")
        _scratch_root = Path(tempfile.mkdtemp(prefix="ffcxverif-", dir=base))
        if not os.environ.get("VERIF_KEEP_SCRATCH"):
            atexit.register(shutil.rmtree, str(_scratch_root), True)
        # ffcx's JIT (cache_dir=None) and cffi leave mkdtemp() directories behind: keep them inside the scratch tree
        (_scratch_root / "tmp").mkdir(exist_ok=True)
        tempfile.tempdir = str(_scratch_root / "tmp")
    if not name:
        return _scratch_root
    d = _scratch_root / name
    d.mkdir(parents=True, exist_ok=True)
    return d


def load_known_findings() -> list[dict]:
    p = VERIF / "known_findings.json"
    if not p.exists():
        return []
    return json.loads(p.read_text())["findings"]


def _slug(s: str) -> str:
    return re.sub(r"[^A-Za-z0-9_.-]+", "_", s)[:120]


class Check:
    """Verdict bookkeeping for one property check run."""

    def __init__(self, pid: str, tier: str, seed: int, level: str = "model_checking"):
        self.pid = pid
        self.tier = tier
        self.seed = seed
        self.level = level
        self.t0 = time.time()
        self.violations: list[dict] = []
        self.known_hits: list[dict] = []
        self.notes: list[str] = []
        self.cov: dict = {}
        self.assumptions: list[str] = []
        self._known = [
            f for f in load_known_findings() if f["property"] == pid and f["status"] == "known"
        ]
        self.replay_dir = VERIF / "replay" / pid
        self._seen_keys: set[str] = set()

    # -- verdicts ---------------------------------------------------------
    def violation(self, key: str, what: str, payload: dict | None = None) -> None:
        """Report one violation, identified by `key` (a specific input / site / history)."""
        if key in self._seen_keys:
            return
        self._seen_keys.add(key)
        for f in self._known:
            if f["key"] == key:
                print(f"KNOWN-FINDING: property={self.pid} {f['what']} [{key}]", flush=True)
                self.known_hits.append({"key": key, "what": what})
                return
        self.replay_dir.mkdir(parents=True, exist_ok=True)
        path = self.replay_dir / (_slug(key) + ".json")
        doc = {"property": self.pid, "key": key, "what": what, "seed": self.seed,
               "tier": self.tier, "payload": payload or {}}
        path.write_text(json.dumps(doc, indent=1, default=str))
        print(f"VIOLATION property={self.pid} replay={path}", flush=True)
        print(f"  what: {what}", flush=True)
        self.violations.append({"key": key, "what": what, "replay": str(path)})

    def note(self, msg: str) -> None:
        print(f"[{self.pid}] {msg}", flush=True)
        self.notes.append(msg)

    # -- coverage ---------------------------------------------------------
    def add(self, **kw) -> None:
        """Accumulate coverage counters (ints add up, lists extend, others overwrite)."""
        for k, v in kw.items():
            if isinstance(v, bool) or k not in self.cov:
                self.cov[k] = v
            elif isinstance(v, int) and isinstance(self.cov[k], int):
                self.cov[k] += v
            elif isinstance(v, list) and isinstance(self.cov[k], list):
                self.cov[k].extend(v)
            else:
                self.cov[k] = v

    def finish(self) -> int:
        cov = dict(self.cov)
        samples = cov.get("samples") or []
        cov["samples"] = samples[:8] if samples else ["(no sample recorded)"]
        cov.setdefault("states", 0)
        cov.setdefault("transitions", 0)
        cov.setdefault("traces_validated_against_impl", 0)
        cov.setdefault("evaluations", max(1, cov.get("traces_validated_against_impl", 0)))
        cov.setdefault("distinct_nontrivial", 0)
        cov["known_findings_hit"] = [k["key"] for k in self.known_hits]
        if self.notes:
            cov["notes"] = self.notes[-40:]
        ev = {
            "property_id": self.pid,
            "tier": self.tier,
            "seed": self.seed,
            "level": self.level,
            "coverage": cov,
            "assumptions": self.assumptions,
            "wall_s": round(time.time() - self.t0, 2),
            "violations": len(self.violations),
        }
        out = VERIF / "evidence" / f"{self.pid}.json"
        out.parent.mkdir(exist_ok=True)
        out.write_text(json.dumps(ev, indent=1, default=str) + "\n")
        if self.violations:
            print(f"[{self.pid}] FAIL: {len(self.violations)} violation(s)", flush=True)
            return 1
        print(
            f"[{self.pid}] ok tier={self.tier} seed={self.seed} wall={ev['wall_s']}s "
            f"states={cov['states']} traces={cov['traces_validated_against_impl']} "
            f"known={len(self.known_hits)}",
            flush=True,
        )
        return 0
